#!/usr/bin/env python3
"""Merge manifest.d/*.json fragments (one per property) into MANIFEST.json."""
import json
import sys
from pathlib import Path

V = Path(__file__).resolve().parent.parent
props = [json.loads(l)["id"] for l in (V / "properties.jsonl").read_text().splitlines() if l.strip()]
head = json.loads((V / "manifest.d" / "_head.json").read_text())
checks, na = [], []
for pid in props:
    f = V / "manifest.d" / f"{pid}.json"
    if not f.exists():
        na.append({"property_id": pid, "reason": "check not built yet in this round (planned, see DESIGN.md section 9); nothing is claimed for it"})
        continue
    d = json.loads(f.read_text())
    if "not_applicable" in d:
        na.append({"property_id": pid, "reason": d["not_applicable"]})
        continue
    d.setdefault("property_id", pid)
    d.setdefault("quick_cmd", f"./check {pid} --tier quick")
    d.setdefault("thorough_cmd", f"./check {pid} --tier thorough")
    d.setdefault("evidence_file", f"/verif/evidence/{pid}.json")
    d.setdefault("replay_cmd_template", f"./check {pid} --replay {{path}}")
    checks.append(d)
head["checks"] = checks
head["not_applicable"] = na
(V / "MANIFEST.json").write_text(json.dumps(head, indent=1) + "\n")
print(f"MANIFEST.json: {len(checks)} checks, {len(na)} not_applicable")

# merge known_findings.d/*.json fragments into known_findings.json (single committed list)
kf = V / "known_findings.json"
data = json.loads(kf.read_text()) if kf.exists() else {"findings": [], "fixed": []}
frag_props = {f.stem for f in (V / "known_findings.d").glob("*.json")}
# entries of a property that has a fragment come only from the fragment (no stale copies survive)
byid = {x["id"]: x for x in data.get("findings", []) if x.get("property") not in frag_props}
fixed = {}  # rebuilt from the fragments every time
for f in sorted((V / "known_findings.d").glob("*.json")):
    d = json.loads(f.read_text())
    for x in d.get("findings", []):
        byid[x["id"]] = x
    for x in d.get("fixed", []):
        fixed[json.dumps(x, sort_keys=True)] = x
data["findings"] = sorted(byid.values(), key=lambda x: x["id"])
data["fixed"] = list(fixed.values())
kf.write_text(json.dumps(data, indent=1) + "\n")
print(f"known_findings.json: {len(data['findings'])} findings, {len(data['fixed'])} fixed")
