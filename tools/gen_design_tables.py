#!/usr/bin/env python3
"""Regenerates the generated parts of DESIGN.md (between <!-- GEN:x --> and <!-- /GEN:x --> markers):
status per property, seeded changes, findings (open / fixed)."""
import json
import re
from pathlib import Path

V = Path(__file__).resolve().parent.parent
props = [json.loads(l) for l in (V / "properties.jsonl").read_text().splitlines() if l.strip()]


def status_table():
    out = ["| id | specification modules | quick: TLC states / cases bound to the implementation | open findings | fixed | seeds caught |", "|---|---|---|---|---|---|"]
    kf = json.loads((V / "known_findings.json").read_text())
    res = results()
    for p in props:
        pid = p["id"]
        group = {"C01": "nmtran", "C02": "nmtran", "C03": "records", "C04": "records", "C05": "compsys", "C06": "features", "C07": "features",
                 "C08": "features", "C09": "features", "C10": "stmts", "C11": "rv", "C12": "features", "C13": "data", "C14": "data", "C15": "lock",
                 "C16": "modeldb", "C17": "workflow", "C18": "mfl", "C19": "rank", "C20": "tables"}[pid]
        mods = {
            "C01": "NMTran, Expr, Rat, Advan, PharmpyIf, Theta/Omega/ParamMeaning", "C02": "CodeGen (+ NMTran, Advan, Expr)",
            "C03": "Stream, StreamOps, StreamTrace", "C04": "Theta, Omega, RecRat", "C05": "CompSys", "C06": "Transform, TransformTrace",
            "C07": "Preserve, PreserveTrace, ERat", "C08": "Features, FeaturesDefs, FeaturesTrace", "C09": "Effects, EffectsDefs, EffectsTrace, ERat",
            "C10": "Statements", "C11": "RandVars, PSD", "C12": "Keys, KeysTrace", "C13": "DataLex, DataItem, Filter, DataWrite", "C14": "EventWalk",
            "C15": "PathLock, PathLockAbs, PathLockTrace, MCPathLock, MCLive", "C16": "ModelDB, ModelDBAbs, ModelDBTrace, ModelDBText",
            "C17": "Workflow, WorkflowExec, WorkflowTrace", "C18": "MFL, Stepwise, Partitions", "C19": "Rank", "C20": "NMTable",
        }[pid]
        ev = V / "evidence" / f"{pid}.json"
        cov = ""
        if ev.exists():
            e = json.loads(ev.read_text())
            c = e["coverage"]
            cov = f"{c.get('states', '?')} / {c.get('traces_validated_against_impl', c.get('evaluations', '?'))} ({e['tier']})"
        nopen = sum(1 for f in kf["findings"] if f["property"] == pid and f.get("status") == "open")
        nfix = sum(1 for f in kf.get("fixed", []) if f"property={pid} " in f)
        seeds = [(s, r) for s, r in res.items() if s.startswith(pid + "-")]
        sc = f"{sum(1 for _, r in seeds if r == '1')}/{len(seeds)}" if seeds else ""
        out.append(f"| {pid} | spec/{group}: {mods} | {cov} | {nopen} | {nfix} | {sc} |")
    return "\n".join(out)


def results():
    f = V / "seeded" / "RESULTS.md"
    res = {}
    if f.exists():
        for line in f.read_text().splitlines():
            m = re.match(r"\| (C\d+-s\d+) \| C\d+ \| (\S*) \|", line)
            if m:
                res[m.group(1)] = m.group(2)
    return res


def seeds_table():
    res = results()
    out = ["| seed | change | needs | first version | now (seeded/RESULTS.md) |", "|---|---|---|---|---|"]
    for d in sorted((V / "seeded").iterdir(), key=lambda p: (p.name.split("-")[0], int(re.sub(r"\D", "", p.name.split("-")[1]) or 0)) if "-" in p.name else (p.name, 0)):
        m = d / "meta.json"
        if not m.exists():
            continue
        j = json.loads(m.read_text())
        first = "missed" if "MISSED" in j.get("detected_by", "") else "caught"
        now = {"1": "caught", "0": "MISSED", "2": "machinery error"}.get(res.get(d.name, ""), "not re-run")
        out.append(f"| {d.name} | {j['change']} | {j['needs_to_manifest']} | {first} | {now} |")
    return "\n".join(out)


def findings():
    kf = json.loads((V / "known_findings.json").read_text())
    out = []
    for p in props:
        pid = p["id"]
        op = [f for f in kf["findings"] if f["property"] == pid and f.get("status") == "open"]
        fx = [f for f in kf.get("fixed", []) if f"property={pid} " in f]
        if not op and not fx:
            continue
        out.append(f"**{pid}** — {len(op)} open, {len(fx)} fixed")
        for f in op:
            out.append(f"* open `{f['id']}` key `{json.dumps(f['key'])}`: {f['what'][:260]}")
        for f in fx:
            out.append(f"* {f[:300]}")
        out.append("")
    return "\n".join(out)


def main():
    p = V / "DESIGN.md"
    s = p.read_text()
    for tag, fn in (("STATUS", status_table), ("SEEDS", seeds_table), ("FINDINGS", findings)):
        a, b = f"<!-- GEN:{tag} -->", f"<!-- /GEN:{tag} -->"
        if a in s and b in s:
            s = s[: s.index(a) + len(a)] + "\n" + fn() + "\n" + s[s.index(b):]
    p.write_text(s)
    print("DESIGN.md tables regenerated")


if __name__ == "__main__":
    main()
