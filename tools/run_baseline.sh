#!/bin/sh
# Runs the pinned suite with the guard OFF and compares with BASELINE.json (247 stable tests must pass).
cd /repo || exit 2
OUT=${1:-/tmp/verif_baseline_junit.xml}
timeout 1800 env -u PHARMPY_VERIF /venv/bin/python -m pytest -q -p no:cacheprovider --timeout=900 --continue-on-collection-errors --junitxml="$OUT" >/tmp/verif_baseline.log 2>&1
python3 - "$OUT" <<'PY'
import json, sys, xml.etree.ElementTree as ET
base=set(json.load(open('/root/.vp/BASELINE.json'))['stable_pass'])
root=ET.parse(sys.argv[1]).getroot()
passed={f"{tc.get('classname')}::{tc.get('name')}" for tc in root.iter('testcase') if not any(c.tag in ('failure','error','skipped') for c in tc)}
missing=sorted(base-passed)
print(f"baseline {len(base)} passed-in-baseline {len(base&passed)} missing {missing[:10]}")
sys.exit(1 if missing else 0)
PY
