#!/bin/sh
# usage: tools/mutant_test.sh <property id> <patch.diff> [tier]   -- applies the patch in a scratch worktree of /repo,
# runs ./check against it (VERIF_REPO), removes the worktree.  Exit code = exit code of the check.
P=$1; PATCH=$(readlink -f "$2"); TIER=${3:-quick}
WT=/tmp/wt-mut-$$
git -C /repo worktree add --detach "$WT" HEAD -q || exit 2
( cd "$WT" && git apply "$PATCH" ) || { git -C /repo worktree remove --force "$WT"; echo "patch does not apply"; exit 2; }
cd /verif && VERIF_REPO="$WT" timeout 3000 ./check "$P" --tier "$TIER" > "/tmp/mut-$P-$$.log" 2>&1
RC=$?
grep -c '^VIOLATION' "/tmp/mut-$P-$$.log" | sed "s/^/violations: /"
grep -E '^(VIOLATION|KNOWN|OK|MACHINERY|NOTE)' "/tmp/mut-$P-$$.log" | cut -c1-220 | head -6
grep -A1 '^VIOLATION' "/tmp/mut-$P-$$.log" | grep what | head -2 | cut -c1-300
git -C /repo worktree remove --force "$WT"
rm -f "/tmp/mut-$P-$$.log"
echo "exit=$RC"
exit $RC
