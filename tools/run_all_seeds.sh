#!/bin/sh
# Runs every seeded change under /verif/seeded against the quick check of its property (scratch worktree each,
# up to $PAR at a time) and writes /verif/seeded/RESULTS.md.   usage: tools/run_all_seeds.sh [pattern] [PAR]
cd /verif || exit 2
PAT=${1:-C}; PAR=${2:-3}
OUT=seeded/RESULTS.md
TMPD=/tmp/seed-results-$$; mkdir -p $TMPD
ls -d seeded/${PAT}* | while read d; do [ -f "$d/patch.diff" ] && echo $d; done > $TMPD/list
cat $TMPD/list | xargs -P $PAR -I{} sh -c '
  d={}; s=$(basename $d); P=${s%%-*}
  LOG=$(tools/mutant_test.sh $P $d/patch.diff 2>&1)
  RC=$(echo "$LOG" | sed -n "s/^exit=//p")
  NV=$(echo "$LOG" | sed -n "s/^violations: //p" | head -1)
  MSG=$(echo "$LOG" | grep "what:" | head -1 | cut -c1-160 | tr "|" "/")
  echo "| $s | $P | $RC | $NV | $MSG |" > '$TMPD'/$s.row
  echo "$s exit=$RC violations=$NV"'
{ echo "Last run: $(date -u +%Y-%m-%dT%H:%MZ) against /repo $(git -C /repo rev-parse --short HEAD), /verif $(git rev-parse --short HEAD)"; echo;
  echo "| seed | property | check exit | violations | first message |"; echo "|---|---|---|---|---|"; cat $TMPD/*.row | sort -V; } > $TMPD/all.md
if [ "$PAT" = "C" ]; then mv $TMPD/all.md $OUT; else cat $TMPD/all.md; fi
rm -rf $TMPD
