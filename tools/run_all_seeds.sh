#!/bin/sh
# Runs every seeded change under /verif/seeded against the quick check of its property (scratch worktree each)
# and writes /verif/seeded/RESULTS.md.   usage: tools/run_all_seeds.sh [pattern]
cd /verif || exit 2
PAT=${1:-C}
OUT=seeded/RESULTS.md
TMP=/tmp/seed-results-$$.md
echo "| seed | property | check exit | violations | first message |" > $TMP
echo "|---|---|---|---|---|" >> $TMP
for d in seeded/${PAT}*; do
  [ -f "$d/patch.diff" ] || continue
  s=$(basename $d); P=${s%%-*}
  LOG=$(tools/mutant_test.sh $P $d/patch.diff 2>&1)
  RC=$(echo "$LOG" | sed -n 's/^exit=//p')
  NV=$(echo "$LOG" | sed -n 's/^violations: //p' | head -1)
  MSG=$(echo "$LOG" | grep 'what:' | head -1 | cut -c1-160 | tr '|' '/')
  echo "| $s | $P | $RC | $NV | $MSG |" >> $TMP
  echo "$s exit=$RC violations=$NV"
done
if [ "$PAT" = "C" ]; then mv $TMP $OUT; else cat $TMP; rm -f $TMP; fi
