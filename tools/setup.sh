#!/bin/sh
# Offline setup: nothing to build; verify the tools the checks need are present.
set -e
cd "$(dirname "$0")/.."
mkdir -p .work evidence replays
java -version >/dev/null 2>&1
test -f /opt/veriftools/tla/tla2tools.jar
/venv/bin/python -c "import sys; sys.path.insert(0,'/repo/src'); import pharmpy" 
echo setup ok
