#!/bin/sh
# usage: tools/seed_confirm.sh <seeded dir> [--suite]   confirm a seeded change: demo passes on the unchanged tree, fails with the patch;
# with --suite also run the pinned test-suite on the patched tree and compare with BASELINE.json
D=$(readlink -f "$1"); WT=/tmp/wt-seed-$$
git -C /repo worktree add --detach "$WT" HEAD -q || exit 2
cd "$WT"
PYTHONPATH="$WT/src" timeout 300 /venv/bin/python "$D/demo.py" >/tmp/seed-$$-a.log 2>&1; A=$?
git apply "$D/patch.diff" || { echo "patch does not apply"; git -C /repo worktree remove --force "$WT"; exit 2; }
PYTHONPATH="$WT/src" timeout 300 /venv/bin/python "$D/demo.py" >/tmp/seed-$$-b.log 2>&1; B=$?
echo "demo unchanged exit=$A   patched exit=$B"
tail -3 /tmp/seed-$$-b.log | cut -c1-200
S="skipped"
if [ "$2" = "--suite" ]; then
  PYTHONPATH="$WT/src" timeout 2400 env -u PHARMPY_VERIF /venv/bin/python -m pytest -q -p no:cacheprovider --timeout=900 --continue-on-collection-errors --junitxml=/tmp/seed-$$.xml >/tmp/seed-$$-t.log 2>&1
  S=$(python3 - /tmp/seed-$$.xml <<'PY'
import json, sys, xml.etree.ElementTree as ET
base=set(json.load(open('/root/.vp/BASELINE.json'))['stable_pass'])
root=ET.parse(sys.argv[1]).getroot()
passed={f"{tc.get('classname')}::{tc.get('name')}" for tc in root.iter('testcase') if not any(c.tag in ('failure','error','skipped') for c in tc)}
print(f"pinned {len(base&passed)}/{len(base)} missing={sorted(base-passed)[:3]}")
PY
)
fi
echo "suite: $S"
cd /; git -C /repo worktree remove --force "$WT"; rm -f /tmp/seed-$$*
[ "$A" = 0 ] && [ "$B" != 0 ]
