"""C01 - Reading a NONMEM model preserves its meaning (NM-TRAN -> model IR).

spec -> code.  The reference is spec/nmtran/NMTran.tla (small-step interpreter of abbreviated code,
Advan.tla = PREDPP's ADVAN/TRANS definitions, ParamMeaning.tla = meaning of $THETA/$OMEGA/$SIGMA).
  1. a seeded bounded grammar (harness/nmtran_gen.py) produces programs / ADVAN configurations /
     parameter record sets as JSON ASTs;
  2. TLC runs the interpreter on every program x probe environment and emits the final environment,
     the rate constants, F, lag/bioavailability/dose attributes, the parameter list and block structure
     -- and, next to it, what the transcription of pharmpy's _parse_tree (PharmpyIf.tla) predicts;
  3. the driver renders each AST as control-stream text (harness/nmtran_render.py), reads it with
     pharmpy.modeling.read_model_from_string, evaluates model.statements exactly (harness/qeval.py) at
     the same probe and compares with what TLC computed.
Undefined on either side = skipped, never judged; exact disagreements are re-checked in floating
point with the real functions before they count.
"""
from __future__ import annotations

import json
import math
import random
import shutil
import time
from fractions import Fraction

from . import core
from . import nmtran_gen as G
from . import nmtran_render as R

SPEC = core.SPEC / "nmtran"

STATEMENT_ACTIONS = ["DoAssign", "DoLogicalIfTaken", "DoLogicalIfSkipped", "DoBlockIf", "DoBlockElseIf",
                     "DoBlockElse", "DoBlockNone", "DoAdvan", "DoFinish"]
ALL_KINDS = {"asg", "lif_taken", "lif_skipped", "blk_if", "blk_elseif", "blk_else", "blk_none", "advan", "des",
             "num", "var", "neg", "add", "sub", "mul", "div", "pow",
             "EXP", "LOG", "SQRT", "ABS", "INT", "MOD", "PEXP", "PLOG", "PSQRT",
             "EQ", "NE", "LT", "LE", "GT", "GE", "and", "or", "not"}
HAZARDS = ["nested_if_in_block", "symbol_twice_in_branch", "symbol_only_in_later_branch",
           "condition_variable_assigned_in_block", "branch_reads_symbol_assigned_in_block", "mod_function",
           "protected_function_compared", "statically_decidable_condition", "signed_literal_power"]
# refusals to read (documented error types / grammar rejections): admitted, counted, never judged
REFUSALS = ("UnexpectedToken", "UnexpectedCharacters", "UnexpectedInput", "UnexpectedEOF", "ModelSyntaxError",
            "ValueError", "NotImplementedError", "ZeroDivisionError", "ParseError", "VisitError")

TIERS = {
    "quick": dict(n_pred=1800, n_advan=330, n_general=160, n_param=400, chunk=4000),
    "thorough": dict(n_pred=40000, n_advan=None, n_general=2000, n_param=4000, chunk=8000),
}


# --------------------------------------------------------------------------- TLC side


def _strip(case):
    """What goes into TLC's case file (generator bookkeeping is not part of the spec's interface)."""
    keep = ("id", "kind", "prog", "err", "des", "comps", "advan", "trans", "amt", "obscmt", "dosecmt", "ratemode", "envs")
    return {k: case[k] for k in keep if k in case}


def _obj(x):
    """ToJson renders an empty function as []."""
    return x if isinstance(x, dict) else {}


def _write_cases(d, name, cases):
    f = d / name
    f.write_text(json.dumps({"cases": [_strip(c) for c in cases]}))
    return f


class CoverageRun:
    """TLC with -coverage on a fixed sub-sample (the systematic programs + one configuration per ADVAN/TRANS pair),
    in a background thread: under -coverage TLC is several times slower, so the bulk runs without it and the
    per-action counts (vacuity guard: every statement kind was executed) come from here."""

    def __init__(self, cases):
        import threading

        self.cases = cases
        self.res = None
        self.exc = None
        self.t = threading.Thread(target=self._run, daemon=True)
        self.t.start()

    def _run(self):
        d = core.scratch("c01cov")
        try:
            f = _write_cases(d, "cov.json", self.cases)
            self.res = core.run_tlc(SPEC / "NMTranCov.tla", SPEC / "NMTranCov.cfg", workers=4, timeout=420, heap="4g", env={"CASES": str(f), "JAVA_TOOL_OPTIONS": "-Xss32m"}, coverage=True)
        except Exception as e:  # noqa: BLE001
            self.exc = e
        finally:
            shutil.rmtree(d, ignore_errors=True)

    def finish(self, v: core.Verdict):
        """best effort: -coverage switches off TLC's caching of lazily evaluated values, which makes this evaluator-style
        specification exponentially slow on some programs (out of memory / time-out).  The vacuity guard that is always
        applied is the `seen` set the specification itself reports (every action adds its marker); the per-action counts
        of TLC's own coverage are added to the evidence when the run completes."""
        self.t.join()
        res = self.res
        if self.exc is not None or res is None or res.error or res.violated:
            v.notes.append("NMTran.tla -coverage run did not complete (" + str(self.exc or (res.error if res else "") or res.violated)[:120]
                           + "); vacuity guard = statement kinds reported by the specification (kinds_interpreted)")
            return
        core.require_actions(res, STATEMENT_ACTIONS, "NMTran.tla")
        core.tlc_stats_into(v, res)
        v.add_coverage(interpreter_actions_coverage_run={a: res.coverage.get(a, (0, 0))[0] for a in STATEMENT_ACTIONS + ["DoCondUndefined", "DoValueUndefined"]},
                       tlc_coverage_run_wall_s=round(res.wall, 1), coverage_run_cases=len(self.cases))


def run_interpreter(cases, v: core.Verdict, chunk: int, timeout=3000):
    """-> {(id, env index): TLC record}; accumulates TLC statistics; vacuity guard on what the spec reports it interpreted."""
    out = {}
    seen = set()
    d = core.scratch("c01tlc")
    wall = 0.0
    try:
        for i in range(0, len(cases), chunk):
            part = cases[i:i + chunk]
            f = _write_cases(d, f"cases{i}.json", part)
            res = core.run_tlc(SPEC / "NMTran.tla", SPEC / "NMTran.cfg", workers=16, timeout=timeout, env={"CASES": str(f), "JAVA_TOOL_OPTIONS": "-Xss32m"}, coverage=False)
            core.require_ok(res, "NMTran.tla")
            if res.violated:
                raise core.MachineryError(f"NMTran.tla: invariant {res.violated} violated:\n" + "\n".join(res.trace[-2:])[:2000])
            core.tlc_stats_into(v, res)
            wall += res.wall
            n = 0
            for tag, rec in res.prints:
                if tag == "CASE":
                    out[(rec["id"], rec["env"])] = rec
                    seen.update(rec.get("seen") or [])
                    n += 1
            want = sum(len(c["envs"]) for c in part)
            if n != want:
                raise core.MachineryError(f"NMTran.tla emitted {n} records for {want} (case, environment) pairs")
    finally:
        shutil.rmtree(d, ignore_errors=True)
    unseen = sorted(ALL_KINDS - seen)
    if unseen:
        raise core.MachineryError(f"NMTran.tla: statement kinds / operators never interpreted: {unseen}")
    v.add_coverage(kinds_interpreted=sorted(seen), tlc_interpreter_wall_s=round(wall, 1))
    return out


def run_param_meaning(cases, v: core.Verdict, timeout=1800):
    d = core.scratch("c01par")
    try:
        f = d / "params.json"
        keep = ("id", "thetas", "omegas", "sigmas")
        f.write_text(json.dumps({"cases": [{k: c[k] for k in keep} for c in cases]}))
        res = core.run_tlc(SPEC / "ParamMeaning.tla", SPEC / "ParamMeaning.cfg", workers=16, timeout=timeout, env={"CASES": str(f), "JAVA_TOOL_OPTIONS": "-Xss32m"})
    finally:
        shutil.rmtree(d, ignore_errors=True)
    core.require_ok(res, "ParamMeaning.tla")
    if res.violated:
        raise core.MachineryError(f"ParamMeaning.tla: invariant {res.violated} violated")
    core.require_actions(res, ["DoThetaItem", "DoDiagRecord", "DoBlockRecord", "DoSameRecord", "DoNextSection"], "ParamMeaning.tla")
    core.tlc_stats_into(v, res)
    out = {rec["id"]: rec for tag, rec in res.prints if tag == "PARAM"}
    if len(out) != len(cases):
        raise core.MachineryError(f"ParamMeaning.tla emitted {len(out)} records for {len(cases)} cases")
    v.add_coverage(tlc_param_wall_s=round(res.wall, 1))
    return out


# --------------------------------------------------------------------------- pharmpy side: projection / evaluation


def _frac(p):
    return Fraction(p[0], p[1])


def _fmt(x):
    return str(x) if x is not None else "undefined"


def _refusal(e):
    if type(e).__name__ == "TypeError" and ("non-real zoo" in str(e) or "Invalid NaN comparison" in str(e)):
        # a literal-only sub-expression that divides by zero (0**(-1), 1/(2-2) ...) inside a condition or a protected
        # function: degenerate generator output, the same class as the ZeroDivisionError of a literal x/0
        return True
    return type(e).__name__ in REFUSALS or "lark" in type(e).__module__


def _import_pharmpy():
    """import once in the parent (children are forked).  The reader asks importlib.metadata for lark's version at
    every parse-tree node (a third of the read time): that pure lookup is memoised here, nothing else is touched."""
    import functools

    core.use_repo()
    import pharmpy.modeling  # noqa: F401
    import pharmpy.model.external.nonmem  # noqa: F401  (the plugin is otherwise imported lazily, once per forked child)
    import pharmpy.model.external.nonmem.model  # noqa: F401
    import pharmpy.internals.parse.ignored as ig

    if not hasattr(ig.version, "cache_info"):
        ig.version = functools.lru_cache(maxsize=None)(ig.version)


def _read(text):
    from pharmpy.modeling import read_model_from_string

    m = read_model_from_string(text)
    m.statements  # noqa: B018
    return m


def _name_env(model, ntheta, env):
    """probe environment keyed by NM-TRAN names -> keyed by the names the model IR uses"""
    from .qeval import Q

    out = {}
    pnames = model.parameters.names
    etas = model.random_variables.etas.names
    eps = model.random_variables.epsilons.names
    for k, val in env.items():
        q = Q(_frac(val))
        if k.startswith("THETA("):
            i = int(k[6:-1])
            if i <= ntheta and i <= len(pnames):
                out[pnames[i - 1]] = q
        elif k.startswith("ETA("):
            i = int(k[4:-1])
            if i <= len(etas):
                out[etas[i - 1]] = q
        elif k.startswith("EPS("):
            i = int(k[4:-1])
            if i <= len(eps):
                out[eps[i - 1]] = q
        else:
            out[k] = q
    return out


def exec_ir(model, env, amounts=None):
    """Sequential exact execution of model.statements.
    -> vars {name: Q|None}, assigned names, ode projection (or None), why {name: text}"""
    from pharmpy.model import Assignment, CompartmentalSystem, output
    from .qeval import Evaluator, Q, Undef, _sp

    class Ev(Evaluator):
        """Float constants of the IR are read as the decimal / small rational they stand for: the reader's symbolic
        engine rewrites x/0.75 as 1.33333333333333*x and 0.1+0.2 as 0.30000000000000004; taken bit by bit those
        would flip INT/MOD/comparisons exactly at their discontinuities."""

        def ev(self, e):
            e = _sp(e)
            if e.is_Float:
                f = Fraction(repr(float(e)))
                g = f.limit_denominator(100000)
                if f == g or (g != 0 and abs(f - g) <= abs(g) * Fraction(1, 10**12)):
                    return Q(g)
                return Q(f)
            return super().ev(e)

    E = Ev(dict(env), None)
    vals, why, ode = {}, {}, None
    for s in model.statements:
        if isinstance(s, Assignment):
            name = str(_sp(s.symbol))
            try:
                x = E.ev(s.expression)
            except Undef as u:
                x = None
                why[name] = str(u)
            except (ZeroDivisionError, OverflowError, ValueError) as u:
                x = None
                why[name] = type(u).__name__
            E.env[name] = x
            vals[name] = x
        elif isinstance(s, CompartmentalSystem):
            cmap = dict(model.internals.compartment_map or {})
            num = {n: (0 if n == "OUTPUT" else i) for n, i in cmap.items()}
            comps = [s.find_compartment(n) for n in s.compartment_names]
            for c in comps:
                k = num.get(c.name)
                if amounts and k and k <= len(amounts):
                    E.env[str(_sp(c.amount))] = Q(_frac(amounts[k - 1]))

            def ev(x):
                try:
                    return E.ev(x), None
                except Undef as u:
                    return None, str(u)
                except (ZeroDivisionError, OverflowError, ValueError) as u:
                    return None, type(u).__name__

            flows = {}
            for a in comps:
                for b in comps:
                    if a is not b and _sp(s.get_flow(a, b)) != 0:
                        flows[(num.get(a.name), num.get(b.name))] = ev(s.get_flow(a, b))
                if _sp(s.get_flow(a, output)) != 0:
                    flows[(num.get(a.name), 0)] = ev(s.get_flow(a, output))
            per = {}
            for c in comps:
                doses = []
                for dz in c.doses:
                    kind, par = "bolus", (Q(0), None)
                    if type(dz).__name__ == "Infusion":
                        if dz.rate is not None:
                            kind, par = "rate", ev(dz.rate)
                        else:
                            kind, par = "duration", ev(dz.duration)
                    doses.append((kind, par))
                per[num.get(c.name)] = {"lag": ev(c.lag_time), "bio": ev(c.bioavailability), "doses": doses}
            dadt = {}
            for eq in s.eqs:
                q = _sp(eq)
                k = num.get(str(q.lhs.args[0].func)[2:])
                dadt[k] = ev(q.rhs)
            ode = {"ncomp": len(comps), "flows": flows, "comps": per, "dadt": dadt}
    return vals, set(vals), ode, why


# ---- floating point re-check with the real functions (can only demote an alarm, never raise one)


def _f_eval(e, env):
    try:
        return _f_eval0(e, env)
    except (ValueError, ZeroDivisionError, OverflowError, KeyError, TypeError):
        return math.nan


def _f_eval0(e, env):
    k = e["k"]
    if k == "num":
        return e["n"] / e["d"]
    if k == "var":
        return env.get(e["v"], math.nan)
    if k == "neg":
        return -_f_eval(e["a"], env)
    if k in ("add", "sub", "mul", "div", "pow"):
        a, b = _f_eval(e["a"], env), _f_eval(e["b"], env)
        r = {"add": lambda: a + b, "sub": lambda: a - b, "mul": lambda: a * b, "div": lambda: a / b,
             "pow": lambda: a ** b}[k]()
        return r if not isinstance(r, complex) else math.nan
    f = e["f"]
    a = _f_eval(e["a"], env)
    if f in ("EXP", "PEXP"):
        return math.exp(a)
    if f in ("LOG", "PLOG"):
        return math.log(a)
    if f == "SQRT":
        return math.sqrt(a)
    if f == "PSQRT":
        return math.sqrt(a) if a >= 0 else 0.0
    if f == "ABS":
        return abs(a)
    if f == "INT":
        return float(math.trunc(a))
    if f == "MOD":
        return math.fmod(a, _f_eval(e["b"], env))
    raise ValueError(f)


def _f_cond(c, env):
    k = c["k"]
    if k == "rel":
        a, b = _f_eval(c["a"], env), _f_eval(c["b"], env)
        return {"EQ": a == b, "NE": a != b, "LT": a < b, "LE": a <= b, "GT": a > b, "GE": a >= b}[c["op"]]
    if k == "not":
        return not _f_cond(c["a"], env)
    a, b = _f_cond(c["a"], env), _f_cond(c["b"], env)
    return (a and b) if k == "and" else (a or b)


def _f_exec(stmts, env):
    for s in stmts:
        if s["k"] == "asg":
            env[s["v"]] = _f_eval(s["e"], env)
        elif s["k"] == "lif":
            if _f_cond(s["c"], env):
                env[s["v"]] = _f_eval(s["e"], env)
        else:
            for arm in s["arms"]:
                if _f_cond(arm["c"], env):
                    _f_exec(arm["body"], env)
                    break
            else:
                if s["haselse"]:
                    _f_exec(s["els"], env)
    return env


def _uses_functions(x):
    """does the AST contain a function whose model value differs from the real one (EXP LOG SQRT ..., fractional power)"""
    if isinstance(x, list):
        return any(_uses_functions(y) for y in x)
    if not isinstance(x, dict):
        return False
    if x.get("k") == "fn" and x["f"] in ("EXP", "PEXP", "LOG", "PLOG", "SQRT", "PSQRT"):
        return True
    if x.get("k") == "pow" and not (x["b"].get("k") == "num" and x["b"]["d"] == 1):
        return True
    return any(_uses_functions(y) for y in x.values())


def float_agrees(case, model, env, var, fvalue=None):
    """True when, with the real exp/log/sqrt, program and IR agree on `var` at this probe (the exact
    disagreement is then an artefact of the function model)."""
    import sympy

    if not _uses_functions([case["prog"], case.get("err", [])]):
        return False  # the function model plays no role in this program: nothing to re-check
    try:
        fenv = {k: float(_frac(p)) for k, p in env.items()}
        _f_exec(case["prog"], fenv)
        if case["kind"] == "advan":
            if fvalue is None:
                return False
            fenv["F"] = fvalue
            _f_exec(case["err"], fenv)
        ref = fenv[var]
        from pharmpy.model import Assignment

        ienv = {k: float(x) for k, x in _name_env(model, case.get("ntheta", 3), env).items() if x is not None}
        for s in model.statements:
            if isinstance(s, Assignment):
                ex = sympy.sympify(s.expression)
                subs = {z: ienv[z.name] for z in ex.free_symbols if z.name in ienv and not math.isnan(ienv[z.name])}
                try:
                    ienv[str(sympy.sympify(s.symbol))] = float(ex.subs(subs).evalf())
                except Exception:  # noqa: BLE001
                    ienv[str(sympy.sympify(s.symbol))] = math.nan
        got = ienv[var]
        if math.isnan(ref) or math.isnan(got):
            return False
        return abs(ref - got) <= 1e-6 * max(1.0, abs(ref), abs(got))
    except Exception:
        return False


# --------------------------------------------------------------------------- replay of one program / configuration


def _hz(recs):
    flags = set()
    for r in recs:
        flags.update(r.get("hazards") or [])
    return {h: (h in flags) for h in HAZARDS}


def _base_record(case, text, recs):
    rec = {"kind": case["kind"], "id": case["id"], "hz": _hz(recs), "text": text, "outcome": None}
    if case["kind"] == "advan":
        for k in ("advan", "trans", "scale", "ratemode", "cmtmode", "alag", "bio"):
            rec[k] = case[k]
        if case.get("comps"):
            rec["model_record"] = " ".join(c["name"] + "".join("/" + o for o in ("defdose", "defobs", "nodose") if c[o]) for c in case["comps"])
    return rec


def compare_vars(case, model, env, exp, got, assigned, why, fvalue_float=None):
    """-> list of (outcome, var, expected, got, consistent_with_design), stats"""
    from .qeval import Q

    problems = []
    stats = {"compared": 0, "undef_spec": 0, "undef_impl": 0, "artefact": 0, "drift": 0}
    final, design = _obj(exp["final"]), _obj(exp["design"])
    for var, p in sorted(final.items()):
        if "(" in var:
            continue  # A(n) / DADT(n): PREDPP's amounts and $DES right-hand sides, not user variables
        if p[1] == 0:
            stats["undef_spec"] += 1
            continue
        ref = Q(_frac(p))
        dz = design.get(var)
        if var not in assigned:
            problems.append(("missing_variable", var, str(_frac(p)), "never assigned in model.statements", dz is None))
            continue
        val = got.get(var)
        if val is None:
            if why.get(var) == "no piecewise branch taken":
                # the IR statement is a Piecewise none of whose conditions holds at this probe (NaN) although the variable has
                # a value under NM-TRAN rules (it keeps the value it had): judged, like a wrong value
                consistent = None if (dz is not None and dz[1] == 0) else False
                problems.append(("no_branch", var, str(_frac(p)), "no branch of its Piecewise is taken", consistent))
                continue
            stats["undef_impl"] += 1
            continue
        stats["compared"] += 1
        if val == ref:
            if dz is not None and dz[1] != 0 and Q(_frac(dz)) != val:
                stats["drift"] += 1
            continue
        fa, fb = float(val), float(ref)
        if abs(fa - fb) <= 1e-9 * max(1.0, abs(fa), abs(fb)) or float_agrees(case, model, env, var, fvalue_float):
            stats["artefact"] += 1
            continue
        if dz is not None and dz[1] == 0:
            consistent = None  # the transcription's value overflowed / is undefined in TLC: no prediction for this variable
        else:
            consistent = dz is not None and (
                Q(_frac(dz)) == val or abs(float(_frac(dz)) - fa) <= 1e-9 * max(1.0, abs(fa)))
        problems.append(("value", var, str(_frac(p)), repr(val), consistent))
    return problems, stats


def replay_program(arg):
    """One $PRED program or one ADVAN configuration, all its probe environments."""
    case, recs, seed, datapath, input_cols = arg
    st = R.Style(random.Random(seed))
    if case["kind"] == "pred":
        text = R.render_pred_model(case, st, datapath)
    else:
        text = R.render_advan_model(case, st, datapath, input_cols)
    base = _base_record(case, text, recs)
    res = {"id": case["id"], "status": "ok", "violations": [], "stats": {}, "notes": []}
    try:
        model = _read(text)
    except Exception as e:  # noqa: BLE001
        if _refusal(e):
            res["status"] = "not_accepted"
            res["notes"].append(f"{type(e).__name__}: {str(e)[:80]}")
            res["text"] = text
            return res
        rec = dict(base, outcome=type(e).__name__, error=str(e)[:300])
        res["violations"].append((rec, f"read_model_from_string raised {type(e).__name__}: {str(e)[:160]}"))
        res["status"] = "error"
        return res
    tot = {}
    try:
        for exp, env in zip(recs, case["envs"]):
            if exp["status"] != "ok":
                tot["aborted_spec"] = tot.get("aborted_spec", 0) + 1
                continue
            nenv = _name_env(model, case.get("ntheta", 3), env)
            got, assigned, ode, why = exec_ir(model, nenv, case.get("amt"))
            fval = None
            if case["kind"] == "advan":
                adv = exp["adv"]
                for outcome, what in compare_ode(case, adv, ode, model):
                    rec = dict(base, outcome=outcome, env=env, detail=what)
                    res["violations"].append((rec, f"ADVAN{case['advan']} TRANS{case['trans']}: {what}"))
                if adv["f"][1] != 0:
                    fval = float(_frac(adv["f"]))
            problems, stats = compare_vars(case, model, env, exp, got, assigned, why, fval)
            for k, n in stats.items():
                tot[k] = tot.get(k, 0) + n
            if problems:
                flags = [p[4] for p in problems]
                if all(f is None for f in flags) and any(base["hz"].values()):
                    tot["indeterminate_design"] = tot.get("indeterminate_design", 0) + 1
                    continue
                consistent = not any(f is False for f in flags) and any(f is True for f in flags)
                o = "as_transcribed" if consistent else problems[0][0]
                first = next((p for p in problems if p[4] is False), problems[0])
                rec = dict(base, outcome=o, env=env, var=first[1], expected=first[2], got=first[3],
                           all_problems=[list(p[:4]) for p in problems])
                res["violations"].append((rec, f"{first[1]} = {first[3]} in the model that was read, NM-TRAN semantics give {first[2]}"
                                               f" ({'as the per-symbol Piecewise translation predicts' if consistent else 'not explained by the transcription'})"))
    except Exception as e:  # noqa: BLE001  harness-side failure on this case: never a violation
        res["status"] = "harness_error"
        res["notes"].append(f"{type(e).__name__}: {str(e)[:200]}")
    res["stats"] = tot
    return res


def compare_ode(case, adv, ode, model):
    """ADVAN/TRANS table: flows, dose compartment/kind, lag, bioavailability against Advan.tla."""
    from .qeval import Q

    out = []
    if ode is None:
        return [("no_ode_system", "the model that was read has no compartmental system")]
    if ode["ncomp"] != adv["ncomp"]:
        out.append(("compartments", f"{ode['ncomp']} compartments, PREDPP defines {adv['ncomp']}"))
    want = {(r[0], r[1]): r[2] for r in adv["rates"]}
    dadt = adv.get("dadt") or []
    for n, p in enumerate(dadt, start=1):      # $DES: the right-hand sides at the probe amounts
        if p[1] == 0 or n not in ode["dadt"]:
            continue
        val, why = ode["dadt"][n]
        if val is None:
            if why and why.startswith("free symbol"):
                out.append(("free_symbol", f"dA({n})/dt refers to {why[12:]} which nothing in the model defines"))
            continue
        if val != Q(_frac(p)) and abs(float(val) - float(_frac(p))) > 1e-9 * max(1.0, abs(float(val))):
            out.append(("dadt", f"dA({n})/dt = {val!r} in the model that was read, $DES gives {_frac(p)}"))
    if dadt:
        want = {}
    for key, p in sorted(want.items()):
        if p[1] == 0:
            continue  # undefined / overflow at this probe on the spec side
        if key not in ode["flows"]:
            out.append(("flow_missing", f"no flow {key[0]}->{key[1]} (NONMEM: {_frac(p)})"))
            continue
        val, why = ode["flows"][key]
        if val is None:
            if why and why.startswith("free symbol"):
                out.append(("free_symbol", f"rate {key[0]}->{key[1]} refers to {why[12:]} which nothing in the model defines (NONMEM: {_frac(p)})"))
            continue
        if val != Q(_frac(p)) and abs(float(val) - float(_frac(p))) > 1e-9 * max(1.0, abs(float(val))):
            out.append(("rate_value", f"rate {key[0]}->{key[1]} = {val!r}, NONMEM defines {_frac(p)}"))
    for key in sorted(set(ode["flows"]) - set(want)) if not dadt else []:
        out.append(("flow_extra", f"flow {key[0]}->{key[1]} does not exist in this ADVAN"))
    for n in range(1, adv["ncomp"] + 1):
        c = ode["comps"].get(n)
        if c is None:
            out.append(("compartments", f"compartment number {n} missing"))
            continue
        for fld in ("lag", "bio"):
            p = adv[fld][n - 1]
            val, why = c[fld]
            if p[1] == 0 or val is None:
                continue
            if val != Q(_frac(p)) and abs(float(val) - float(_frac(p))) > 1e-9:
                out.append((fld, f"{'ALAG' if fld == 'lag' else 'F'}{n} = {val!r}, NM-TRAN semantics give {_frac(p)}"))
        want_dose = adv["dose"] if adv["dose"]["cmt"] == n else None
        if want_dose is None and c["doses"]:
            out.append(("dose", f"dose into compartment {n}, NONMEM doses compartment {adv['dose']['cmt']}"))
        if want_dose is not None:
            if len(c["doses"]) != 1:
                out.append(("dose", f"{len(c['doses'])} doses into compartment {n}, expected 1"))
            else:
                kind, (val, why) = c["doses"][0]
                if kind != want_dose["kind"]:
                    out.append(("dose", f"dose kind {kind}, NONMEM: {want_dose['kind']}"))
                elif kind != "bolus" and val is not None and want_dose["par"][1] != 0 and val != Q(_frac(want_dose["par"])):
                    out.append(("dose", f"{kind} = {val!r}, NONMEM: {_frac(want_dose['par'])}"))
    return out


# --------------------------------------------------------------------------- parameters / random effects


def _close(x, q, tol=1e-9):
    try:
        x = float(x)
    except Exception:
        return False
    return abs(x - float(q)) <= tol * max(1.0, abs(float(q)))


def replay_params(arg):
    case, exp, seed, datapath = arg
    st = R.Style(random.Random(seed))
    text = R.render_param_model(case, st, datapath)
    shape = {
        "repeat_with_comment": any(it["n"] > 1 and it.get("comment") is not None for it in case["thetas"]),
        "form4_no_init": any(it["form"] == 4 for it in case["thetas"]),
        "same_several_times": any(r["type"] == "same" and r["times"] > 1 for r in case["omegas"] + case["sigmas"]),
    }
    base = {"kind": "params", "id": case["id"], "shape": shape, "text": text, "outcome": None}
    res = {"id": case["id"], "status": "ok", "violations": [], "stats": {}, "notes": []}

    def bad(outcome, what):
        res["violations"].append((dict(base, outcome=outcome, detail=what), what))

    try:
        model = _read(text)
    except Exception as e:  # noqa: BLE001
        if _refusal(e):
            res["status"] = "not_accepted"
            res["notes"].append(f"{type(e).__name__}: {str(e)[:80]}")
            res["text"] = "\n".join(text.split("\n")[5:-2])
            return res
        bad(type(e).__name__, f"read_model_from_string raised {type(e).__name__}: {str(e)[:160]}")
        res["status"] = "error"
        return res
    try:
        params = list(model.parameters)
        thetas = exp["thetas"] if isinstance(exp["thetas"], list) else []
        om, sg = exp["omega"], exp["sigma"]
        omp = om["params"] if isinstance(om["params"], list) else []
        sgp = sg["params"] if isinstance(sg["params"], list) else []
        if len(params) != len(thetas) + len(omp) + len(sgp):
            bad("param_count", f"{len(params)} parameters read, the records define {len(thetas)} thetas + {len(omp)} omegas + {len(sgp)} sigmas")
            return res
        n = 0
        for i, (p, t) in enumerate(zip(params, thetas), start=1):
            n += 1
            if t["init"][1] == 0:
                continue  # (low,,up): NONMEM chooses the initial estimate
            if not _close(p.init, _frac(t["init"])):
                bad("theta_init", f"THETA({i}) init {p.init}, record says {_frac(t['init'])}")
            if bool(p.fix) != bool(t["fix"]):
                bad("theta_fix", f"THETA({i}) fix={p.fix}, record says {t['fix']}")
            if not t["fix"]:
                for fld, got in (("lo", p.lower), ("up", p.upper)):
                    b = t[fld]
                    if b["inf"]:
                        ok = math.isinf(float(got)) or abs(float(got)) >= 1000000
                    else:
                        ok = _close(got, _frac(b["v"]))
                    if not ok:
                        bad("theta_bounds", f"THETA({i}) {fld} bound {got}, record says {'unbounded' if b['inf'] else _frac(b['v'])}")
        for label, plist, off in (("OMEGA", omp, len(thetas)), ("SIGMA", sgp, len(thetas) + len(omp))):
            for k, t in enumerate(plist):
                n += 1
                p = params[off + k]
                if t["init"][1] == 0:
                    continue
                if not _close(p.init, _frac(t["init"])):
                    bad("cov_init", f"{label}({t['row']},{t['col']}) init {p.init}, record means {_frac(t['init'])}")
                if bool(p.fix) != bool(t["fix"]):
                    bad("cov_fix", f"{label}({t['row']},{t['col']}) fix={p.fix}, record says {t['fix']}")
        for label, meaning, plist, off, rvs in (("ETA", om, omp, len(thetas), model.random_variables.etas),
                                                ("EPS", sg, sgp, len(thetas) + len(omp), model.random_variables.epsilons)):
            blocks = meaning["blocks"] if isinstance(meaning["blocks"], list) else []
            if len(rvs.names) != meaning["neta"]:
                bad("rv_count", f"{len(rvs.names)} {label}s read, the records define {meaning['neta']}")
                continue
            index = {params[off + k].name: k + 1 for k in range(len(plist))}
            got_blocks = []
            for dist in rvs:
                var = dist.variance
                size = len(dist.names)
                tri = []
                for i in range(size):
                    for j in range(i + 1):
                        s = var if size == 1 else var[i, j]
                        tri.append(index.get(str(s)))
                got_blocks.append({"size": size, "cov": tri})
            want_blocks = [{"size": b["size"], "cov": list(b["cov"])} for b in blocks]
            if got_blocks != want_blocks:
                bad("block_structure", f"{label} blocks {got_blocks}, the records mean {want_blocks}")
        res["stats"] = {"params_compared": n}
    except Exception as e:  # noqa: BLE001
        res["status"] = "harness_error"
        res["notes"].append(f"{type(e).__name__}: {str(e)[:200]}")
    return res


# --------------------------------------------------------------------------- data files for the ADVAN configurations


def write_datasets(d):
    """-> {(ratemode, cmtmode, central): (path, $INPUT columns)}"""
    out = {}
    rate_val = {"zero": 0, "pos": 5, "m1": -1, "m2": -2}
    for ratemode in ("none", "zero", "pos", "m1", "m2"):
        for cmtmode, central in (("none", 0), ("default", 0), ("central", 2)):
            cols = ["ID", "TIME", "AMT", "DV"]
            if ratemode != "none":
                cols.append("RATE")
            if cmtmode != "none":
                cols.append("CMT")
            rows = []
            for i in (1, 2):
                for t, amt, dv in ((0, 100, 0), (1, 0, 10.5), (2, 0, 7.25), (12, 100, 0), (13, 0, 12.5)):
                    r = [i, t, amt, dv]
                    if ratemode != "none":
                        r.append(rate_val[ratemode] if amt else 0)
                    if cmtmode != "none":
                        r.append((central if cmtmode == "central" else 1) if amt else 0)
                    rows.append(r)
            p = d / f"d_{ratemode}_{cmtmode}.csv"
            p.write_text(",".join(cols) + "\n" + "\n".join(",".join(str(x) for x in r) for r in rows) + "\n")
            out[(ratemode, cmtmode)] = (str(p), " ".join(cols))
    return out


# --------------------------------------------------------------------------- main


def _collect(results, v: core.Verdict, counters, notes_key):
    for r in results:
        counters[r["status"]] = counters.get(r["status"], 0) + 1
        if r["status"] == "not_accepted":
            why = counters.setdefault("refusals", {})
            k = (r["notes"] or ["?"])[0].split(":")[0]
            why[k] = why.get(k, 0) + 1
            if k not in counters.setdefault("refusal_samples", {}):
                counters["refusal_samples"][k] = {"message": (r["notes"] or ["?"])[0], "text": r.get("text", "")}
        for k, n in r["stats"].items():
            counters[k] = counters.get(k, 0) + n
        for rec, what in r["violations"]:
            v.violation(rec, what)
        if r["status"] in ("harness_error",) and len(v.notes) < 40:
            v.notes.append(f"{notes_key} case {r['id']}: harness could not evaluate: {r['notes'][:1]}")


def main(tier: str, seed: int) -> int:
    cfg = TIERS[tier]
    v = core.Verdict("C01", tier, seed)
    v.assumptions = [
        "NONMEM's ADVAN/TRANS definitions, Fortran operator precedence and $THETA/$OMEGA rules are transcribed by hand from the guides into spec/nmtran (trusted base)",
        "function model EXP:=2^x, LOG(2^k):=k, SQRT(q^2):=q on both sides; points outside it (and 32-bit overflow in TLC) are skipped",
        "event processing of PREDPP (data records, steady state) is not modelled: equality of the ODE system, F, Y and of the algebraic statements is what is decided",
        "initial values of never-assigned variables are left unspecified (NM-TRAN's choice is not part of the property)",
    ]
    rng = random.Random(seed)
    t0 = time.time()
    pred = G.pred_cases(rng, cfg["n_pred"], 1)
    adv = G.advan_cases(rng, len(pred) + 1, cfg["n_advan"])
    adv += G.general_cases(rng, len(pred) + len(adv) + 1, cfg["n_general"])   # $MODEL + Kij names / $DES
    par = G.param_cases(rng, cfg["n_param"], 1)
    progs = pred + adv
    nsys = len(G.systematic_programs())
    first_of_pair = {}
    for c in adv:
        first_of_pair.setdefault((c["advan"], c["trans"]), c)
    covrun = CoverageRun(pred[nsys:nsys + 12] + list(first_of_pair.values())[:8]) if tier == "thorough" else None
    try:
        return _main(cfg, tier, seed, v, rng, t0, pred, adv, par, progs, covrun)
    finally:
        if covrun is not None:
            covrun.t.join()  # never leave the background TLC run (and its scratch directory) behind


def _main(cfg, tier, seed, v, rng, t0, pred, adv, par, progs, covrun) -> int:
    expect = run_interpreter(progs, v, cfg["chunk"])
    pexpect = run_param_meaning(par, v)
    t_tlc = time.time() - t0

    # design-level report: where the per-symbol Piecewise translation differs from the interpreter (TLC's finding)
    design_diff = {}
    n_diff_cases = 0
    for c in progs:
        recs = [expect[(c["id"], i + 1)] for i in range(len(c["envs"]))]
        if any(r["diffvars"] for r in recs):
            n_diff_cases += 1
            for h in sorted({h for r in recs for h in (r.get("hazards") or [])}) or ["(no named shape)"]:
                design_diff[h] = design_diff.get(h, 0) + 1
    if design_diff.get("(no named shape)"):
        v.notes.append(f"design layer: {design_diff['(no named shape)']} programs on which the transcription differs from the interpreter have no named shape")

    _import_pharmpy()

    d = core.scratch("c01data")
    try:
        data = write_datasets(d)
        work = []
        for c in progs:
            recs = [expect[(c["id"], i + 1)] for i in range(len(c["envs"]))]
            if c["kind"] == "pred":
                work.append((c, recs, seed * 1000003 + c["id"], "pheno.dta", None))
            else:
                path, cols = data[(c["ratemode"], c["cmtmode"])]
                work.append((c, recs, seed * 1000003 + c["id"], path, cols))
        t1 = time.time()
        results = core.pmap(replay_program, work, procs=16, chunk=16)
        presults = core.pmap(replay_params, [(c, pexpect[c["id"]], seed * 7919 + c["id"], "pheno.dta") for c in par], procs=16, chunk=16)
        t_replay = time.time() - t1
    finally:
        shutil.rmtree(d, ignore_errors=True)

    if covrun is not None:
        covrun.finish(v)
    counters, pcounters = {}, {}
    _collect(results, v, counters, "program")
    _collect(presults, v, pcounters, "parameter")
    accepted = counters.get("ok", 0) + counters.get("error", 0)
    paccepted = pcounters.get("ok", 0) + pcounters.get("error", 0)
    if accepted < 0.7 * len(progs) or paccepted < 0.7 * len(par):
        raise core.MachineryError(f"too few generated control streams were accepted by the reader: programs {accepted}/{len(progs)}, "
                                  f"parameter sets {paccepted}/{len(par)}")
    if counters.get("harness_error", 0) > 0.02 * len(progs):
        raise core.MachineryError(f"{counters['harness_error']} cases could not be evaluated by the harness")
    nontrivial = sum(1 for c in pred if len(c["prog"]) >= 3) + len(adv)
    samples = []
    for c in (pred[len(G.systematic_programs())], adv[0]):
        e = expect[(c["id"], 1)]
        samples.append({"program": R.render_code(c["prog"], R.Style(None)), "env": c["envs"][0], "final": _obj(e["final"]),
                        "rates": (e["adv"] or {}).get("rates") if isinstance(e["adv"], dict) else None})
    samples.append({"records": R.render_param_model(par[0], R.Style(None)).split("\n")[5:-2], "meaning": pexpect[par[0]["id"]]["thetas"]})
    v.add_coverage(
        programs=len(pred), advan_configurations=len(adv), advan_trans_pairs=len({(c["advan"], c["trans"]) for c in adv}),
        parameter_record_sets=len(par), probe_evaluations=len(expect),
        evaluations=len(expect) + len(par), distinct_nontrivial=nontrivial,
        traces_validated_against_impl=accepted + paccepted,
        program_outcomes=counters, parameter_outcomes=pcounters,
        design_layer_differences={"programs": n_diff_cases, "by_shape": design_diff},
        tlc_wall_s=round(t_tlc, 1), replay_wall_s=round(t_replay, 1),
        rule="cases = seeded bounded grammar (<=5 statements, <=3 variables, nesting <=2, expression depth <=2) + fixed systematic programs; "
             "non-trivial = program of >= 3 statements or an ADVAN configuration; every (program, probe) pair TLC emitted is replayed",
        samples=samples, exhaustive=False,
    )
    return v.finish(min_traces=int(0.7 * (len(progs) + 0.5 * len(par))))


def replay(path: str) -> int:
    _import_pharmpy()
    data = json.loads(open(path).read())
    case = data["case"]
    print(data["what"])
    print(case.get("text", ""))
    from pharmpy.modeling import read_model_from_string

    try:
        m = read_model_from_string(case["text"])
        for s in m.statements:
            print("   ", s.symbol if hasattr(s, "symbol") else "ODE", "=", getattr(s, "expression", s))
        print(m.parameters)
    except Exception as e:  # noqa: BLE001
        print(f"read_model_from_string raised {type(e).__name__}: {e}")
    print(json.dumps({k: case[k] for k in case if k not in ("text",)}, indent=1)[:3000])
    return 0


def selftest(seed: int) -> int:
    """Binding demonstration: corrupt the value TLC computed for Y (and for one rate constant) in every record and show
    that the comparison flags every accepted case; with the uncorrupted records none of them raises an unlisted violation."""
    import copy

    rng = random.Random(seed)
    pred = G.pred_cases(rng, 30, 1)
    adv = G.advan_cases(rng, len(pred) + 1, 70)
    v = core.Verdict("C01", "selftest", seed)
    expect = run_interpreter(pred + adv, v, 4000)
    _import_pharmpy()
    d = core.scratch("c01self")
    flagged = total = clean_bad = 0
    try:
        data = write_datasets(d)
        for c in pred + adv:
            recs = [expect[(c["id"], i + 1)] for i in range(len(c["envs"]))]
            path, cols = ("pheno.dta", None) if c["kind"] == "pred" else data[(c["ratemode"], c["cmtmode"])]
            clean = replay_program((c, recs, seed + c["id"], path, cols))
            if clean["status"] != "ok":
                continue
            clean_bad += sum(1 for rec, _ in clean["violations"] if core.match_known("C01", rec, v.known) is None)
            bad = copy.deepcopy(recs)
            touched = False
            for r in bad:
                y = _obj(r["final"]).get("Y")
                if r["status"] == "ok" and y and y[1] != 0:
                    r["final"]["Y"] = [y[0] + y[1], y[1]]
                    r["design"] = {}
                    touched = True
                if isinstance(r["adv"], dict) and r["adv"]["rates"] and r["adv"]["rates"][0][2][1] != 0:
                    n, dd = r["adv"]["rates"][0][2]
                    r["adv"]["rates"][0][2] = [n + dd, dd]
            if not touched or (c["kind"] == "pred" and _uses_functions(c["prog"])):
                continue  # (with EXP/LOG/SQRT in the program a wrong reference value could pass as a function-model artefact)
            total += 1
            res = replay_program((c, bad, seed + c["id"], path, cols))
            outs = {rec["outcome"] for rec, _ in res["violations"]}
            y_seen = any("Y" in [p[1] for p in rec.get("all_problems", [])] for rec, _ in res["violations"])
            if (y_seen and c["kind"] == "pred") or "rate_value" in outs or "free_symbol" in outs:
                flagged += 1
            else:
                print("  not flagged:", c["id"], c["kind"], sorted(outs), [rec.get("all_problems") for rec, _ in res["violations"]][:2])
    finally:
        shutil.rmtree(d, ignore_errors=True)
    print(f"selftest C01: corrupted expectations flagged {flagged}/{total}; unlisted violations with the true expectations: {clean_bad}")
    return 0 if total >= 40 and flagged == total and clean_bad == 0 else 1
