"""C02 - Generated NONMEM code means what the transformed model means (IR -> NM-TRAN).

code -> spec.  spec/nmtran/CodeGen.tla is the history machine of the public transformations over the abstract
structural state (with the ADVAN/TRANS decision table and the theorem that the chosen library can express the
state); TLC explores it and emits the transition table.  The driver derives histories from the table (every sampled
transition once, reached through a breadth-first tree, plus random walks), replays them on real models and after
the last step
  * takes model.code, parses it with the independent front end harness/nmtran_front.py,
  * hands the parsed program ($PK, $DES, $ERROR, ADVAN/TRANS, $MODEL, probe environment, probe amounts) to TLC:
    spec/nmtran/NMTran.tla interprets it (rate constants by Advan.tla / Kij names / DADT right-hand sides, F, lag,
    bioavailability, dose attributes, every variable),
  * evaluates the in-memory model.statements exactly at the same probe (harness/qeval.py) - compartments matched through
    the numbering the code declares (internals.compartment_map), parameters / etas through names,
  * compares; parameters as a name-keyed map; CMT / RATE data columns enter through the dose compartment and dose
    kind TLC derives from them; for a sample write_model -> read_model and the same comparison M ~ read(write(M)).
Constructs the front end does not parse are `skipped` (counted, never judged).
"""
from __future__ import annotations

import json
import math
import random
import shutil
import tempfile
import time
from collections import deque
from fractions import Fraction
from pathlib import Path

from . import core
from . import nmtran_front as FE
from . import nmtran_gen as G
from . import nmtran_render as R

SPEC = core.SPEC / "nmtran"
JAVA = {"JAVA_TOOL_OPTIONS": "-Xss32m"}

START_MODELS = {
    "pheno_real": "tests/testdata/nonmem/pheno_real.mod",
    "mox2": "tests/testdata/nonmem/models/mox2.mod",
    "pheno_advan3": "tests/testdata/nonmem/modeling/pheno_advan3.mod",
    "pheno_advan4": "tests/testdata/nonmem/modeling/pheno_advan4.mod",
}
# a start model written for this check: TVCL and TVV get their covariate effects inside ONE IF / ELSE block (one AST node,
# several statements), so that a transformation can edit a single variable of a multi-assignment block
PHENO_BLOCK = """$PROBLEM block if
$INPUT ID TIME AMT WGT APGR DV FA1 FA2
$DATA {data} IGNORE=@
$SUBROUTINE ADVAN1 TRANS2
$PK
TVCL = THETA(1)
TVV = THETA(2)
IF (APGR.LT.5) THEN
  TVCL = THETA(1)*WGT*(1 + THETA(3))
  TVV = THETA(2)*WGT
ELSE
  TVCL = THETA(1)*WGT
  TVV = THETA(2)*WGT*(1 + THETA(4))
END IF
CL = TVCL*EXP(ETA(1))
V = TVV*EXP(ETA(2))
S1 = V
$ERROR
IPRED = F
Y = F + F*EPS(1)
$THETA (0,0.00469307) ; POP_CL
$THETA (0,1.00916) ; POP_V
$THETA (-.99,.1) ; COV_CL
$THETA (-.99,.2) ; COV_V
$OMEGA 0.0309626  ; IVCL
$OMEGA 0.031128  ; IVV
$SIGMA 0.013241
$ESTIMATION METHOD=1 INTERACTION
"""
# a two-compartment oral model whose dataset has an ACTIVE CMT column: doses into compartment 1 (depot), observations
# taken from compartment 2 (central); transformations that renumber the compartments must rewrite the column consistently
ORAL2_CMT = """$PROBLEM two-compartment oral, CMT column in use
$INPUT ID TIME AMT CMT DV
$DATA file.csv IGNORE=@
$SUBROUTINES ADVAN4 TRANS4
$PK
CL = THETA(1) * EXP(ETA(1))
V2 = THETA(2) * EXP(ETA(2))
Q = THETA(3)
V3 = THETA(4)
KA = THETA(5)
S2 = V2
$ERROR
IPRED = F
Y = F + F * EPS(1)
$ESTIMATION METHOD=1 INTER
$THETA (0, 10.0) ; POP_CL
$THETA (0, 100) ; POP_VC
$THETA (0, 3.0) ; POP_Q
$THETA (0, 50) ; POP_VP
$THETA (0, 1.0) ; POP_KA
$OMEGA 0.1; IIV_CL
$OMEGA 0.1; IIV_VC
$SIGMA 0.1; RUV_PROP
"""
# start models that are only checked as they are (read -> code -> TLC), not walked: a $DES model, general linear ones
EXTRA_MODELS = {
    "pheno_des": "tests/testdata/nonmem/models/pheno_des_assignments.mod",
    "pheno_advan5_depot": "tests/testdata/nonmem/modeling/pheno_advan5_depot.mod",
    "pheno_advan5_nodepot": "tests/testdata/nonmem/modeling/pheno_advan5_nodepot.mod",
    "pheno_advan11": "tests/testdata/nonmem/modeling/pheno_advan11.mod",
    "pheno_advan12": "tests/testdata/nonmem/modeling/pheno_advan12.mod",
    "pheno_2transits": "tests/testdata/nonmem/modeling/pheno_2transits.mod",
}
# per start model: covariate, parameter for the covariate effect, parameter for the extra IIV
EDIT_TARGETS = {"pheno_real": ("FA2", "V", "S1"), "pheno_block": ("FA2", "V", "S1"), "oral2_cmt": ("TIME", "V3", "KA"), "mox2": ("WT", "VC", "KA"),
                "pheno_advan3": ("WGT", "V", "S1"), "pheno_advan4": ("WGT", "V", "S1")}

TIERS = {
    "quick": dict(edges=160, walks=30, walk_len=5, rw_every=6, roundtrip=120, row_depth=1, cap=95),
    "thorough": dict(edges=3000, walks=800, walk_len=6, rw_every=4, roundtrip=1500, row_depth=4),
}
_MODELS: dict = {}


# --------------------------------------------------------------------------- pharmpy side: setters


def _load():
    core.use_repo()
    from . import c01_read

    c01_read._import_pharmpy()
    import pharmpy.modeling as pm

    for name, rel in {**START_MODELS, **EXTRA_MODELS}.items():
        if name not in _MODELS:
            path = core.REPO / rel
            if path.exists():
                try:
                    _MODELS[name] = pm.read_model(path)
                except Exception:  # noqa: BLE001  (a start model that does not load is simply not used)
                    pass
    if "pheno_block" not in _MODELS:
        _MODELS["pheno_block"] = pm.read_model_from_string(PHENO_BLOCK.format(data=core.REPO / "tests/testdata/nonmem/pheno.dta"))
    if "oral2_cmt" not in _MODELS:
        import pandas as pd
        from pharmpy.model.external.nonmem import parse_model

        df = pd.DataFrame({"ID": [1, 1, 1, 2, 2, 2], "TIME": [0, 1, 2, 0, 1, 2], "AMT": [100, 0, 0, 100, 0, 0],
                           "CMT": [1, 2, 2, 1, 2, 2], "DV": [0, 1.0, 2.0, 0, 1.5, 2.5]})
        _MODELS["oral2_cmt"] = parse_model(ORAL2_CMT, dataset=df)
    missing = [n for n in START_MODELS if n not in _MODELS]
    if missing:
        raise core.MachineryError(f"start models not loadable: {missing}")


def _setter(tok, start):
    import pharmpy.modeling as pm
    from functools import partial

    cov, par, iivpar = EDIT_TARGETS.get(start, ("WGT", "CL", "TVV"))
    table = {
        "A:INST": pm.set_instantaneous_absorption, "A:FO": pm.set_first_order_absorption,
        "A:ZO": pm.set_zero_order_absorption, "A:SEQ": pm.set_seq_zo_fo_absorption,
        "E:FO": pm.set_first_order_elimination, "E:ZO": pm.set_zero_order_elimination,
        "E:MM": pm.set_michaelis_menten_elimination, "E:MIX": pm.set_mixed_mm_fo_elimination,
        "P:0": partial(pm.set_peripheral_compartments, n=0), "P:1": partial(pm.set_peripheral_compartments, n=1),
        "P:2": partial(pm.set_peripheral_compartments, n=2),
        "P+": pm.add_peripheral_compartment, "P-": pm.remove_peripheral_compartment,
        "T:0": partial(pm.set_transit_compartments, n=0), "T:1": partial(pm.set_transit_compartments, n=1),
        "T:3": partial(pm.set_transit_compartments, n=3),
        "T:2N": partial(pm.set_transit_compartments, n=2, keep_depot=False),
        "L:1": pm.add_lag_time, "L:0": pm.remove_lag_time,
        "B:1": pm.add_bioavailability, "B:0": pm.remove_bioavailability,
        "M:BASIC": pm.add_metabolite,
        "ZI": partial(pm.set_zero_order_input, compartment="CENTRAL", expression=10),
        "COV": partial(pm.add_covariate_effect, parameter=par, covariate=cov, effect="exp"),
        "IIV": partial(pm.add_iiv, list_of_parameters=[iivpar], expression="exp"),
        "CAT": partial(pm.add_covariate_effect, parameter="CL", covariate="FA1", effect="cat2"),
        "RCOV": partial(pm.remove_covariate_effect, parameter=par, covariate=cov),
        "IOV": partial(pm.add_iov, occ="FA1", list_of_parameters=["CL"]),
        "RIOV": pm.remove_iov,
        "CE": pm.set_combined_error_model,
        "RUV1": partial(pm.set_iiv_on_ruv, same_eta=True),
        "RUV2": partial(pm.set_iiv_on_ruv, same_eta=False),
        "RRV": lambda m: pm.remove_iiv(m, [sorted(n for n in m.random_variables.etas.names if n.startswith("ETA_RV"))[-1]]),
        "RCL": partial(pm.remove_covariate_effect, parameter="CL", covariate="WGT"),
        "RV": partial(pm.remove_covariate_effect, parameter="V", covariate="WGT"),
        "FIX": lambda m: pm.fix_parameters(m, [next(p.name for p in m.parameters if p.name not in m.random_variables.parameter_names)]),
    }
    return table[tok]


def apply(model, tok, start):
    """-> (model2 | None, "applied" | "refused" | "error", info)"""
    try:
        return _setter(tok, start)(model), "applied", {}
    except Exception as e:  # noqa: BLE001
        import traceback

        tb = traceback.extract_tb(e.__traceback__)
        inner = tb[-1]
        by_validation = (isinstance(e, (ValueError, NotImplementedError)) or type(e).__name__ == "ModelError") \
            and "/pharmpy/modeling/" in inner.filename and (inner.line or "").lstrip().startswith("raise")
        return None, ("refused" if by_validation else "error"), {"exc": type(e).__name__, "msg": str(e)[:160],
                                                                 "where": inner.filename.split("/pharmpy/")[-1] + ":" + inner.name}


def private_copy(start):
    m = _MODELS[start]
    return m if m.dataset is None else m.replace(dataset=m.dataset.copy())


# --------------------------------------------------------------------------- probe environments

THETA_POOL = [(3, 2), (2, 1), (5, 3), (7, 2), (5, 1), (1, 2), (7, 4), (3, 1), (11, 2), (4, 3), (13, 3), (9, 2), (7, 1), (11, 4),
              (13, 2), (1, 3), (9, 4), (11, 3), (13, 4), (5, 4)]
AMOUNT_POOL = [(3, 1), (5, 1), (7, 1), (11, 1), (13, 2), (17, 3), (19, 2), (23, 3), (29, 4)]
DATA_POOL = [(9, 4), (4, 1), (5, 2), (7, 1), (3, 1), (25, 4), (10, 1), (1, 2)]


def _vars_of(x, acc):
    if isinstance(x, list):
        for y in x:
            _vars_of(y, acc)
    elif isinstance(x, dict):
        if x.get("k") == "var":
            acc.add(x["v"])
        for y in x.values():
            _vars_of(y, acc)


def _assigned_of(stmts, acc):
    for s in stmts:
        if s["k"] in ("asg", "lif"):
            acc.add(s["v"])
        else:
            for arm in s["arms"]:
                _assigned_of(arm["body"], acc)
            _assigned_of(s["els"], acc)


def probe_envs(cs, seed, k=2):
    """values for everything the code reads and does not assign: THETA(i), ETA(i), EPS(i), data items, T"""
    used, assigned = set(), set()
    for key in ("pk", "pred", "des", "error"):
        if cs.get(key):
            _vars_of(cs[key], used)
            _assigned_of(cs[key], assigned)
    cols = {c["name"] for c in cs["input"] if c["name"] and not c["drop"]}
    cols |= {c.get("synonym") for c in cs["input"] if c.get("synonym")}
    # every THETA / ETA / EPS the records define gets a value, read by the code or not (the model may use one that the
    # code has lost)
    used |= {f"THETA({i})" for i in range(1, len(cs["thetas"]) + 1)}
    used |= {f"ETA({i})" for i in range(1, sum(_rec_size(r, cs["omegas"], k) for k, r in enumerate(cs["omegas"])) + 1)}
    used |= {f"EPS({i})" for i in range(1, sum(_rec_size(r, cs["sigmas"], k) for k, r in enumerate(cs["sigmas"])) + 1)}
    names = sorted(n for n in used if n not in assigned and not n.startswith(("A(", "DADT(", "A_0(")) and n != "F")
    unknown = [n for n in names if "(" not in n and n not in cols and n not in ("T", "TIME", "DVID", "NEWIND", "ICALL")]
    rng = random.Random(seed)
    # both sides of the conditions: an input compared with a literal is probed below the literal first, above it second
    splits, equals = {}, {}

    def conds(x):
        if isinstance(x, list):
            for y in x:
                conds(y)
        elif isinstance(x, dict):
            if x.get("k") == "rel":
                a, b = x["a"], x["b"]
                if b.get("k") == "var" and a.get("k") == "num":
                    a, b = b, a
                if a.get("k") == "var" and b.get("k") == "num" and a["v"] in names and "(" not in a["v"]:
                    lit = Fraction(b["n"], b["d"])
                    if x["op"] in ("EQ", "NE"):
                        if lit not in equals.setdefault(a["v"], []):
                            equals[a["v"]].append(lit)      # X.EQ.0, X.EQ.1: the literals themselves are the probes
                    else:
                        splits.setdefault(a["v"], lit)
            for y in x.values():
                conds(y)

    for key in ("pk", "pred", "des", "error"):
        if cs.get(key):
            conds(cs[key])
    envs = []
    for _ in range(k):
        th = rng.sample(THETA_POOL, len(THETA_POOL))
        env = {}
        for n in names:
            if n.startswith("THETA("):
                env[n] = list(th[(int(n[6:-1]) - 1) % len(th)])
            elif n.startswith("ETA("):
                env[n] = [rng.choice([-1, 1, 2]), 1]     # non-zero: eta x eps interaction terms must show
            elif n.startswith("EPS("):
                env[n] = list(rng.choice([(3, 1), (-1, 1), (1, 2), (2, 1)]))
            elif n == "DVID":
                env[n] = [1, 1]
            elif n in ("NEWIND", "ICALL"):
                env[n] = [2, 1]
            elif n == "AMT":
                env[n] = list(rng.choice([(25, 1), (7, 2), (100, 1)]))   # a dose record (pheno's BTIME is only set there)
            elif "(" in n:
                raise FE.Unsupported(f"reads {n}")
            else:
                env[n] = list(rng.choice(DATA_POOL))
        for name, lits in equals.items():
            if name in env and name not in ("AMT", "DVID"):
                val = lits[len(envs) % len(lits)] if len(lits) > 1 or len(envs) % 2 == 0 else lits[0] + 1
                env[name] = [val.numerator, val.denominator]
        for name, c in splits.items():
            if name in env and name not in ("AMT", "DVID"):
                val = (c - Fraction(3, 2)) if len(envs) % 2 == 0 else (c + Fraction(3, 2))
                env[name] = [val.numerator, val.denominator]
        if "T" in env and "TIME" in env:
            env["T"] = env["TIME"]
        envs.append(env)
    return envs, unknown


def dataset_modes(model):
    """what the data say about doses: (ratemode, dose CMT or 0, notes)"""
    df, di = model.dataset, model.datainfo
    notes = []
    if df is None:
        return "none", 0, 0, ["no dataset"]
    try:
        amt = di.typeix["dose"][0].name
    except Exception:  # noqa: BLE001
        amt = "AMT"
    if amt not in df.columns:
        return "none", 0, 0, ["no dose column"]
    doses = df[df[amt] != 0]
    ratemode = "none"
    if "RATE" in df.columns and "RATE" in di.names and not di["RATE"].drop:
        r = set(float(x) for x in doses["RATE"].unique())
        if r <= {0.0}:
            ratemode = "zero"
        elif r <= {-2.0}:
            ratemode = "m2"
        elif r <= {-1.0}:
            ratemode = "m1"
        elif all(x > 0 for x in r):
            ratemode = "pos"
        else:
            ratemode = "mixed"
            notes.append(f"RATE values {sorted(r)}")
    dcmt = 0
    if "CMT" in df.columns and "CMT" in di.names and not di["CMT"].drop:
        c = sorted(set(int(float(x)) for x in doses["CMT"].unique()))
        if len(c) == 1:
            dcmt = c[0]
        elif len(c) > 1:
            dcmt = -1
            notes.append(f"doses into compartments {c}")
    ocmt = 0
    if dcmt != 0:
        obs = df[df[amt] == 0]
        c = sorted(set(int(float(x)) for x in obs["CMT"].unique()))
        if len(c) == 1:
            ocmt = c[0]
        elif len(c) > 1:
            ocmt = -1
            notes.append(f"observations from compartments {c}")
    return ratemode, dcmt, ocmt, notes


class UndefinedVariable(Exception):
    """the generated code reads a name that is neither assigned in it, nor a data item of $INPUT, nor reserved"""


def build_case(cid, cs, model, seed):
    """front-end result -> NMTran.tla case (raises Unsupported when outside the interpreted subset)"""
    envs, unknown = probe_envs(cs, seed)
    if unknown:
        raise UndefinedVariable(", ".join(unknown[:4]))
    if cs["pred"] is not None and cs["pk"] is None:
        return {"id": cid, "kind": "pred", "prog": cs["pred"], "envs": envs}
    if cs["pk"] is None or cs["advan"] is None:
        raise FE.Unsupported("neither $PRED nor $SUBROUTINES/$PK")
    advan = cs["advan"]
    if advan not in (1, 2, 3, 4, 5, 6, 7, 8, 9, 10, 11, 12, 13):
        raise FE.Unsupported(f"ADVAN{advan}")
    special = advan in (1, 2, 3, 4, 10, 11, 12)
    ncomp = G.NCOMP[advan] if special else len(cs["model"])
    if not special and ncomp == 0:
        raise FE.ParseError("general ADVAN without $MODEL compartments")
    if advan in (6, 8, 9, 13) and cs["des"] is None:
        raise FE.ParseError("differential-equation ADVAN without $DES")
    ratemode, dcmt, ocmt, notes = dataset_modes(model)
    if ratemode == "mixed" or dcmt == -1 or ocmt == -1:
        raise FE.Unsupported("dose records of several kinds / compartments")
    rng = random.Random(seed + 17)
    amt = [list(a) for a in rng.sample(AMOUNT_POOL, ncomp)]
    for env in envs:
        env.setdefault("T", env.get("TIME", [5, 2]))
        env.setdefault("RATE", [5, 1])
    case = {"id": cid, "kind": "advan", "advan": advan, "trans": cs["trans"] or 1, "prog": cs["pk"],
            "err": cs["error"] or [], "des": cs["des"] or [], "comps": cs["model"], "amt": amt,
            "obscmt": ocmt, "dosecmt": dcmt, "ratemode": ratemode, "envs": envs}
    return case


# --------------------------------------------------------------------------- pharmpy side: exact evaluation of the model


def _ser(q):
    """Q -> [n, d] | None"""
    if q is None:
        return None
    try:
        r = q.rat
    except Exception:  # noqa: BLE001
        return None
    return [r.numerator, r.denominator]


def bind_names(cs, model):
    """NM-TRAN names of the code -> names of the in-memory model, through the names the code carries
    ($THETA / $OMEGA comments) and, where there is none, through position among the parameters of that kind."""
    rvs = model.random_variables
    rv_params = set(rvs.parameter_names)
    thetas = [p.name for p in model.parameters if p.name not in rv_params]
    out, notes = {}, []
    known = set(thetas)
    unnamed = [t for t in thetas if t not in {x["name"] for x in cs["thetas"] if x["name"] in known}]
    for i, t in enumerate(cs["thetas"], start=1):
        if t["name"] in known:
            out[f"THETA({i})"] = t["name"]
        elif unnamed:
            out[f"THETA({i})"] = unnamed.pop(0)
    if len(cs["thetas"]) != len(thetas):
        notes.append(f"{len(cs['thetas'])} $THETA values for {len(thetas)} model thetas")

    def bind_rvs(records, dists, label):
        i = 0
        names = [n for d in dists for n in d.names]
        if sum(_rec_size(r, records, k) for k, r in enumerate(records)) != len(names):
            notes.append(f"{label}: code defines {sum(_rec_size(r, records, k) for k, r in enumerate(records))}, model has {len(names)}")
        for n in names:
            i += 1
            out[f"{label}({i})"] = n

    bind_rvs(cs["omegas"], rvs.etas, "ETA")
    bind_rvs(cs["sigmas"], rvs.epsilons, "EPS")
    return out, notes


def _rec_size(rec, records, k):
    if rec["type"] == "diag":
        return len(rec["values"])
    if rec["type"] == "block":
        return rec["size"]
    j = k - 1
    while j >= 0 and records[j]["type"] == "same":
        j -= 1
    return (records[j]["size"] if j >= 0 and records[j]["type"] == "block" else 1) * rec["times"]


def eval_model(model, env, amounts, cmap=None):
    """sequential exact execution of model.statements at the probe.  env: IR symbol name -> Q.
    -> {"vars": {name: [n,d]|None}, "ode": {...}|None}"""
    from pharmpy.model import Assignment, CompartmentalSystem, output
    from .qeval import Evaluator, Q, Undef, _sp

    class Ev(Evaluator):
        def ev(self, e):
            e = _sp(e)
            if e.is_Float:
                f = Fraction(repr(float(e)))
                g = f.limit_denominator(100000)
                if f == g or (g != 0 and abs(f - g) <= abs(g) * Fraction(1, 10**12)):
                    return Q(g)
                return Q(f)
            return super().ev(e)

    E = Ev(dict(env), None)

    def ev(x):
        try:
            return E.ev(x), None
        except Undef as u:
            return None, str(u)
        except (ZeroDivisionError, OverflowError, ValueError, TypeError) as u:
            return None, type(u).__name__

    vals, why, ode = {}, {}, None
    for s in model.statements:
        if isinstance(s, Assignment):
            name = str(_sp(s.symbol))
            x, w = ev(s.expression)
            if w:
                why[name] = w
            E.env[name] = x
            vals[name] = _ser(x)
        elif isinstance(s, CompartmentalSystem):
            cm = dict(cmap if cmap is not None else (model.internals.compartment_map or {}))
            if not cm:
                cm = {n: i for i, n in enumerate(s.compartment_names, start=1)}
            num = {n: (0 if n == "OUTPUT" else i) for n, i in cm.items()}
            comps = [s.find_compartment(n) for n in s.compartment_names]
            for c in comps:
                k = num.get(c.name)
                if k and k <= len(amounts):
                    E.env[str(_sp(c.amount))] = Q(Fraction(*amounts[k - 1]))
            flows, free = {}, []
            for a in comps:
                for b in comps:
                    if a is not b and _sp(s.get_flow(a, b)) != 0:
                        x, w = ev(s.get_flow(a, b))
                        flows[f"{num.get(a.name)}>{num.get(b.name)}"] = _ser(x)
                        if w and w.startswith("free symbol"):
                            free.append(w[12:])
                if _sp(s.get_flow(a, output)) != 0:
                    x, w = ev(s.get_flow(a, output))
                    flows[f"{num.get(a.name)}>0"] = _ser(x)
                    if w and w.startswith("free symbol"):
                        free.append(w[12:])
            dadt = {}
            for eq in s.eqs:
                q = _sp(eq)
                fname = str(q.lhs.args[0].func)
                k = num.get(fname[2:])
                x, w = ev(q.rhs)
                dadt[str(k)] = _ser(x)
            per = {}
            for c in comps:
                doses = []
                for dz in c.doses:
                    kind, par = "bolus", [0, 1]
                    if type(dz).__name__ == "Infusion":
                        if dz.rate is not None:
                            kind, par = "rate", _ser(ev(dz.rate)[0])
                        else:
                            kind, par = "duration", _ser(ev(dz.duration)[0])
                    doses.append([kind, par])
                per[str(num.get(c.name))] = {"lag": _ser(ev(c.lag_time)[0]), "bio": _ser(ev(c.bioavailability)[0]), "doses": doses}
            import sympy

            nonlinear = any(sympy.Symbol("t") in _sp(s.get_flow(a, b)).free_symbols or _sp(s.get_flow(a, b)).has(sympy.core.function.AppliedUndef)
                            for a in comps for b in list(comps) + [output] if a is not b)
            ode = {"ncomp": len(comps), "names": {c.name: num.get(c.name) for c in comps}, "flows": flows, "dadt": dadt,
                   "comps": per, "free": sorted(set(free)), "nonlinear": bool(nonlinear),
                   "zero_order_inputs": any(_sp(z) != 0 for z in s.zero_order_inputs)}
    return {"vars": vals, "ode": ode, "why": why}


def model_env(model, binding, env):
    """probe keyed by NM-TRAN names -> keyed by the model's symbol names"""
    from .qeval import Q

    out = {}
    for k, val in env.items():
        q = Q(Fraction(val[0], val[1]))
        if k in binding:
            out[binding[k]] = q
        elif "(" not in k:
            out[k] = q
    if "T" in out:
        out["t"] = out["T"]
    return out


def compare_parameters(cs, model, binding):
    """$THETA of the code against model.parameters through the name binding: [(outcome, detail)]"""
    out = []
    params = {p.name: p for p in model.parameters}
    for i, t in enumerate(cs["thetas"], start=1):
        name = binding.get(f"THETA({i})")
        if name is None or name not in params:
            out.append(("param_unbound", f"THETA({i}) of the code has no counterpart in the model"))
            continue
        p = params[name]
        if abs(float(t["init"]) - float(p.init)) > 1e-9 * max(1.0, abs(float(p.init))):
            out.append(("param_init", f"THETA({i}) = {float(t['init'])} in the code, {name} = {p.init} in the model"))
        if bool(t["fix"]) != bool(p.fix):
            out.append(("param_fix", f"THETA({i}) FIX={t['fix']} in the code, {name} fix={p.fix} in the model"))
        if not p.fix:
            for fld, got, want in (("lower", t["lo"], p.lower), ("upper", t["up"], p.upper)):
                winf = math.isinf(float(want)) or abs(float(want)) >= 1000000
                if (got is None) != winf or (got is not None and abs(float(got) - float(want)) > 1e-9 * max(1.0, abs(float(want)))):
                    out.append(("param_bounds", f"THETA({i}) {fld} bound {got} in the code, {name} {fld} = {want} in the model"))
    return out


def omega_case(cid, cs):
    """$OMEGA / $SIGMA records of the code as a ParamMeaning.tla case (None when a number does not fit 32 bits)"""
    def conv(recs):
        res = []
        for r in recs:
            if r["type"] == "same":
                res.append({"type": "same", "times": r["times"]})
                continue
            vals = [{"n": v.numerator, "d": v.denominator} for v in r["values"]]
            if any(abs(v["n"]) > 2 * 10**8 or v["d"] > 2 * 10**8 for v in vals):
                return None
            if r["type"] == "diag":
                res.append({"type": "diag", "items": [{"n": v["n"], "d": v["d"], "sd": False, "fix": bool(f), "rep": 1}
                                                      for v, f in zip(vals, r["fixes"])]})
            else:
                res.append({"type": "block", "size": r["size"], "vals": vals, "sd": r["sd"], "corr": r["corr"],
                            "chol": r["chol"], "fix": r["fix"]})
        return res

    om, sg = conv(cs["omegas"]), conv(cs["sigmas"])
    if om is None or sg is None:
        return None
    return {"id": cid, "thetas": [], "omegas": om, "sigmas": sg}


def rv_projection(model):
    """random effects of the model as numeric lower triangles per block, in order"""
    inits = {p.name: float(p.init) for p in model.parameters}
    fix = {p.name: bool(p.fix) for p in model.parameters}
    out = {}
    for label, rvs in (("omega", model.random_variables.etas), ("sigma", model.random_variables.epsilons)):
        blocks = []
        for dist in rvs:
            n = len(dist.names)
            var = dist.variance
            tri = []
            for i in range(n):
                for j in range(i + 1):
                    s = str(var if n == 1 else var[i, j])
                    tri.append([inits.get(s), fix.get(s), s])
            blocks.append({"size": n, "tri": tri})
        out[label] = blocks
    return out


# --------------------------------------------------------------------------- one history


def observe_code(model):
    code = model.code
    if not isinstance(code, str) or not code.strip():
        raise ValueError("empty model code")
    return code


def declared_numbering(model, cs=None):
    """compartment name -> number as the model's own code declares it: the $MODEL record (compartments keep their names
    there), else the ADVAN template's numbering as internals.compartment_map records it.  -> (numbering | None, notes, problems)"""
    notes, problems = [], []
    odes = model.statements.ode_system
    if odes is None:
        return None, notes, problems
    if cs is None:
        try:
            cs = {"model": [c for n, body in FE.split_records(model.code) if n == "MODEL" for c in FE.parse_model(body)]}
        except Exception:  # noqa: BLE001
            cs = {"model": []}
    cmap = dict(getattr(model.internals, "compartment_map", None) or {})
    names = list(odes.compartment_names)
    if cs["model"]:
        declared = {c["name"]: i for i, c in enumerate(cs["model"], start=1)}
        if set(declared) == {n.upper() for n in names} and len(declared) == len(names):
            numbering = {n: declared[n.upper()] for n in names}
            mine = {k: v for k, v in cmap.items() if k != "OUTPUT"}
            if mine and mine != numbering:
                notes.append(f"internals.compartment_map {mine} is stale: $MODEL declares {declared}")
            return numbering, notes, problems
        problems.append(("numbering", f"$MODEL declares {sorted(declared)}, the model has compartments {names}"))
    return ({k: v for k, v in cmap.items() if k != "OUTPUT"} or None), notes, problems


def _scale_diag(cs, model, obs_hint=None):
    """which Sn the model's F statement divides by, and which Sn the code assigns"""
    import re as _re

    from pharmpy.model import Assignment

    mscale = None
    for st in model.statements:
        if isinstance(st, Assignment) and str(st.symbol) == "F":
            syms = sorted(str(x) for x in st.expression.free_symbols if _re.fullmatch(r"S\d+|SC", str(x)))
            mscale = syms[0] if syms else None
    assigned = set()
    _assigned_of(cs.get("pk") or [], assigned)
    return mscale, sorted(x for x in assigned if _re.fullmatch(r"S\d+|SC", x))


def analyse(model, cid, seed, tag):
    """generated code of `model` -> {"case": NMTran case | None, "skip": reason | None, "model_side": [...per env],
    "params": [...], "omega_case", "rvs", "code", "meta"}"""
    res = {"cid": cid, "tag": tag, "case": None, "skip": None, "violations": []}
    try:
        code = observe_code(model)
    except Exception as e:  # noqa: BLE001
        res["violations"].append(("code:" + type(e).__name__, f"model.code raised {type(e).__name__}: {str(e)[:160]}"))
        return res
    res["code"] = code
    try:
        cs = FE.parse_control_stream(code)
        res["advan"], res["trans"] = cs["advan"], cs["trans"]
        case = build_case(cid, cs, model, seed)
    except UndefinedVariable as e:
        res["undefined"] = str(e)
        res["violations"].append(("undefined_variable", f"the generated code reads {e}, which it never assigns and $INPUT does not declare"))
        return res
    except FE.Unsupported as e:
        res["skip"] = "unsupported: " + str(e)[:80]
        return res
    except FE.ParseError as e:
        res["skip"] = "front end: " + str(e)[:80]
        return res
    binding, notes = bind_names(cs, model)
    res["notes"] = notes
    res["case"] = case
    numbering, nnotes, nproblems = declared_numbering(model, cs)
    res["notes"].extend(nnotes)
    res["violations"].extend(nproblems)
    try:
        res["model_f_scale"], res["code_scales"] = _scale_diag(cs, model)
        # (classification of findings only) observation compartment of the code and whether the scale the code gives it
        # is the one the model's F statement uses
        if cs["advan"] in G.CENTRAL:
            obs = G.CENTRAL[cs["advan"]]
        else:
            names = [c["name"] for c in cs["model"]]
            obs = next((i for i, c in enumerate(cs["model"], 1) if c["defobs"]), None) or (names.index("CENTRAL") + 1 if "CENTRAL" in names else 1)
        code_scale = f"S{obs}" if f"S{obs}" in res["code_scales"] else ("SC" if "SC" in res["code_scales"] and cs["advan"] in G.CENTRAL else None)
        res["scale_consistent"] = res["model_f_scale"] == code_scale
        import re as _re

        pkvars = set()
        _assigned_of(cs.get("pk") or [], pkvars)
        res["stale_output_rate_name"] = cs["advan"] in G.CENTRAL and any(_re.fullmatch(r"K\d+T?0", x) for x in pkvars)
    except Exception:  # noqa: BLE001
        res["model_f_scale"], res["code_scales"], res["scale_consistent"] = None, [], None
    sides = []
    for env in case["envs"]:
        try:
            sides.append(eval_model(model, model_env(model, binding, env), case.get("amt", []), numbering))
        except Exception as e:  # noqa: BLE001  harness-side problem: never a violation
            res["skip"] = f"harness: {type(e).__name__}: {str(e)[:80]}"
            res["case"] = None
            return res
    res["model_side"] = sides
    for outcome, what in compare_parameters(cs, model, binding):
        res["violations"].append((outcome, what))
    res["omega_case"] = omega_case(cid, cs)
    res["rvs"] = rv_projection(model)
    return res


def roundtrip(model, seed):
    """write_model -> read_model through a temporary directory; M ~ read(write(M)): [(outcome, detail)]"""
    import pharmpy.modeling as pm

    out = []
    d = Path(tempfile.mkdtemp(prefix="c02rw-", dir=str(core.WORK)))
    try:
        try:
            m1 = pm.write_model(model, d / "m.mod")
            m2 = pm.read_model(d / "m.mod")
        except Exception as e:  # noqa: BLE001
            return [("rw:" + type(e).__name__, f"write_model/read_model raised {type(e).__name__}: {str(e)[:160]}")]
        pa = {p.name: p for p in model.parameters}
        pb = {p.name: p for p in m2.parameters}
        import re as _re

        odd = {n for n in set(pa) ^ set(pb) if not _re.fullmatch(r"(THETA|OMEGA|SIGMA)_\d+(_\d+)?", n)}  # positional default names move
        if odd:
            out.append(("rw_param_names", f"parameters {sorted(odd)} differ after write/read"))
        for n in set(pa) & set(pb):
            a, b = pa[n], pb[n]
            if abs(float(a.init) - float(b.init)) > 1e-6 * max(1.0, abs(float(a.init))) or bool(a.fix) != bool(b.fix):
                out.append(("rw_param_value", f"{n}: {a.init} fix={a.fix} written, {b.init} fix={b.fix} read back"))
        def rvshape(m):
            return [[(len(dz.names), sorted(str(x) for x in dz.variance.free_symbols)) for dz in part]
                    for part in (m.random_variables.etas, m.random_variables.epsilons)]

        if rvshape(model) != rvshape(m2):
            out.append(("rw_rv_structure", f"random effects {rvshape(model)} -> {rvshape(m2)}"))
        # same function at a probe keyed by names
        rng = random.Random(seed)
        from .qeval import Q

        env = {}
        for p in model.parameters:
            env[p.name] = Q(Fraction(*rng.choice(THETA_POOL)))
        for part in ("etas", "epsilons"):
            for a_n, b_n in zip(getattr(model.random_variables, part).names, getattr(m2.random_variables, part).names):
                env[a_n] = env[b_n] = Q(rng.choice([-1, 1, 2]))
        for c in model.datainfo.names:
            env[c] = Q(Fraction(*rng.choice(DATA_POOL)))
        env["t"] = Q(Fraction(5, 2))
        ncomp = len(model.statements.ode_system.compartment_names) if model.statements.ode_system is not None else 0
        amounts = [list(a) for a in rng.sample(AMOUNT_POOL, ncomp)]
        # each model numbers its compartments as its own control stream declares; match through the two declared maps
        ea = eval_model(model, dict(env), amounts, declared_numbering(model)[0])
        eb = eval_model(m2, dict(env), amounts, declared_numbering(m2)[0])
        if (ea["ode"] is None) != (eb["ode"] is None):
            out.append(("rw_ode", "compartmental system lost / gained by write/read"))
        elif ea["ode"] is not None:
            nonlin = ea["ode"]["nonlinear"] or eb["ode"]["nonlinear"]
            for fld in ("flows", "dadt"):
                if fld == "flows" and nonlin:
                    continue  # the split of a nonlinear right-hand side into flows is not unique: dA/dt decides
                for k, va in ea["ode"][fld].items():
                    vb = eb["ode"][fld].get(k)
                    if va is not None and vb is not None and va != vb and abs(va[0] / va[1] - vb[0] / vb[1]) > 1e-9 * max(1.0, abs(va[0] / va[1])):
                        out.append(("rw_" + fld, f"{fld} {k}: {Fraction(*va)} in the model, {Fraction(*vb)} after write/read"))
                if fld == "flows" and set(ea["ode"][fld]) != set(eb["ode"][fld]):
                    out.append(("rw_flows", f"flows {sorted(set(ea['ode'][fld]) ^ set(eb['ode'][fld]))} differ after write/read"))
            for k, ca in ea["ode"]["comps"].items():
                cb = eb["ode"]["comps"].get(k)
                if cb is None:
                    continue
                for fld in ("lag", "bio"):
                    if ca[fld] is not None and cb[fld] is not None and ca[fld] != cb[fld]:
                        neutral = [0, 1] if fld == "lag" else [1, 1]
                        cls = "code_only" if ca[fld] == neutral else ("model_only" if cb[fld] == neutral else "both")
                        out.append((f"rw_{fld}:{cls}", f"compartment {k} {fld}: {ca[fld]} in the model -> {cb[fld]} after write/read"))
                ka, kb = [x[0] for x in ca["doses"]], [x[0] for x in cb["doses"]]
                if ka != kb:
                    out.append((f"rw_dose:{'+'.join(ka) or 'none'}->{'+'.join(kb) or 'none'}", f"compartment {k} doses {ca['doses']} -> {cb['doses']}"))
        for name in ("F", "Y", "IPRED"):
            va, vb = ea["vars"].get(name), eb["vars"].get(name)
            if va is not None and vb is not None and va != vb and abs(va[0] / va[1] - vb[0] / vb[1]) > 1e-9 * max(1.0, abs(va[0] / va[1])):
                out.append(("rw_value", f"{name} = {Fraction(*va)} in the model, {Fraction(*vb)} after write/read"))
        # dataset
        da, db = m1.dataset, m2.dataset
        if (da is None) != (db is None):
            out.append(("rw_dataset", "dataset lost / gained"))
        elif da is not None:
            cols = [c for c in da.columns if c in db.columns]
            if list(da.columns) != list(db.columns):
                out.append(("rw_dataset", f"columns {list(da.columns)} -> {list(db.columns)}"))
            else:
                xa = da[cols].reset_index(drop=True).astype(float, errors="ignore")
                xb = db[cols].reset_index(drop=True).astype(float, errors="ignore")
                same = xa.shape == xb.shape and bool(((xa == xb) | (xa.isna() & xb.isna())).all().all())
                if not same:
                    try:
                        import numpy as np

                        same = xa.shape == xb.shape and bool(np.allclose(xa.to_numpy(dtype=float), xb.to_numpy(dtype=float), rtol=1e-6, equal_nan=True))
                    except Exception:  # noqa: BLE001
                        same = False
                if not same:
                    out.append(("rw_dataset", "dataset values differ after write/read"))
    finally:
        shutil.rmtree(d, ignore_errors=True)
    return out


def run_history(arg):
    """replay a history of tokens on a start model; analyse the model after the last step"""
    idx, start, toks, seed, do_rw = arg
    res = {"idx": idx, "start": start, "hist": toks, "status": "ok", "violations": [], "steps": []}
    try:
        m = private_copy(start)
        prev_advan = None
        for i, tok in enumerate(toks):
            try:
                prev_advan = FE.parse_subroutines(next((c for n, c in FE.split_records(m.code) if n == "SUBROUTINES"), ""))["advan"]
            except Exception:  # noqa: BLE001
                prev_advan = None
            if tok == "SYNC":
                # generation point (CodeGen.tla DoSync): the code is generated here, later steps start from a model whose
                # internals (ADVAN/TRANS, compartment map) are those of this code - pk_param_conversion's "before" state
                try:
                    m = m.update_source()
                    res["steps"].append("sync")
                except Exception as e:  # noqa: BLE001  (a failing generation is judged on histories ending here, not as a step)
                    res["status"] = "setter_error"
                    res["note"] = f"update_source raised {type(e).__name__} at a generation point"
                    res["hist"] = toks[: i + 1]
                    return res
                continue
            m2, out, info = apply(m, tok, start)
            res["steps"].append(out)
            if m2 is None:
                if out == "error":
                    # a transformation that fails is outside C02's quantifier ("each succeed"); totality is C08's business
                    res["status"] = "setter_error"
                    res["note"] = f"{tok} raised {info['exc']} at {info['where']}"
                else:
                    res["status"] = "refused"
                res["hist"] = toks[: i + 1]
                return res
            m = m2
        res["from_advan"] = prev_advan
        a = analyse(m, idx, seed, "after")
        res.update({k: a.get(k) for k in ("case", "skip", "model_side", "omega_case", "rvs", "advan", "trans", "notes", "code", "model_f_scale", "code_scales", "scale_consistent", "stale_output_rate_name", "undefined")})
        res["violations"].extend(a["violations"])
        try:
            from . import c08_features as F8

            vec, _ = F8.classify(m, "iv")
            res["vec"] = vec
        except Exception:  # noqa: BLE001
            res["vec"] = None
        if do_rw and res["status"] == "ok":
            res["rw_violations"] = roundtrip(m, seed)
            res["rw"] = True
    except Exception as e:  # noqa: BLE001  harness failure
        res["status"] = "harness_error"
        res["note"] = f"{type(e).__name__}: {str(e)[:200]}"
    return res


# --------------------------------------------------------------------------- TLC: transition table, interpretation


def tlc_graph(v: core.Verdict):
    # (no -coverage: it triples the cost of this run; the vacuity guard is taken from the emitted transition table -
    #  every token of the alphabet must label at least one transition)
    res = core.run_tlc(SPEC / "CodeGen.tla", SPEC / "CodeGen.cfg", workers=8, timeout=1800, env=JAVA, coverage=False)
    core.require_ok(res, "CodeGen.tla")
    if res.violated:
        raise core.MachineryError(f"CodeGen.tla: design-level invariant {res.violated} violated:\n" + "\n".join(res.trace[-2:])[:1500])
    core.tlc_stats_into(v, res)
    states = [c for t, c in res.prints if t == "STATE"]
    if not states:
        raise core.MachineryError("CodeGen.tla emitted no states")
    import re as _re

    alphabet = set(_re.findall(r'"([A-Z][A-Z0-9:+-]*)"', (SPEC / "CodeGen.cfg").read_text().split("Acts")[1].split("}")[0]))
    taken = {mv["tok"] for st in states for mv in st["moves"] if mv["succs"]}
    if alphabet - taken:
        raise core.MachineryError(f"CodeGen.tla: tokens never taken (vacuous model): {sorted(alphabet - taken)}")
    v.add_coverage(codegen_states=res.distinct, codegen_transitions=res.generated, codegen_wall_s=round(res.wall, 1),
                   advan_of_states={str(a): sum(1 for s in states if s["state"]["advan"] == a) for a in (1, 2, 3, 4, 5, 11, 12, 13)})
    return states


def _key(vec):
    return json.dumps(vec, sort_keys=True)


def plan_histories(states, rng, n_edges, n_walks, walk_len, row_depth=2, per_start_cap=10**9):
    """histories (token sequences per start model): sampled transitions reached through a breadth-first tree, and random walks"""
    table = {_key(s["state"]["vec"]): s for s in states}
    starts = {}
    # start vectors as CodeGen.StartState defines them
    base = dict(elim="FO", tr=0, lag=False, bio=False, metab=False, zoin=False, script=0, rcov=False)
    starts["pheno_real"] = dict(base, abs="INST", periph=0, depot=False, trans=2)
    starts["pheno_block"] = dict(base, abs="INST", periph=0, depot=False, trans=2)
    starts["mox2"] = dict(base, abs="FO", periph=0, depot=True, trans=2)
    starts["pheno_advan3"] = dict(base, abs="INST", periph=1, depot=False, trans=3)
    starts["pheno_advan4"] = dict(base, abs="FO", periph=1, depot=True, trans=3)
    starts["oral2_cmt"] = dict(base, abs="FO", periph=1, depot=True, trans=4)
    hists = []
    per_start = {}
    for name, vec in starts.items():
        k0 = _key(vec)
        if k0 not in table:
            raise core.MachineryError(f"start state of {name} not among the states CodeGen.tla emitted")
        path = {k0: []}
        dq = deque([k0])
        edges = []
        while dq:
            k = dq.popleft()
            for mv in table[k]["moves"]:
                for su in mv["succs"]:
                    k2 = _key(su["vec"])
                    edges.append((k, mv["tok"], k2))
                    if k2 not in path:
                        path[k2] = path[k] + [mv["tok"]]
                        dq.append(k2)
        per_start[name] = (path, edges)
    quota = max(1, n_edges // len(starts))
    for name, (path, edges) in per_start.items():
        short = [e for e in edges if len(path[e[0]]) <= 2]
        rng.shuffle(short)
        # decision-table coverage first: every (ADVAN before, TRANS before, ADVAN after) the graph has within depth 3
        # (these are the rows of pk_param_conversion / new_advan_trans), then every token with every predicted ADVAN
        chosen, seen_tok, seen_row = [], set(), set()
        deeper = [e for e in edges if len(path[e[0]]) <= row_depth]
        rng.shuffle(deeper)
        # every token of the alphabet by its shortest history (the scripted edit chains COV-CAT-RCOV, IOV-RIOV included)
        for e in sorted(edges, key=lambda x: len(path[x[0]])):
            edit_tok = e[1] in ("COV", "CAT", "RCOV", "IOV", "RIOV", "CE", "RUV1", "RUV2", "RRV")
            k = (e[1], table[e[0]]["state"]["vec"]["script"] if edit_tok else -1)   # edit tokens: from every stage they apply to
            if k not in seen_tok:
                seen_tok.add(k)
                chosen.append(e)
        for e in sorted(deeper, key=lambda x: len(path[x[0]])):
            a0, a1 = table[e[0]]["state"], table[e[2]]["state"]
            row = (a0["advan"], a0["vec"]["trans"], a1["advan"])
            if a0["advan"] != a1["advan"] and row not in seen_row:
                seen_row.add(row)
                if e not in chosen:
                    chosen.append(e)
        for e in short:
            adv = table[e[2]]["state"]["advan"]
            if (e[1], adv) not in seen_tok:
                seen_tok.add((e[1], adv))
                if e not in chosen:
                    chosen.append(e)
        rest = [e for e in short if e not in chosen]
        chosen = (chosen + rest)[:max(quota, min(len(chosen), per_start_cap))]
        for k, tok, k2 in chosen:
            hists.append((name, path[k] + [tok]))
        # the rows of pk_param_conversion are keyed on the library of the code generated LAST: each row again with a
        # generation point in its source state (only then is the source state's ADVAN/TRANS the conversion's "before")
        sync_rows = set()
        for k, tok, k2 in chosen:
            a0, a1 = table[k]["state"], table[k2]["state"]
            row = (a0["advan"], a0["vec"]["trans"], a1["advan"], a1["vec"]["trans"])
            if path[k] and a0["advan"] != a1["advan"] and row not in sync_rows:
                sync_rows.add(row)
                hists.append((name, path[k] + ["SYNC", tok]))
        for _ in range(max(1, n_walks // len(starts))):
            k, h = _key(starts[name]), []
            for _ in range(walk_len):
                mvs = table[k]["moves"]
                if not mvs:
                    break
                mv = rng.choice(mvs)
                h.append(mv["tok"])
                k = _key(rng.choice(mv["succs"])["vec"])
            hists.append((name, h))
            if len(h) >= 2:
                cut = rng.randrange(1, len(h))
                hists.append((name, h[:cut] + ["SYNC"] + h[cut:]))
    # de-duplicate
    seen, out = set(), []
    for name, h in hists:
        key = (name, tuple(h))
        if key not in seen and h:
            seen.add(key)
            out.append((name, h))
    return out, table, starts


def predict(table, start_vec, toks):
    """set of abstract states the machine can be in after the history (TRANS alternatives kept)"""
    cur = {_key(start_vec)}
    for tok in toks:
        if tok == "SYNC":   # stuttering step of CodeGen.tla
            continue
        nxt = set()
        for k in cur:
            for mv in table[k]["moves"]:
                if mv["tok"] == tok:
                    nxt |= {_key(su["vec"]) for su in mv["succs"]}
        cur = nxt
        if not cur:
            break
    return [table[k]["state"] for k in cur]


def run_nmtran(cases, v: core.Verdict, chunk=3000):
    out = {}
    d = core.scratch("c02tlc")
    try:
        for i in range(0, len(cases), chunk):
            part = cases[i:i + chunk]
            f = d / f"cases{i}.json"
            f.write_text(json.dumps({"cases": part}))
            res = core.run_tlc(SPEC / "NMTran.tla", SPEC / "NMTran.cfg", workers=16, timeout=3000,
                               env=dict(JAVA, CASES=str(f)), coverage=False)
            core.require_ok(res, "NMTran.tla (generated code)")
            if res.violated:
                raise core.MachineryError(f"NMTran.tla: invariant {res.violated} violated:\n" + "\n".join(res.trace[-2:])[:1500])
            core.tlc_stats_into(v, res)
            for tag, rec in res.prints:
                if tag == "CASE":
                    out[(rec["id"], rec["env"])] = rec
            want = sum(len(c["envs"]) for c in part)
            got = sum(1 for c in part for e in range(len(c["envs"])) if (c["id"], e + 1) in out)
            if got != want:
                raise core.MachineryError(f"NMTran.tla emitted {got} records for {want} (case, probe) pairs")
    finally:
        shutil.rmtree(d, ignore_errors=True)
    return out


def run_params(cases, v: core.Verdict):
    if not cases:
        return {}
    d = core.scratch("c02par")
    try:
        f = d / "p.json"
        f.write_text(json.dumps({"cases": cases}))
        res = core.run_tlc(SPEC / "ParamMeaning.tla", SPEC / "ParamMeaning.cfg", workers=8, timeout=1800,
                           env=dict(JAVA, CASES=str(f)), coverage=False)
    finally:
        shutil.rmtree(d, ignore_errors=True)
    core.require_ok(res, "ParamMeaning.tla (generated records)")
    core.tlc_stats_into(v, res)
    return {rec["id"]: rec for tag, rec in res.prints if tag == "PARAM"}


# --------------------------------------------------------------------------- comparison of TLC's reading with the model


def _fr(p):
    return Fraction(p[0], p[1])


def _same(a, b):
    """a: TLC [n,d], b: model side [n,d]"""
    if a == b:
        return True
    fa, fb = a[0] / a[1], b[0] / b[1]
    return abs(fa - fb) <= 1e-9 * max(1.0, abs(fa), abs(fb))


def compare_case(r, recs):
    """-> [(outcome, detail)] and stats for one analysed model against TLC's records (one per probe)"""
    out, stats = [], {"compared": 0, "skipped_probe": 0}
    for exp, side, env in zip(recs, r["model_side"], r["case"]["envs"]):
        adv = exp.get("adv")
        ode = side["ode"]
        if r["case"]["kind"] == "advan" and isinstance(adv, dict):
            if adv.get("cmtok") is False:
                out.append(("cmt_out_of_range", f"the CMT data column refers to a compartment number the generated code does not have "
                                                f"(doses {r['case']['dosecmt']}, observations {r['case']['obscmt']}, {adv['ncomp']} compartments)"))
            if adv.get("missing"):
                r["missing"] = "+".join(sorted(adv["missing"]))
                out.append(("undefined_pk_parameter", f"the generated $PK does not define {sorted(adv['missing'])}, which ADVAN{r['case']['advan']} TRANS{r['case']['trans']} requires"))
        if exp["status"] != "ok":
            stats["skipped_probe"] += 1
            continue
        if r["case"]["kind"] == "advan":
            if ode is None:
                out.append(("no_ode", "the code has $SUBROUTINES but the model has no compartmental system"))
                continue
            if adv["ncomp"] != ode["ncomp"]:
                out.append(("compartments", f"the code has {adv['ncomp']} compartments, the model {ode['ncomp']}"))
                continue
            want = {f"{x[0]}>{x[1]}": x[2] for x in adv["rates"]}
            if want and not ode["nonlinear"]:
                for k, p in sorted(want.items()):
                    if p[1] == 0:
                        continue
                    got = ode["flows"].get(k)
                    if k not in ode["flows"]:
                        out.append(("flow_missing", f"the code has a flow {k} ({_fr(p)}), the model has none"))
                    elif got is not None:
                        stats["compared"] += 1
                        if not _same(p, got):
                            out.append(("rate_value", f"rate {k}: the code means {_fr(p)}, the model {_fr(got)}"))
                for k in sorted(set(ode["flows"]) - set(want)):
                    out.append(("flow_extra", f"the model has a flow {k} that the code does not have"))
            dadt = adv.get("dadt") or []
            for n, p in enumerate(dadt, start=1):
                got = ode["dadt"].get(str(n))
                if p[1] == 0 or got is None:
                    continue
                stats["compared"] += 1
                if not _same(p, got):
                    out.append(("dadt", f"DADT({n}) of the code = {_fr(p)}, dA/dt of compartment {n} of the model = {_fr(got)}"))
            for n in range(1, adv["ncomp"] + 1):
                c = ode["comps"].get(str(n))
                if c is None:
                    out.append(("numbering", f"no compartment of the model has number {n}"))
                    continue
                for fld, label in (("lag", "ALAG"), ("bio", "F")):
                    p, got = adv[fld][n - 1], c[fld]
                    if p[1] == 0 or got is None:
                        continue
                    stats["compared"] += 1
                    if not _same(p, got):
                        neutral = [0, 1] if fld == "lag" else [1, 1]
                        r[fld + "_class"] = "code_only" if got == neutral else ("model_only" if list(p) == neutral else "both")
                        out.append((fld, f"{label}{n}: the code means {_fr(p)}, compartment {n} of the model has {_fr(got)}"))
            ndoses = sum(len(c["doses"]) for c in ode["comps"].values())
            if ndoses == 1:
                dz = adv["dose"]
                c = ode["comps"].get(str(dz["cmt"]))
                if c is None or len(c["doses"]) != 1:
                    where = [k for k, x in ode["comps"].items() if x["doses"]]
                    r["dose_on_central"] = (ode.get("names") or {}).get("CENTRAL") == dz["cmt"]
                    out.append(("dose_compartment", f"code + data dose compartment {dz['cmt']}, the model doses compartment {where}"))
                else:
                    kind, par = c["doses"][0]
                    stats["compared"] += 1
                    if kind != dz["kind"]:
                        r["dose_code"], r["dose_model"] = dz["kind"], kind
                        out.append(("dose_kind", f"code + data: {dz['kind']} dose, model: {kind}"))
                    elif kind != "bolus" and par is not None and dz["par"][1] != 0 and not _same(dz["par"], par):
                        out.append(("dose_par", f"{kind} of the dose: code {_fr(dz['par'])}, model {_fr(par)}"))
        final = exp["final"] if isinstance(exp["final"], dict) else {}
        err_vars = set()
        _assigned_of(r["case"].get("err") or [], err_vars)
        f_bad = False
        pf, gf = final.get("F"), side["vars"].get("F")
        if pf is not None and gf is not None and pf[1] != 0:
            stats["compared"] += 1
            if not _same(pf, gf):
                f_bad = True
                oc = r["case"].get("obscmt") or 0
                r["cmt_collapsed"] = bool(oc and oc == (r["case"].get("dosecmt") or 0))
                r["obs_cmt_stale"] = bool(oc and ode is not None and (ode.get("names") or {}).get("CENTRAL") not in (None, oc))
                out.append(("f_value", f"F: the code means {_fr(pf)} (observation compartment {adv['obs'] if isinstance(adv, dict) else '?'}), the model {_fr(gf)}"))
        for name, p in sorted(final.items()):
            if "(" in name or p[1] == 0 or name == "F":
                continue
            if f_bad and name in err_vars:
                continue  # follows from F
            got = side["vars"].get(name)
            if name not in side["vars"] or got is None:
                continue
            stats["compared"] += 1
            if not _same(p, got):
                out.append(("value", f"{name}: the code means {_fr(p)}, the model {_fr(got)}"))
    # one report per outcome
    seen, uniq = set(), []
    for o, w in out:
        if o not in seen:
            seen.add(o)
            uniq.append((o, w))
    return uniq, stats


def compare_rvs(r, meaning):
    out = []
    for label in ("omega", "sigma"):
        m = meaning[label]
        params = m["params"] if isinstance(m["params"], list) else []
        blocks = m["blocks"] if isinstance(m["blocks"], list) else []
        mine = r["rvs"][label]
        if [b["size"] for b in blocks] != [b["size"] for b in mine]:
            out.append(("rv_structure", f"${label.upper()} blocks of the code {[b['size'] for b in blocks]}, of the model {[b['size'] for b in mine]}"))
            continue
        for b, mb in zip(blocks, mine):
            for pos, (init, fix, name) in zip(b["cov"], mb["tri"]):
                p = params[pos - 1]
                if init is None or p["init"][1] == 0:
                    continue
                if abs(p["init"][0] / p["init"][1] - init) > 1e-9 * max(1.0, abs(init)):
                    out.append(("rv_init", f"{label.upper()}({p['row']},{p['col']}) = {_fr(p['init'])} in the code, {name} = {init} in the model"))
                if bool(p["fix"]) != bool(fix):
                    out.append(("rv_fix", f"{label.upper()}({p['row']},{p['col']}) FIX={p['fix']} in the code, {name} fix={fix} in the model"))
    return out[:3]


# --------------------------------------------------------------------------- front end against the spec


def frontend_roundtrip(n, seed, v: core.Verdict):
    """print/parse round trip of generated ASTs: parse(render(ast)) == ast structurally, and TLC (NMTran.tla) computes
    the same final environment for both (the front end is validated against the spec it feeds)."""
    rng = random.Random(seed)
    cases = G.pred_cases(rng, n)

    def strip(x):
        if isinstance(x, list):
            return [strip(y) for y in x]
        if isinstance(x, dict):
            d = {k: strip(val) for k, val in x.items() if k != "tight"}
            if d.get("k") == "num":
                q = Fraction(d["n"], d["d"])
                d["n"], d["d"] = q.numerator, q.denominator
            return d
        return x

    bad, tlc_cases = [], []
    for c in cases:
        text = "\n".join(R.render_code(c["prog"], R.Style(random.Random(seed + c["id"]), faithful=True)))
        try:
            got = FE.parse_code(text)
        except Exception as e:  # noqa: BLE001
            bad.append(f"case {c['id']}: {type(e).__name__} {e}")
            continue
        if strip(got) != strip(c["prog"]):
            bad.append(f"case {c['id']}: parse(render(ast)) differs from ast")
        if c["id"] % 5 == 0:
            tlc_cases.append({"id": 2 * c["id"], "kind": "pred", "prog": c["prog"], "envs": c["envs"][:1]})
            tlc_cases.append({"id": 2 * c["id"] + 1, "kind": "pred", "prog": got, "envs": c["envs"][:1]})
    if bad:
        raise core.MachineryError(f"front end fails the print/parse round trip on {len(bad)} of {len(cases)} programs: {bad[:3]}")
    recs = run_nmtran(tlc_cases, v)
    for c in tlc_cases[::2]:
        a, b = recs[(c["id"], 1)], recs[(c["id"] + 1, 1)]
        if a["status"] != b["status"] or a["final"] != b["final"]:
            raise core.MachineryError(f"NMTran.tla evaluates a program and its re-parsed rendering differently (case {c['id'] // 2})")
    v.add_coverage(frontend_roundtrip_programs=len(cases), frontend_roundtrip_tlc_pairs=len(tlc_cases) // 2)


# --------------------------------------------------------------------------- main


def _record(r, outcome, detail, table_states=None):
    return {"start": r["start"], "history": r.get("hist"), "last": (r.get("hist") or [None])[-1], "outcome": outcome,
            "advan": r.get("advan"), "trans": r.get("trans"), "from_advan": r.get("from_advan"), "detail": detail,
            "vec": r.get("vec"), "missing": r.get("missing"), "model_f_scale": r.get("model_f_scale"),
            "scale_consistent": r.get("scale_consistent"), "stale_output_rate_name": r.get("stale_output_rate_name"), "bio_class": r.get("bio_class"), "lag_class": r.get("lag_class"),
            "dose_code": r.get("dose_code"), "dose_model": r.get("dose_model"), "dose_on_central": r.get("dose_on_central"), "obs_cmt_stale": r.get("obs_cmt_stale"), "cmt_collapsed": r.get("cmt_collapsed"), "undefined": r.get("undefined"),
            "code_scales": "+".join(r.get("code_scales") or []), "code": r.get("code")}


def main(tier: str, seed: int) -> int:
    cfg = TIERS[tier]
    v = core.Verdict("C02", tier, seed)
    v.assumptions = [
        "spec/nmtran (NMTran.tla, Advan.tla, Expr.tla, Rat.tla) is the NM-TRAN/PREDPP semantics, transcribed by hand from the guides",
        "harness/nmtran_front.py (tokenizer + precedence parser) is validated by the print/parse round trip and by TLC evaluating both ASTs; it is otherwise trusted",
        "probe evaluation over the rationals with EXP:=2^x; probes outside the function model, 32-bit overflow in TLC and constructs the front end does not parse are skipped",
        "event processing (multiple doses, steady state) is not modelled: equality of rate constants / DADT at probe states, F, Y, lag, bioavailability and dose attributes is what is decided",
        "a DVID data item that the code reads but $INPUT does not declare is given the value 1 on both sides",
    ]
    rng = random.Random(seed)
    t0 = time.time()
    frontend_roundtrip(cfg["roundtrip"], seed, v)
    states = tlc_graph(v)
    hists, table, starts = plan_histories(states, rng, cfg["edges"], cfg["walks"], cfg["walk_len"], cfg.get("row_depth", 2), cfg.get("cap", 10**9))
    _load()
    work = []
    for i, (name, h) in enumerate(hists, start=1):
        work.append((i, name, h, seed * 100003 + i, i % cfg["rw_every"] == 0))
    # the start models themselves (and the extra ones, as they are)
    base = len(work)
    for j, name in enumerate(sorted(_MODELS), start=1):
        work.append((base + j, name, [], seed * 100003 + base + j, True))
    t1 = time.time()
    results = core.pmap(run_history, work, procs=16, chunk=4)
    t_replay = time.time() - t1

    cases = [r["case"] for r in results if r.get("case")]
    pcases = [r["omega_case"] for r in results if r.get("case") and r.get("omega_case")]
    expect = run_nmtran(cases, v) if cases else {}
    pexpect = run_params(pcases, v)

    counters = {"histories": len(work), "analysed": 0, "skipped": {}, "refused": 0, "setter_error": 0, "harness_error": 0,
                "compared_values": 0, "skipped_probes": 0, "roundtrips": 0, "drift_advan": 0, "predicted": 0}
    advans = {}
    for r in results:
        if r["status"] == "harness_error":
            counters["harness_error"] += 1
            if len(v.notes) < 30:
                v.notes.append(f"history {r['start']} {r['hist']}: harness could not evaluate: {r.get('note')}")
            continue
        if r["status"] == "refused":
            counters["refused"] += 1
        if r["status"] == "setter_error":
            counters["setter_error"] += 1
            k = (r.get("note") or "?")[:90]
            counters.setdefault("setter_errors", {})[k] = counters.setdefault("setter_errors", {}).get(k, 0) + 1
        for outcome, what in r["violations"]:
            v.violation(_record(r, outcome, what), f"{r['start']} {' '.join(r['hist']) or '(as read)'}: {what}")
        primary_bad = bool(r["violations"])
        if r.get("skip"):
            k = r["skip"].split(":")[0] + ":" + r["skip"].split(":", 1)[1][:40]
            counters["skipped"][k] = counters["skipped"].get(k, 0) + 1
        if not r.get("case"):
            continue
        counters["analysed"] += 1
        advans[str(r.get("advan"))] = advans.get(str(r.get("advan")), 0) + 1
        recs = [expect[(r["case"]["id"], e + 1)] for e in range(len(r["case"]["envs"]))]
        problems, stats = compare_case(r, recs)
        counters["compared_values"] += stats["compared"]
        counters["skipped_probes"] += stats["skipped_probe"]
        for outcome, what in problems:
            v.violation(_record(r, outcome, what), f"{r['start']} {' '.join(r['hist']) or '(as read)'}: {what}")
        if r.get("omega_case") and r["case"]["id"] in pexpect:
            for outcome, what in compare_rvs(r, pexpect[r["case"]["id"]]):
                problems.append((outcome, what))
                v.violation(_record(r, outcome, what), f"{r['start']} {' '.join(r['hist']) or '(as read)'}: {what}")
        if r.get("rw"):
            # read(write(M)) ~ M is judged on its own only where the code already means what M means
            # (otherwise the difference is the same finding seen through the re-read model)
            if primary_bad or problems:
                counters["roundtrips_implied"] = counters.get("roundtrips_implied", 0) + 1
            else:
                counters["roundtrips"] += 1
                for outcome, what in r.get("rw_violations") or []:
                    v.violation(_record(r, outcome, what), f"{r['start']} {' '.join(r['hist']) or '(as read)'}: {what}")
        # design layer: the decision table's prediction (drift only)
        if r["start"] in starts and r["status"] == "ok":
            pred = predict(table, starts[r["start"]], r["hist"])
            if pred:
                counters["predicted"] += 1
                if not any(p["advan"] == r.get("advan") and (p["vec"]["trans"] == (r.get("trans") or 0) or p["advan"] == 13) for p in pred):
                    counters["drift_advan"] += 1
                    if len(v.notes) < 30:
                        v.notes.append(f"drift: {r['start']} {r['hist']}: generated ADVAN{r.get('advan')} TRANS{r.get('trans')}, "
                                       f"CodeGen.tla predicts {sorted({(p['advan'], p['vec']['trans']) for p in pred})}")
    if counters["harness_error"] > 0.05 * len(work):
        raise core.MachineryError(f"{counters['harness_error']} histories could not be evaluated by the harness")
    if counters["analysed"] < 0.5 * len(work):
        raise core.MachineryError(f"only {counters['analysed']} of {len(work)} histories reached TLC (skipped: {counters['skipped']})")
    samples = []
    for r in results:
        if r.get("case") and r["hist"] and len(samples) < 3:
            e = expect[(r["case"]["id"], 1)]
            samples.append({"start": r["start"], "history": r["hist"], "advan": r.get("advan"), "trans": r.get("trans"),
                            "tlc": {"rates": (e.get("adv") or {}).get("rates") if isinstance(e.get("adv"), dict) else None,
                                    "f": (e.get("adv") or {}).get("f") if isinstance(e.get("adv"), dict) else None},
                            "model": {"flows": (r["model_side"][0]["ode"] or {}).get("flows")}})
    v.add_coverage(
        histories=len(work), distinct_nontrivial=sum(1 for r in results if len(r["hist"]) >= 2),
        evaluations=len(expect), traces_validated_against_impl=counters["analysed"],
        outcomes=counters, generated_advans=advans, replay_wall_s=round(t_replay, 1), total_prep_wall_s=round(t1 - t0, 1),
        rule="histories = sampled transitions of CodeGen.tla's reachable graph (each reached through a breadth-first tree from its start "
             "model, depth of the source <= 2) + random walks; non-trivial = at least two transformations; the model after the last step is "
             "interpreted by TLC at 2 probes",
        samples=samples, exhaustive=False,
    )
    return v.finish(min_traces=max(20, int(0.5 * len(work))))


def replay(path: str) -> int:
    data = json.loads(open(path).read())
    case = data["case"]
    print(data["what"])
    print("start model:", case["start"], " history:", case["history"])
    print(case.get("code") or "")
    return 0
