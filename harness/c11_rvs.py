"""C11 - Random-effect algebra keeps names, variances and a valid covariance.

spec -> code
  * spec/rv/RandVars.tla, graph mode: TLC explores the whole reachable graph of block structures under
    join / unjoin / select / slice / concat (design layer = pharmpy's algorithm), asserts on every
    transition the property layer (names, partition, levels, Var, Cov, admissible order SET) and checks
    block-diagonality and confluence (unjoin after join, join twice, select after join).
  * history mode: TLC emits every op sequence of length MaxOps from the initial configurations (and
    random longer ones in the thorough tier) with, per step, the expected projection, the admissible
    orders and the pairs whose covariance may stay 0; the driver replays them on real RandomVariables
    and compares names, blocks, levels, block matrices, covariance_matrix, variance_parameters,
    parameter_names after every op.
  * spec/rv/PSD.tla: every symmetric integer matrix of size <= 3 with entries -2..3, classified
    exactly (two definitions proved equal by TLC); Model.create / Model.replace with those initial
    estimates must keep them iff positive semidefinite, else return a PSD fixed point of the repair.
    sd/corr images as exact rationals for matrices with square variances.
Auxiliary float assertions (DESIGN section 5; never counted as traces): eigvalsh of repaired inits,
sd/corr 1e-12, UCP round trip 1e-8.
"""
from __future__ import annotations

import json
import os
import random
import shutil
import sys
import time
from concurrent.futures import ThreadPoolExecutor

from . import core

SPEC = core.SPEC / "rv"

NOSUBS = '"join", "unjoin", "select", "slice", "concat"'
PLAIN, SHARED, BOTH = '"plain"', '"shared"', '"plain", "shared"'
GRAPH = {
    # N, Fills, NPats, Confl, Ops, initial configurations
    "quick": [(4, '"zero", "tmpl"', 1, "TRUE", NOSUBS, PLAIN)],
    "thorough": [
        (4, '"zero", "sym", "num", "tmpl"', 3, "TRUE", NOSUBS, BOTH),
        (3, '"zero", "sym", "num", "tmpl"', 3, "TRUE", NOSUBS + ', "subs"', BOTH),
        (5, '"zero"', 3, "TRUE", NOSUBS, PLAIN),
    ],
}
CORE = '"join", "unjoin", "select"'
HIST = {
    # N, MaxOps, Fills, NPats, Ops, initial configurations, replay budget (None = all)
    "quick": [
        (4, 2, '"sym", "tmpl"', 1, None, PLAIN, 8000),  # (fill 0 at depth 2: thorough tier, graph mode, N=5 depth 1)
        (5, 1, '"zero", "sym", "num", "tmpl"', 2, None, BOTH, None),
        (4, 2, '"sym"', 1, None, SHARED, 3000),
    ],
    "thorough": [
        (4, 2, '"zero", "sym", "num", "tmpl"', 3, None, PLAIN, None),
        (4, 2, '"zero", "sym", "tmpl"', 1, None, SHARED, None),
        (5, 1, '"zero", "sym", "num", "tmpl"', 5, None, BOTH, None),
        (5, 2, '"sym"', 1, CORE, PLAIN, None),
        (5, 2, '"tmpl"', 1, '"join", "unjoin"', PLAIN, None),
    ],
}
SIM = {"thorough": (5, 6, '"sym", "tmpl"', 5, None, BOTH, None)}  # TLC's simulator expands every successor: keep the fan-out moderate
SIM_TRACES = 600
ALLOPS = '"join", "unjoin", "select", "slice", "concat", "subs"'


def _cfg(path, N, maxops, track, fills, npats, confl, ops, invariants, kinds='"plain"'):
    path.write_text(
        "CONSTANTS\n"
        f"  N = {N}\n  MaxOps = {maxops}\n  Track = {track}\n  Fills = {{{fills}}}\n  NPats = {npats}\n"
        f"  Confl = {confl}\n  Ops = {{{ops}}}\n  InitKinds = {{{kinds}}}\nINIT Init\nNEXT Next\n"
        + "".join(f"INVARIANT {i}\n" for i in invariants)
        + "CHECK_DEADLOCK FALSE\n"
    )
    return path


def _tlc_graph(d, spec, idx, timeout, coverage=False, workers=16):
    N, fills, npats, confl, ops, kinds = spec
    cfg = _cfg(d / f"graph{idx}.cfg", N, 0, "FALSE", fills, npats, confl, ops, ["TypeOK", "BlockDiagonal", "Confluent"], kinds)
    return core.run_tlc(SPEC / "RandVars.tla", cfg, workers=workers, timeout=timeout, coverage=coverage)


def _tlc_hist(d, spec, timeout, simulate=None, depth=None, seed=None, workers=16, idx=0):
    N, maxops, fills, npats, ops, kinds, _budget = spec
    cfg = _cfg(d / ("sim.cfg" if simulate else f"hist{idx}.cfg"), N, maxops, "TRUE", fills, npats, "FALSE", ops or ALLOPS, ["TypeOK", "BlockDiagonal", "EmitCase"], kinds)
    return core.run_tlc(SPEC / "RandVars.tla", cfg, workers=workers, timeout=timeout, coverage=False, simulate=simulate, depth=depth, seed=seed)


def _tlc_psd(timeout):
    return core.run_tlc(SPEC / "PSD.tla", SPEC / "PSD.cfg", workers=8, timeout=timeout, coverage=False)


# ----------------------------------------------------------------------------- rendering spec <-> pharmpy

NUMFILL = 0.25
TEMPLATE = "COV_{}_{}"


def vname(x, ren):
    return f"X{x}" if x in ren else f"E{x}"


def vid(name):
    return int(name[1:])


def ent_name(e: str):
    """entry code of the spec -> ('sym', name) | ('zero',) | ('num', value)"""
    r = e.startswith("R")
    if r:
        e = e[1:]
    k, a, b = e[0], e[1], e[2]
    if k == "Z":
        return ("zero",)
    if k == "Q":
        return ("num", NUMFILL)
    name = {"V": f"V{a}", "P": f"P{a}{b}", "F": "FILL", "N": f"COV_e{a}_e{b}"}[k]
    return ("sym", ("R_" + name) if r else name)


_DISTS: dict = {}


def mk_dist(names, level, codes):
    """codes: matrix of entry codes (strings).  Cached: .create on a symbolic matrix is slow."""
    from pharmpy.basic import Expr
    from pharmpy.model import JointNormalDistribution, NormalDistribution

    key = (tuple(names), level, json.dumps(codes))
    if key in _DISTS:
        return _DISTS[key]

    def ex(c):
        t = ent_name(c)
        return Expr.symbol(t[1]) if t[0] == "sym" else (Expr.integer(0) if t[0] == "zero" else Expr.float(t[1]))

    if len(names) == 1:
        d = NormalDistribution.create(names[0], level, 0, ex(codes[0][0]))
    else:
        d = JointNormalDistribution.create(names, level, [0] * len(names), [[ex(c) for c in row] for row in codes])
    _DISTS[key] = d
    return d


def mk_rvs(proj, ren=()):
    from pharmpy.model import RandomVariables

    return RandomVariables.create([mk_dist([vname(x, ren) for x in b["n"]], b["l"], b["c"]) for b in proj])


def rend(expr):
    """real matrix entry -> ('sym', name) | ('zero',) | ('num', v) | ('other', str)"""
    import sympy

    e = sympy.sympify(expr)
    if e.is_Symbol:
        return ("sym", e.name)
    if e.is_number:
        return ("zero",) if e == 0 else ("num", float(e))
    return ("other", str(e))


def project(rvs):
    from pharmpy.model import NormalDistribution

    blocks = []
    for d in rvs:
        names = list(d.names)
        if isinstance(d, NormalDistribution):
            m = [[rend(d.variance)]]
        else:
            v = d.variance
            if (v.rows, v.cols) != (len(names), len(names)):
                raise AssertionError(f"variance of {names} has shape {(v.rows, v.cols)}")
            m = [[rend(v[i, j]) for j in range(len(names))] for i in range(len(names))]
        blocks.append({"names": names, "level": d.level, "m": m})
    cm = rvs.covariance_matrix
    n = len(rvs.names)
    return {
        "names": list(rvs.names),
        "blocks": blocks,
        "cm_shape": [cm.rows, cm.cols],
        "cm": [[rend(cm[i, j]) for j in range(cm.cols)] for i in range(cm.rows)] if (cm.rows, cm.cols) == (n, n) else None,
        "variance_parameters": list(rvs.variance_parameters),
        "parameter_names": list(rvs.parameter_names),
        "nrvs": rvs.nrvs,
        "len": len(rvs),
    }


def same_entry(exp, got):
    if exp[0] != got[0]:
        return False
    if exp[0] == "num":
        return abs(exp[1] - got[1]) <= 1e-12
    return exp == got


def compare(step, proj):
    """step: the spec's expectation {post, ren, orders, zalt}; proj: projection of the real object.
    Returns (outcome, detail) or None."""
    ren = set(step["ren"])
    post = step["post"]
    exp_ids = [x for b in post for x in b["n"]]
    exp_names = {vname(x, ren): x for x in exp_ids}
    if sorted(proj["names"]) != sorted(exp_names) or len(set(proj["names"])) != len(proj["names"]):
        return ("names", f"names {proj['names']} != expected set {sorted(exp_names)}")
    if proj["nrvs"] != len(exp_ids) or proj["len"] != len(proj["blocks"]):
        return ("counts", f"nrvs/len {proj['nrvs']}/{proj['len']}")
    got_ids = [exp_names[n] for n in proj["names"]]
    if [n for b in proj["blocks"] for n in b["names"]] != proj["names"]:
        return ("names", "names is not the concatenation of the distributions' names")
    exp_part = {frozenset(b["n"]): b for b in post}
    got_part = {frozenset(exp_names[n] for n in b["names"]): b for b in proj["blocks"]}
    if set(exp_part) != set(got_part):
        return ("blocks", f"blocks {[sorted(k) for k in got_part]} != expected {[sorted(k) for k in exp_part]}")
    zalt = {frozenset(p) for p in step["zalt"]}
    pair = {}
    for key, eb in exp_part.items():
        gb = got_part[key]
        if gb["level"] != eb["l"]:
            return ("level", f"level of {sorted(key)} is {gb['level']}, expected {eb['l']}")
        for i, a in enumerate(eb["n"]):
            for j, b in enumerate(eb["n"]):
                pair[frozenset((a, b))] = ent_name(eb["c"][i][j])
        ids = [exp_names[n] for n in gb["names"]]
        for i, a in enumerate(ids):
            for j, b in enumerate(ids):
                e, g = pair[frozenset((a, b))], gb["m"][i][j]
                if not same_entry(e, g) and not (frozenset((a, b)) in zalt and g == ("zero",)):
                    what = "variance" if a == b else "covariance"
                    return (what, f"{what} of ({a},{b}) is {g}, expected {e}")
    if [list(o) for o in step["orders"]].count(got_ids) == 0:
        return ("order", f"order {got_ids} not in the admissible set {step['orders']}")
    # overall covariance matrix = block-diagonal composition (in the real name order)
    if proj["cm"] is None:
        return ("covariance_matrix", f"covariance_matrix has shape {proj['cm_shape']}")
    blk = {x: k for k in exp_part for x in k}
    real_pair = {}
    for key, gb in got_part.items():
        ids = [exp_names[n] for n in gb["names"]]
        for i, a in enumerate(ids):
            for j, b in enumerate(ids):
                real_pair[(a, b)] = gb["m"][i][j]
    for i, a in enumerate(got_ids):
        for j, b in enumerate(got_ids):
            e = real_pair[(a, b)] if blk[a] == blk[b] else ("zero",)
            if not same_entry(e, proj["cm"][i][j]):
                return ("covariance_matrix", f"covariance_matrix[{i},{j}] is {proj['cm'][i][j]}, composition gives {e}")
    vp = []
    for x in got_ids:
        e = pair[frozenset((x,))]
        if e[0] == "sym" and e[1] not in vp:
            vp.append(e[1])
    if proj["variance_parameters"] != vp:
        return ("variance_parameters", f"variance_parameters {proj['variance_parameters']} != {vp}")
    pn = sorted({g[1] for gb in proj["blocks"] for row in gb["m"] for g in row if g[0] == "sym"})
    if proj["parameter_names"] != pn:
        return ("parameter_names", f"parameter_names {proj['parameter_names']} != {pn}")
    return None


DOCUMENTED = (ValueError, NotImplementedError)


def apply_op(rvs, op, ren, rng, info):
    """Perform one spec operation on the real object; returns (new rvs, extra)"""
    from pharmpy.basic import Expr
    from pharmpy.model import NormalDistribution, RandomVariables

    kind = op["op"]

    def names_of(S, symbols_ok=True):
        ns = [vname(x, ren) for x in S]
        rng.shuffle(ns)
        style = rng.randrange(3)
        if style == 1:
            return tuple(ns)
        if style == 2 and symbols_ok:
            return [Expr.symbol(n) for n in ns]
        return ns

    if kind == "join":
        S = set(op["S"])
        inds = names_of(op["S"])  # (join rejected symbols before the fix of C11-F3)
        if not isinstance(inds[0], str):
            info["inds"] = "symbols"
        pre_ids = [vid(n) for n in rvs.names]
        fm = op["fill"]
        if fm == "zero":
            new, d = rvs.join(inds)
        elif fm == "sym":
            new, d = rvs.join(inds, fill=Expr.symbol("FILL"))
        elif fm == "num":
            new, d = rvs.join(inds, fill=NUMFILL)
        else:
            new, d = rvs.join(inds, name_template=TEMPLATE, param_names=[f"e{x}" for x in pre_ids if x in S])
        return new, d
    if kind == "unjoin":
        inds = names_of(op["S"])
        if len(inds) == 1 and rng.random() < 0.5:
            inds = inds[0]
        return rvs.unjoin(inds), None
    if kind == "select":
        inds = names_of(op["S"])
        if rng.random() < 0.3:
            inds = set(inds)
        return rvs[inds], None
    if kind == "slice":
        return rvs[op["i"] : op["j"]], None
    if kind == "subs_param":
        t = ent_name(op["e"])
        return rvs.subs({Expr.symbol(t[1]): Expr.symbol("R_" + t[1])}), None
    if kind == "subs_name":
        x = op["x"]
        return rvs.subs({Expr.symbol(f"E{x}"): Expr.symbol(f"X{x}")}), None
    if kind == "concat":
        b = op["d"]
        d = mk_dist([vname(x, ()) for x in b["n"]], b["l"], b["c"])
        how = op["how"]
        if how == "add_dist":
            return rvs + d, None
        if how == "radd_dist":
            return d + rvs, None
        if how == "add_rvs":
            return rvs + RandomVariables.create([d]), None
        return rvs + [d], None
    if kind == "concat_badlevel":
        d = NormalDistribution.create(f"E{op['x']}", "XYZ", 0, Expr.symbol(f"V{op['x']}"))
        try:
            rvs + d
        except ValueError:
            return rvs, "refused"
        return rvs, "accepted"
    raise core.MachineryError(f"unknown op {op}")


def replay_case(arg):
    case, seed = arg
    rng = random.Random(seed)
    hist = case["hist"]
    opsum = [_opkey(h["op"]) for h in hist]
    record = {"part": "algebra", "mode": case.get("mode", "hist"), "ops": opsum, "step": None, "op": None, "fill": None, "outcome": None,
              "seed": seed, "case": case}
    try:
        rvs = mk_rvs(case["init"])
    except Exception as e:  # pragma: no cover
        raise core.MachineryError(f"cannot build initial RandomVariables: {e!r}")
    ren: set = set()
    nsteps = 0
    drift = None
    prev_post = case["init"]
    for k, h in enumerate(hist):
        op = h["op"]
        record.update(step=k, op=op["op"], fill=op.get("fill"), inds="names")
        pre = rvs
        pre_repr = None
        try:
            pre_repr = (tuple(pre.names), hash(pre))
            rvs, extra = apply_op(rvs, op, ren, rng, record)
            proj = project(rvs)
        except core.MachineryError:
            raise
        except Exception as e:
            record["outcome"] = type(e).__name__
            return ("violation", record, f"{op['op']} raised {type(e).__name__}: {str(e)[:160]}", nsteps, drift)
        if (tuple(pre.names), hash(pre)) != pre_repr:
            record["outcome"] = "mutated_argument"
            return ("violation", record, f"{op['op']} changed the object it was called on", nsteps, drift)
        ren = set(h["ren"])
        if op["op"] == "concat_badlevel" and extra != "refused":
            record["outcome"] = "accepted"
            return ("violation", record, "a distribution with a level outside both hierarchies was added", nsteps, drift)
        bad = compare(h, proj)
        if bad is not None:
            record["outcome"] = bad[0]
            return ("violation", record, f"step {k} {_opkey(op)}: {bad[1]}", nsteps, drift)
        if op["op"] == "join" and op["fill"] == "tmpl":
            bad = _join_dict(prev_post, h, op, extra, proj)
            if bad:
                record["outcome"] = "join_dict"
                return ("violation", record, bad, nsteps, drift)
        prev_post = h["post"]
        nsteps += 1
        got_ids = [vid(n) for n in proj["names"]]
        if got_ids != [x for b in h["post"] for x in b["n"]]:
            drift = f"step {k} {_opkey(op)}: admissible order {got_ids} differs from the design layer's"
            break  # later expectations are relative to the design layer's order
    return ("ok", record, None, nsteps, drift)


def _pairs(post):
    out = {}
    for b in post:
        for i, x in enumerate(b["n"]):
            for j, y in enumerate(b["n"]):
                out[frozenset((x, y))] = b["c"][i][j]
    return out


def _join_dict(prev_post, h, op, extra, proj):
    """join(name_template=...) also returns {new covariance parameter: (its two variance parameters)}"""
    before, after = _pairs(prev_post), _pairs(h["post"])
    real_syms = {g[1] for gb in proj["blocks"] for row in gb["m"] for g in row if g[0] == "sym"}
    exp = {}
    for pr, code in after.items():
        if len(pr) == 2 and code.lstrip("R")[0] == "N" and before.get(pr) != code:
            nm = ent_name(code)[1]
            if nm in real_syms:  # (a former structural zero may legitimately have been kept)
                exp[nm] = frozenset(ent_name(after[frozenset((x,))])[1] for x in pr)
    got = {k: frozenset(vv) for k, vv in (extra or {}).items()}
    if got != exp:
        return f"join returned the dictionary {extra}, the new covariance parameters are {({k: sorted(x) for k, x in exp.items()})}"
    return None


def _opkey(op):
    k = op["op"]
    if k in ("join", "unjoin", "select"):
        return f"{k}{sorted(op['S'])}" + (f":{op['fill']}" if k == "join" else "")
    if k == "slice":
        return f"slice[{op['i']}:{op['j']}]"
    if k == "concat":
        return f"concat:{op['how']}:{op['d']['n']}:{op['d']['l']}"
    if k == "subs_param":
        return f"subs:{op['e']}"
    if k == "subs_name":
        return f"subs_name:{op['x']}"
    return f"{k}:{op.get('x')}"


# ----------------------------------------------------------------------------- PSD part

_PSD_CTX: dict = {}


def _pname(i, j):
    i, j = min(i, j), max(i, j)
    return f"OM{i + 1}" if i == j else f"OM{i + 1}{j + 1}"


def _psd_ctx(n, variant, separate=False):
    """symbolic structure (built once per size / variant): the block under test, optionally between a
    single eta and a valid 2x2 block whose inits must never change.  separate=True: the same variables as
    independent univariate distributions (the covariance parameters exist but are not used yet)"""
    key = (n, variant, separate)
    if key in _PSD_CTX:
        return _PSD_CTX[key]
    from pharmpy.basic import Expr
    from pharmpy.model import JointNormalDistribution, NormalDistribution, RandomVariables

    S = Expr.symbol
    level = "RUV" if variant == "ruv" else "IIV"
    names = [f"ETA{i + 1}" for i in range(n)]
    if n == 1:
        dists = [NormalDistribution.create(names[0], level, 0, S(_pname(0, 0)))]
    elif separate:
        dists = [NormalDistribution.create(names[i], level, 0, S(_pname(i, i))) for i in range(n)]
    else:
        dists = [JointNormalDistribution.create(names, level, [0] * n, [[S(_pname(i, j)) for j in range(n)] for i in range(n)])]
    if variant in ("embedded", "ucp"):
        pre = NormalDistribution.create("ETAP", "IIV", 0, S("OMP"))
        post = JointNormalDistribution.create(["ETAQ1", "ETAQ2"], "IIV" if variant == "embedded" else "RUV", [0, 0], [[S("OQ1"), S("OQ12")], [S("OQ12"), S("OQ2")]])
        dists = [pre] + dists + [post]
    _PSD_CTX[key] = RandomVariables.create(dists)
    return _PSD_CTX[key]


OTHERS = {"OMP": 0.5, "OQ1": 2.0, "OQ12": 1.0, "OQ2": 2.0, "TH1": 1.5}


def _params(n, A, variant):
    from pharmpy.model import Parameter, Parameters

    ps = [Parameter.create("TH1", OTHERS["TH1"], lower=0.0, upper=10.0)]
    if variant in ("embedded", "ucp"):
        ps.append(Parameter.create("OMP", OTHERS["OMP"]))
    for i in range(n):
        for j in range(i + 1):
            ps.append(Parameter.create(_pname(i, j), A[i][j]))
    if variant in ("embedded", "ucp"):
        ps += [Parameter.create(k, OTHERS[k]) for k in ("OQ1", "OQ12", "OQ2")]
    return Parameters.create(ps)


def _mat(n, t):
    A = [[0] * n for _ in range(n)]
    k = 0
    for i in range(n):
        for j in range(i + 1):
            A[i][j] = A[j][i] = t[k]
            k += 1
    return A


def psd_case(arg):
    case, variant, how = arg
    import numpy as np

    from pharmpy.model import Model

    n, cls = case["n"], case["cls"]
    unit = 1.0  # size of the entries: tolerances of the auxiliary checks are relative to it
    if "a" in case:
        # near-singular family of PSD.tla (mode ns): [[a*a, a*b], [a*b, b*b]] * 1e-2, last entry -/+ 1e-7
        a, b = case["a"], case["b"]
        A = [[a * a * 1e-2, a * b * 1e-2], [a * b * 1e-2, b * b * 1e-2 + (-1e-7 if case["dir"] == "minus" else 1e-7)]]
        t = [A[0][0], A[1][0], A[1][1]]
        unit = 1e-2
    else:
        t = case["t"]
        A = _mat(n, t)
        if case.get("scale"):
            # the same matrix in small units (definiteness does not depend on a positive factor)
            unit = 10.0 ** (-case["scale"])
            A = [[v * unit for v in row] for row in A]
    record = {"part": "psd", "n": n, "t": t, "cls": cls, "variant": variant, "how": how, "scale": case.get("scale", 0),
              "family": "near_singular" if "a" in case else "integer", "outcome": None, "case": case}
    rvs = _psd_ctx(n, variant)
    try:
        params = _params(n, A, variant)
        if how == "create":
            model = Model.create(name="m", parameters=params, random_variables=rvs)
        elif how == "replace_rvs":
            # the variables are independent first (any variances, the covariance parameters are unused), then the
            # block structure is replaced WITHOUT passing parameters: the estimates must be validated against it
            sep = Model.create(name="m", parameters=params, random_variables=_psd_ctx(n, variant, separate=True))
            model = sep.replace(random_variables=rvs)
        else:
            ident = _params(n, [[1 if i == j else 0 for j in range(n)] for i in range(n)], variant)
            model = Model.create(name="m", parameters=ident, random_variables=rvs).replace(parameters=params)
        inits = model.parameters.inits
        B = [[float(inits[_pname(i, j)]) for j in range(n)] for i in range(n)]
        again = model.replace(parameters=model.parameters).parameters.inits
        again2 = Model.create(name="m2", parameters=model.parameters, random_variables=rvs).parameters.inits
    except Exception as e:
        record["outcome"] = type(e).__name__
        return ("violation", record, f"Model.{how} raised {type(e).__name__}: {str(e)[:160]}", 0)
    others_changed = [k for k, v in OTHERS.items() if k in inits and inits[k] != v]
    if others_changed:
        record["outcome"] = "other_parameters_changed"
        return ("violation", record, f"initial estimates of parameters outside the block changed: {others_changed}", 0)
    dev = max(abs(B[i][j] - A[i][j]) for i in range(n) for j in range(n))
    aux = 0
    if cls != "indef":
        if dev == 0:
            return ("ok", record, None, aux)
        record["outcome"] = "valid_altered_tiny" if dev <= 1e-9 * unit else "valid_altered"
        return ("violation", record, f"positive semidefinite initial estimates {A} were altered (max change {dev:.3g}) to {B}", aux)
    # not PSD: must have been replaced by a PSD matrix that the repair leaves alone
    if dev == 0:
        record["outcome"] = "invalid_kept"
        return ("violation", record, f"initial estimates {A} are not positive semidefinite but were kept (validate_parameters says {rvs.validate_parameters(inits)})", aux)
    if not rvs.validate_parameters(inits):
        record["outcome"] = "repaired_rejected_by_validate"
        return ("violation", record, f"the initial estimates {B} of the model are rejected by its own validate_parameters", aux)
    aux += 1
    ev = float(np.linalg.eigvalsh(np.array(B)).min())
    if not ev >= -1e-10 * unit:
        record["outcome"] = "repaired_not_psd"
        return ("violation", record, f"repaired initial estimates {B} are not positive semidefinite (min eigenvalue {ev:.3g})", aux)
    for nm, ag in (("replace", again), ("create", again2)):
        d2 = max(abs(float(ag[_pname(i, j)]) - B[i][j]) for i in range(n) for j in range(n))
        if d2 > 1e-9 * unit:
            record["outcome"] = "repair_not_fixed_point"
            return ("violation", record, f"repair is not idempotent: Model.{nm} with the repaired estimates changes them again by {d2:.3g}", aux)
    return ("ok", record, None, aux)


def sd_case(case):
    """sd/corr conversions against TLC's exact rationals (auxiliary float assertions, 1e-12)"""
    import numpy as np
    import pandas as pd

    from pharmpy.internals.math import corr2cov, cov2corr
    from pharmpy.modeling import calculate_corr_from_cov, calculate_cov_from_corrse, calculate_se_from_cov

    n, t = case["n"], case["t"]
    A = _mat(n, t)
    record = {"part": "sdcorr", "n": n, "t": t, "outcome": None, "case": case}
    exp_corr = [[case["corr"][i][j][0] / case["corr"][i][j][1] for j in range(n)] for i in range(n)]
    sd = case["sd"]
    tol = 1e-12
    try:
        rvs = _psd_ctx(n, "plain")
        values = {_pname(i, j): float(A[i][j]) for i in range(n) for j in range(i + 1)}
        values["TH1"] = 1.5
        out = rvs.parameters_sdcorr(values)
        for i in range(n):
            for j in range(i + 1):
                e = sd[i] if i == j else exp_corr[i][j]
                if abs(float(out[_pname(i, j)]) - e) > tol:
                    record["outcome"] = "parameters_sdcorr"
                    return ("violation", record, f"parameters_sdcorr({A}) gives {_pname(i, j)}={out[_pname(i, j)]}, exact value {e}")
        if out["TH1"] != 1.5:
            record["outcome"] = "parameters_sdcorr_other"
            return ("violation", record, "parameters_sdcorr changed a parameter that is no variance")
        An = np.array(A, dtype=float)
        C = cov2corr(An.copy())
        if np.abs(C - np.array(exp_corr)).max() > tol:
            record["outcome"] = "cov2corr"
            return ("violation", record, f"cov2corr({A}) = {C.tolist()}, exact {exp_corr}")
        back = corr2cov(C, np.array(sd, dtype=float))
        if np.abs(back - An).max() > tol * 10:
            record["outcome"] = "corr2cov"
            return ("violation", record, f"corr2cov(cov2corr(A), sd) = {back.tolist()} != A = {A}")
        idx = [f"p{i}" for i in range(n)]
        df = pd.DataFrame(An, index=idx, columns=idx)
        se = calculate_se_from_cov(df)
        cdf = calculate_corr_from_cov(df)
        back2 = calculate_cov_from_corrse(cdf, se)
        if np.abs(se.values - np.array(sd)).max() > tol or np.abs(cdf.values - np.array(exp_corr)).max() > tol or np.abs(back2.values - An).max() > tol * 10:
            record["outcome"] = "modeling_math"
            return ("violation", record, f"calculate_se/corr_from_cov / cov_from_corrse disagree with the exact values for {A}")
        if list(back2.index) != idx or list(cdf.columns) != idx:
            record["outcome"] = "modeling_math_labels"
            return ("violation", record, "labels lost in calculate_*")
    except Exception as e:
        record["outcome"] = type(e).__name__
        return ("violation", record, f"sd/corr conversion raised {type(e).__name__}: {str(e)[:160]}")
    return ("ok", record, None)


THETA_CLASSES = {
    # class of PSD.tla -> (init, lower, upper, fix)
    "lb0": (1.5, 0.0, None, False),
    "interval": (1.2, 0.5, 2.0, False),
    "neglb": (0.75, -0.99, 5.0, False),
    "unbounded": (-0.3, None, None, False),
    "fixed": (2.0, None, None, True),
}


def ucp_case(arg):
    """from_ucp(scale(model), 0.1) == inits(model) (float statement, 1e-8 relative), for thetas of every bound class
    TLC enumerates and a positive definite omega block.  First with the UCP of an off-diagonal element carrying the
    sign of its Cholesky factor entry (every parameter judged), then literally with 0.1 everywhere."""
    import numpy as np

    from pharmpy.model import Model, Parameter, Parameters
    from pharmpy.modeling import calculate_parameters_from_ucp, calculate_ucp_scale

    case, th = arg
    n, t = case["n"], case["t"]
    A = _mat(n, t)
    record = {"part": "ucp", "n": n, "t": t, "thetas": th["classes"], "ucp": "signed", "negchol": False, "outcome": None, "case": case, "th": th}
    try:
        rvs = _psd_ctx(n, "ucp")
        base = [p for p in _params(n, A, "ucp") if p.name != "TH1"]
        thetas = []
        for k, cl in enumerate(th["classes"], start=1):
            init, lo, up, fix = THETA_CLASSES[cl]
            kw = {}
            if lo is not None:
                kw["lower"] = lo
            if up is not None:
                kw["upper"] = up
            thetas.append(Parameter.create(f"TH{k}", init, fix=fix, **kw))
        model = Model.create(name="m", parameters=Parameters.create(thetas + base), random_variables=rvs)
        scale = calculate_ucp_scale(model)
        L = np.linalg.cholesky(np.array(A, dtype=float))
        inits = model.parameters.inits
        free = [p.name for p in model.parameters if not p.fix]
        neg = [_pname(i, j) for i in range(n) for j in range(i) if L[i][j] < 0]
        for mode in ("signed", "literal"):
            ucps = {p: 0.1 for p in free}
            if mode == "signed":
                for p in neg:
                    ucps[p] = -0.1
            elif not neg:
                break
            out = calculate_parameters_from_ucp(model, scale, ucps)
            for k in free:
                v = inits[k]
                if abs(float(out[k]) - v) > 1e-8 * max(1.0, abs(v)):
                    record.update(outcome="ucp_roundtrip", ucp=mode, negchol=k in neg)
                    what = f"from_ucp(scale(model), 0.1) gives {k}={float(out[k])}, initial estimate {v} (thetas {th['classes']}, omega {A}"
                    return ("violation", record, what + (", ucp of negative Cholesky entries -0.1)" if mode == "signed" else ", all ucps 0.1)"))
    except Exception as e:
        record["outcome"] = type(e).__name__
        return ("violation", record, f"ucp round trip raised {type(e).__name__}: {str(e)[:160]}")
    return ("ok", record, None)


_SH_CTX: dict = {}


def sh_case(case):
    """parameters_sdcorr on a collection in which ONE variance parameter is used by several distributions (IOV):
    every parameter is converted once (TLC's exact values), and sd**2 / corr*sd*sd gives the variances back"""
    from pharmpy.basic import Expr
    from pharmpy.model import JointNormalDistribution, NormalDistribution, RandomVariables

    S = Expr.symbol
    k, share = case["k"], case["share"]
    record = {"part": "sdcorr_shared", "k": k, "share": share, "t": case["t"], "v": case["v"], "outcome": None, "case": case}
    try:
        key = (k, share)
        if key not in _SH_CTX:
            blk = JointNormalDistribution.create(["ETA1", "ETA2"], "IIV", [0, 0], [[S("OM1"), S("OM21")], [S("OM21"), S("OM2")]])
            shared = S("OMS") if share == "own" else S("OM1")
            occ = [NormalDistribution.create(f"IOV{i}", "IOV", 0, shared) for i in range(1, k + 1)]
            order = [blk] + occ if k % 2 else occ + [blk]
            _SH_CTX[key] = RandomVariables.create(order)
        rvs = _SH_CTX[key]
        t = case["t"]
        values = {"OM1": float(t[0]), "OM21": float(t[1]), "OM2": float(t[2]), "TH1": 1.5}
        exp = {"OM1": case["sd"][0], "OM2": case["sd"][1], "OM21": case["corr"][1][0][0] / case["corr"][1][0][1], "TH1": 1.5}
        if share == "own":
            values["OMS"] = float(case["v"])
            exp["OMS"] = case["sv"]
        orig = dict(values)
        out = rvs.parameters_sdcorr(values)
        if values != orig:
            record["outcome"] = "argument_changed"
            return ("violation", record, "parameters_sdcorr changed its argument")
        for name, e in exp.items():
            if abs(float(out[name]) - e) > 1e-12:
                record["outcome"] = "parameters_sdcorr"
                return ("violation", record, f"parameters_sdcorr gives {name}={float(out[name])!r}, exact value {e} (variance {orig[name]}, the parameter is the variance of "
                        f"{'the block and ' if share == 'block' and name == 'OM1' else ''}{k if name in ('OMS', 'OM1') else 0} univariate distribution(s))")
        back = {"OM1": out["OM1"] ** 2, "OM2": out["OM2"] ** 2, "OM21": out["OM21"] * out["OM1"] * out["OM2"]}
        if share == "own":
            back["OMS"] = out["OMS"] ** 2
        for name, b in back.items():
            if abs(b - orig[name]) > 1e-12 * max(1.0, abs(orig[name])):
                record["outcome"] = "sdcorr_not_inverse"
                return ("violation", record, f"sd/corr -> var/cov gives {name}={b}, started from {orig[name]}")
    except Exception as e:
        record["outcome"] = type(e).__name__
        return ("violation", record, f"parameters_sdcorr raised {type(e).__name__}: {str(e)[:160]}")
    return ("ok", record, None)


# ----------------------------------------------------------------------------- main


_T0 = time.time()


def _t(msg):
    if os.environ.get("VERIF_DEBUG"):
        print(f"[c11 {time.time() - _T0:6.1f}s] {msg}", file=sys.stderr)


def _check_tlc(res, what, allow=()):
    _t(f"{what}: TLC done, wall {res.wall:.1f}s, {res.distinct} states")
    core.require_ok(res, what)
    if res.violated:
        raise core.MachineryError(f"{what}: design-level invariant {res.violated} violated:\n" + "\n".join(res.trace[-2:])[:3000])


def main(tier: str, seed: int) -> int:
    v = core.Verdict("C11", tier, seed)
    v.add_coverage(
        rule="a history = initial block structure + op sequence (all of them within the bounds of each run, distinct by construction); "
        "non-trivial = contains a join/unjoin/select; the projection is compared after every step",
        exhaustive=True,
    )
    v.assumptions = [
        "blocks are built with the public constructors (NormalDistribution.create / JointNormalDistribution.create) with symbolic entries and zero means",
        "a join with fill/name_template may either keep a structural zero inside a former block or fill it (docstring vs property): both admitted",
        "float clauses (nearest-ness of the Higham repair, UCP round trip, sd/corr) are auxiliary assertions, not decided by TLC",
    ]
    d = core.scratch("c11")
    rng = random.Random(seed)
    try:
        with ThreadPoolExecutor(max_workers=6) as ex:
            # concurrent TLC runs (TLC does not scale beyond a few workers on these models); staggered
            # starts because core.scratch names the metadir by pid + millisecond
            def later(delay, fn, *a, **kw):
                time.sleep(delay)
                return fn(*a, **kw)

            th = tier == "thorough"
            f_psd = ex.submit(_tlc_psd, 900)
            f_hists = [ex.submit(later, 0.2 + 0.2 * i, _tlc_hist, d, h, 3000, workers=6, idx=i) for i, h in enumerate(HIST[tier])]
            f_graphs = [ex.submit(later, 1.2 + 0.2 * i, _tlc_graph, d, g, i, 6000, workers=6 if th else 5) for i, g in enumerate(GRAPH[tier])]
            f_sim = None
            if th:
                f_sim = ex.submit(later, 2.0, _tlc_hist, d, SIM[tier], 3000, f"num={SIM_TRACES}", 8, seed, workers=4)
            core.use_repo()
            import pharmpy.model  # noqa: F401
            import pharmpy.modeling  # noqa: F401

            # ---- PSD part
            res = f_psd.result()
            _check_tlc(res, "PSD.tla")
            core.tlc_stats_into(v, res)
            mats = [c for tag, c in res.prints if tag == "MAT"]
            sds = [c for tag, c in res.prints if tag == "SD"]
            classes = {c["cls"] for c in mats}
            if classes != {"pd", "psd0", "indef"} or not sds:
                raise core.MachineryError(f"PSD.tla emitted classes {classes}, {len(sds)} sd cases (vacuous)")
            shs = [c for tag, c in res.prints if tag == "SH"]
            ths = [c for tag, c in res.prints if tag == "TH"]
            if not shs or {tuple(c["classes"]) for c in ths} < {("interval",), ("neglb",), ("unbounded",)} or {c["share"] for c in shs} != {"own", "block"}:
                raise core.MachineryError(f"PSD.tla: {len(shs)} shared-variance cases, {len(ths)} theta class sequences (vacuous)")
            rng.shuffle(shs)
            nss = [c for tag, c in res.prints if tag == "NS"]
            if {c["cls"] for c in nss} != {"indef", "pd"}:
                raise core.MachineryError(f"PSD.tla: near-singular family has classes {set(c['cls'] for c in nss)}")
            _run_psd(v, tier, rng, mats, sds, shs, ths, nss)

            # ---- histories
            kinds = set()
            for h, f in zip(HIST[tier], f_hists):
                res = f.result()
                _check_tlc(res, f"RandVars.tla history mode N={h[0]} MaxOps={h[1]}")
                core.tlc_stats_into(v, res)
                cases = [c for tag, c in res.prints if tag == "CASE"]
                res.out, res.prints = "", []
                kinds |= _run_hist(v, tier, rng, cases, f"N={h[0]} ops<={h[1]} fills={h[2]} patterns={h[3]} inits={h[5]}" + (f" ops={h[4]}" if h[4] else ""), h[6])
            if f_sim is not None:
                rs = f_sim.result()
                core.require_ok(rs, "RandVars.tla simulation")
                if rs.violated:
                    raise core.MachineryError(f"RandVars.tla simulation: {rs.violated}")
                seen, sim = set(), []
                for tag, c in rs.prints:  # (the simulator evaluates the invariant more than once per trace)
                    key = json.dumps(c, sort_keys=True)
                    if tag == "CASE" and key not in seen:
                        seen.add(key)
                        sim.append(dict(c, mode="sim"))
                rs.out, rs.prints = "", []
                v.add_coverage(simulated_histories=len(sim), transitions=rs.generated)
                kinds |= _run_hist(v, tier, rng, sim, f"random histories of 6 operations, N=5 (-simulate num={SIM_TRACES}, distinct ones)")
            need = {"join", "unjoin", "select", "slice", "subs_param", "subs_name", "concat", "concat_badlevel"}
            if not need <= kinds:
                raise core.MachineryError(f"history cases lack operations {need - kinds} (vacuous)")

            # ---- graph mode (design |= property on every transition, block-diagonality, confluence)
            graphs = []
            for g, f in zip(GRAPH[tier], f_graphs):
                r = f.result()
                _check_tlc(r, f"RandVars.tla graph N={g[0]}")
                if r.distinct < 100 or r.generated <= r.distinct:
                    raise core.MachineryError(f"RandVars.tla graph N={g[0]}: only {r.distinct} states")
                core.tlc_stats_into(v, r)
                graphs.append({"N": g[0], "fills": g[1], "level_patterns": g[2], "ops": g[4], "inits": g[5], "states": r.distinct, "transitions": r.generated, "depth": r.depth, "wall_s": round(r.wall, 1)})
            v.add_coverage(graph_runs=graphs)
    finally:
        shutil.rmtree(d, ignore_errors=True)
    return v.finish(min_traces=1000)


def _run_hist(v, tier, rng, cases, label, budget=None):
    if not cases:
        raise core.MachineryError(f"RandVars.tla emitted no cases ({label})")
    kinds = {h["op"]["op"] for c in cases for h in c["hist"]}
    rng.shuffle(cases)
    emitted = len(cases)
    if budget is not None and len(cases) > budget:
        cases = cases[:budget]  # quick tier: a VERIF_SEED-chosen sample of the enumerated histories is replayed
        v.add_coverage(exhaustive=False)
    work = [(c, rng.randrange(1 << 30)) for c in cases]
    # build every distribution once in the parent (symbolic .create is slow), children inherit the cache
    for c, _ in work:
        mk_rvs(c["init"])
        for h in c["hist"]:
            if h["op"]["op"] == "concat":
                b = h["op"]["d"]
                mk_dist([vname(x, ()) for x in b["n"]], b["l"], b["c"])
    _t(f"hist {label}: {len(work)} histories, distributions built")
    results = core.pmap(replay_case, work, procs=16, chunk=256)
    _t("hist: replayed")
    steps = 0
    drifts = 0
    nontrivial = 0
    for (status, record, what, nsteps, drift), (c, _) in zip(results, work):
        steps += nsteps
        if drift:
            drifts += 1
            if drifts <= 3:
                v.notes.append("drift: " + drift)
        if status == "violation":
            v.violation(record, what)
        if any(h["op"]["op"] in ("join", "unjoin", "select") for h in c["hist"]):
            nontrivial += 1
    v.add_coverage(
        histories_replayed=len(work),
        evaluations=steps,
        distinct_nontrivial=nontrivial,
        traces_validated_against_impl=len(work),
        drift_cases=drifts,
        history_runs=[{"bounds": label, "histories_enumerated_by_tlc": emitted, "histories_replayed": len(work), "steps_compared": steps}],
        samples=[{"init": [b["n"] for b in c["init"]], "ops": [_opkey(h["op"]) for h in c["hist"]], "orders_last": c["hist"][-1]["orders"]} for c, _ in work[:2]],
    )
    return kinds


def _run_psd(v, tier, rng, mats, sds, shs, ths, nss):
    small = [m for m in mats if m["n"] < 3]
    big = [m for m in mats if m["n"] == 3]
    valid3 = [m for m in big if m["cls"] != "indef"]
    indef3 = [m for m in big if m["cls"] == "indef"]
    rng.shuffle(indef3)
    if tier == "quick":
        indef3 = indef3[:6000]
    work = []
    for m in small + valid3:
        for variant in ("plain", "embedded", "ruv"):
            for how in ("create", "replace", "replace_rvs"):
                if how != "replace_rvs" or m["n"] > 1:
                    work.append((m, variant, how))
    for m in indef3:
        work.append((m, rng.choice(("plain", "embedded", "ruv")), rng.choice(("create", "replace", "replace_rvs"))))
    # scaled families: every class in small units (1e-5 ... 1e-9), and the near-singular family of PSD.tla
    hows = ("create", "replace", "replace_rvs")
    pool = [m for m in mats if m["n"] > 1 and m["cls"] == "indef"]
    rng.shuffle(pool)
    nscaled = len(pool) if tier == "thorough" else 1500
    for i, m in enumerate(pool[:nscaled]):
        work.append((dict(m, scale=(5, 7, 8, 9)[i % 4]), rng.choice(("plain", "embedded", "ruv")), hows[i % 3]))
    for i, m in enumerate([m for m in mats if m["n"] > 1 and m["cls"] != "indef"]):
        work.append((dict(m, scale=(5, 7, 8, 9)[i % 4]), ("plain", "embedded", "ruv")[i % 3], hows[(i // 3) % 3]))
    for m in nss:
        for variant in ("plain", "embedded"):
            for how in hows:
                work.append((m, variant, how))
    for n in (1, 2, 3):
        for variant in ("plain", "embedded", "ruv", "ucp"):
            _psd_ctx(n, variant)
            _psd_ctx(n, variant, separate=True)
    _t("psd contexts built")
    results = core.pmap(psd_case, work, procs=16, chunk=128)
    _t(f"psd: {len(work)} models done")
    aux = 0
    for status, record, what, a in results:
        aux += a
        if status == "violation":
            v.violation(record, what)
    sdw = sds if tier == "thorough" else sds[:1500]
    for status, record, what in core.pmap(sd_case, sdw, procs=16, chunk=64):
        aux += 1
        if status == "violation":
            v.violation(record, what)
    pd_ = [m for m in mats if m["cls"] == "pd"]
    rng.shuffle(pd_)
    ucw = pd_ if tier == "thorough" else pd_[:400]
    rng.shuffle(ths)
    ucw = [(m, ths[i % len(ths)]) for i, m in enumerate(ucw)]  # every theta bound class sequence of TLC at least once
    if len(ucw) < len(ths):
        ucw += [(pd_[i % len(pd_)], ths[i]) for i in range(len(ucw), len(ths))]
    shw = shs if tier == "thorough" else shs[:600]
    for status, record, what in core.pmap(sh_case, shw, procs=16, chunk=64):
        aux += 1
        if status == "violation":
            v.violation(record, what)
    for status, record, what in core.pmap(ucp_case, ucw, procs=16, chunk=32):
        aux += 1
        if status == "violation":
            v.violation(record, what)
    v.add_coverage(
        psd_matrices_emitted=len(mats),
        psd_models_checked=len(work),
        psd_near_singular_matrices=len(nss),
        psd_valid_matrices=len([m for m in mats if m["cls"] != "indef"]),
        sdcorr_cases=len(sdw),
        sdcorr_shared_variance_cases=len(shw),
        theta_bound_class_sequences=len(ths),
        ucp_cases=len(ucw),
        aux_numeric_checked=aux,
        traces_validated_against_impl=len(work),
    )


def replay(path: str) -> int:
    core.use_repo()
    import pharmpy.model  # noqa: F401

    data = json.loads(open(path).read())
    rec = data["case"]
    part = rec.get("part")
    if part == "algebra":
        out = replay_case((rec["case"], rec["seed"]))
    elif part == "psd":
        out = psd_case((rec["case"], rec["variant"], rec["how"]))
    elif part == "sdcorr":
        out = sd_case(rec["case"])
    elif part == "ucp":
        out = ucp_case((rec["case"], rec["th"]))
    elif part == "sdcorr_shared":
        out = sh_case(rec["case"])
    else:
        print(f"unknown replay record {part}")
        return 2
    print(f"recorded: {data['what']}")
    if out[0] == "violation":
        print(f"reproduced: outcome={out[1]['outcome']}: {out[2]}")
        return 1
    print("not reproduced: the case passes now")
    return 0
