"""C07 - Refactorings and pharmpy's own evaluators preserve the model function.

spec -> code : TLC explores spec/features/Preserve.tla: structural setters, extensions and parameter edits
               interleaved with the preserving refactorings and the extractors at every position; every history
               ending in a Preserving / Observe step is a CASE.
code -> spec : the driver executes the histories on the real functions and logs, per step, the fingerprint
               (exact rational probe values of every assigned variable and of the ODE system, harness/qeval.py)
               before and after, the renaming the action declares, and for extractors the pair (direct probe
               evaluation of the model, value of the returned expression).  TLC (PreserveTrace.tla) re-runs the
               machine on the logged tokens and accepts a Preserving step iff fp' = Rename(fp, renaming).
Finite differences and the numeric evaluate_* functions are float-only clauses (DESIGN section 5): auxiliary
assertions, reported separately (aux_numeric_checked).
"""
from __future__ import annotations

import json
import math
import random
import shutil
import signal
import threading
import time
from fractions import Fraction

from . import core
from . import c09_probe as P
from . import qeval
from .c09_probe import fr, qj
from .qeval import ONE, ZERO, Evaluator, Q, Undef, name_value

SPEC = core.SPEC / "features"
REFUSALS = ("ValueError", "NotImplementedError", "ModelError", "ModelSyntaxError")
PRED = """$PROBLEM base
$INPUT ID TIME DV WGT
$DATA @DATA@ IGNORE=@
$PRED
CL = THETA(1)*EXP(ETA(1))
V = THETA(2)
KA = THETA(3)
IF (WGT.GT.70) V = V*THETA(4)
F1 = KA*EXP(-CL/V*TIME)
Y = F1 + F1*EPS(1)
$THETA (0,1)
$THETA (0,2)
$THETA (0,3)
$THETA (0,1.5)
$OMEGA 0.1
$SIGMA 0.01
$ESTIMATION METHOD=1 INTER
"""
FLAG = """$PROBLEM covariate flag with explicit zero branch
$DATA @DATA@ IGNORE=@
$INPUT ID TIME AMT WGT APGR DV FA1 FA2
$PRED
TVCL = THETA(1)*WGT
TVV = THETA(2)*WGT
SC = THETA(3)
FLAG = 1
IF (APGR.LT.5) THEN
    FLAG = THETA(4)
ELSE
    FLAG = 0
END IF
CL = TVCL*EXP(ETA(1))
V = TVV*EXP(ETA(2))*(1 + FLAG)
F = 25/V*EXP(-CL/V*TIME)*SC
Y = F + F*EPS(1)
$THETA (0,0.005) ; POP_CL
$THETA (0,1.3) ; POP_V
$THETA 2 FIX ; SCALE
$THETA (0,0.3) ; COVAPGR
$OMEGA 0.03
$OMEGA 0.02
$SIGMA 0.01
$ESTIMATION METHOD=1 INTERACTION
"""
ALL_ACTS = ["S:IVORAL", "D:FIXVAR1", "X:REDEF", "X:ADDIIV", "S:FO", "S:PER", "S:TR", "S:LAG", "S:ZOE", "S:MM", "X:COVLIN", "X:COVCAT", "X:COVPW", "X:IOV", "X:BOXCOX",
            "X:COMB", "X:IIVRUV", "X:POWER", "X:TV", "D:FIXTH", "D:ZEROOM", "P:MU", "P:DECL", "P:CLEAN", "P:SIMP", "P:GREEK",
            "P:RENAME", "P:SOLVE", "P:GENERIC", "P:NONMEM", "P:UNLOAD", "P:LOAD", "P:UNUSED", "P:JOINT", "P:SPLIT", "P:FIXED",
            "P:NONRANDOM", "O:OBS", "O:IPRED", "O:PRED", "O:ETAGRAD", "O:EPSGRAD", "O:EVAL"]

_MODELS = {}


def start_model(name):
    if name not in _MODELS:
        from pharmpy.modeling import load_example_model, read_model

        if name == "pheno":
            _MODELS[name] = load_example_model("pheno")
        elif name == "linear":
            _MODELS[name] = load_example_model("pheno_linear")
        elif name == "flag":
            from pharmpy.modeling import read_model_from_string

            m = read_model_from_string(FLAG.replace("@DATA@", str(core.REPO / "tests/testdata/nonmem/pheno.dta")))
            m.dataset
            _MODELS[name] = m
        elif name == "pred":
            from pharmpy.modeling import read_model_from_string

            m = read_model_from_string(PRED.replace("@DATA@", str(core.VERIF / "harness" / "corpus_c07_pred.csv")))
            m.dataset  # load once in the parent
            _MODELS[name] = m
        else:
            _MODELS[name] = read_model(core.REPO / "tests/testdata/nonmem/models/mox2.mod")
    return _MODELS[name]


class Timeout(Exception):
    pass


def _alarm(*a):
    raise Timeout()


# ----------------------------------------------------------------------------- probe points and fingerprints


def probe(model, salt, etas="small", eps="small"):
    """probe point of a model: values by symbol name; a fixed parameter sits at its value, an eta whose variance is
    fixed to zero is zero, a parameter with a non-positive upper bound is negative (simplify_expression uses the bounds)"""
    env = qeval.probe_env(model, salt, etas, eps)
    for p in model.parameters:
        if p.fix:
            env[p.name] = fr(p.init)
        elif p.upper <= 0 and env[p.name].is_rat and env[p.name].rat > 0:
            env[p.name] = -env[p.name]
    rvs = model.random_variables
    for dist in rvs:
        for i, n in enumerate(dist.names):
            try:
                var = dist.variance if len(dist.names) == 1 else dist.variance[i, i]
                vn = str(var)
                if vn in model.parameters.names and model.parameters[vn].fix and model.parameters[vn].init == 0:
                    env[n] = ZERO
            except Exception:  # noqa: BLE001
                pass
    return env


def flat(model, env, amounts=None):
    v, ode = P.run(model, env, amounts)
    out = {k: qj(x) for k, x in v.items()}
    # the data columns and parameters the statements read belong to the model function's domain: a column must stay
    # a column, a parameter must stay a parameter or become an assigned constant (replace_fixed_thetas)
    try:
        cols = set(model.datainfo.names)
        pars = set(model.parameters.names)
        for sym in model.statements.free_symbols:
            if str(sym) in cols:
                out[f"col:{sym}"] = [1, 1]
            if str(sym) in pars:
                out[f"par:{sym}"] = [1, 1]
        for n in v:
            out.setdefault(f"par:{n}", [1, 1])
    except Exception:  # noqa: BLE001
        pass
    if ode:
        for (a, b), val in ode["flows"].items():
            out[f"flow:{a}>{b}"] = qj(val)
        for cname, c in ode["comps"].items():
            out[f"lag:{cname}"] = qj(c["lag"])
            out[f"bio:{cname}"] = qj(c["bio"])
            for i, d in enumerate(c["doses"]):
                out[f"dose:{cname}:{i}:{d['class']}"] = qj(d["amount"])
                if d.get("duration") is not None:
                    out[f"dur:{cname}:{i}"] = qj(d["duration"])
                if d.get("rate") is not None:
                    out[f"rate:{cname}:{i}"] = qj(d["rate"])
    return out


def yname(model):
    return str(list(model.dependent_variables.keys())[0])


def declared_renaming(m1, m2, given=None, positional=False):
    """old name -> new name: the mapping given to rename_symbols, or (greekify_model: theta_i / eta_i / epsilon_i /
    omega_ij / sigma_ij by position) the positional correspondence of parameters and random variables"""
    ren = {}
    if positional and len(m1.parameters) == len(m2.parameters) and len(m1.random_variables.names) == len(m2.random_variables.names):
        for a, b in zip(m1.parameters.names, m2.parameters.names):
            if a != b:
                ren[a] = b
        for a, b in zip(m1.random_variables.names, m2.random_variables.names):
            if a != b:
                ren[a] = b
    if given:
        ren.update(given)
    return ren


def branch_overrides(model, limit=2):
    """probe points on both sides of the conditions of conditional statements: for a Piecewise condition that
    compares a data column with a number, the column at number + 1 and number - 1"""
    import sympy
    from pharmpy.model import Assignment

    out, seen = [], set()
    try:
        cols = set(model.datainfo.names)
    except Exception:  # noqa: BLE001
        return out
    for s in model.statements:
        if not isinstance(s, Assignment):
            continue
        e = qeval._sp(s.expression)
        for pw in e.atoms(sympy.Piecewise):
            for _, cond in pw.args:
                for rel in (cond.atoms(sympy.core.relational.Relational) if hasattr(cond, "atoms") else []):
                    a, b = rel.lhs, rel.rhs
                    if b.is_Symbol and a.is_number:
                        a, b = b, a
                    if a.is_Symbol and a.name in cols and b.is_number and (a.name, b) not in seen:
                        seen.add((a.name, b))
                        c = Fraction(str(sympy.nsimplify(b, rational=True)))
                        out.append({a.name: c + 1})
                        out.append({a.name: c - 1})
    return out[: 2 * limit]


def reread_of(m2):
    """the model read back from the code generated for m2, if it can be compared by name; else None"""
    try:
        if "nonmem" not in type(m2).__module__ or m2.statements.ode_system is not None:
            return None
        from pharmpy.modeling import read_model_from_string

        r = read_model_from_string(m2.code)
        if set(r.parameters.names) != set(m2.parameters.names) or set(r.random_variables.names) != set(m2.random_variables.names):
            return None
        return r
    except Exception:  # noqa: BLE001
        return None


def fp_event(m1, m2, salts, ren=None, amounts_from_after=False, m3=None):
    """before / after fingerprints at the same points (the point is carried through the renaming); besides the
    generic points, points on both sides of every conditional statement of the before-model"""
    ren = ren or {}
    before, after, third = [], [], []
    points = [(salt, {}) for salt in salts] + [(salts[0], ov) for ov in branch_overrides(m1)]
    for k, (salt, ov) in enumerate(points):
        env1 = probe(m1, salt)
        env1.update({n: fr(x) for n, x in ov.items()})
        # m2 may have symbols of its own (none for a refactoring, but helper statements may introduce parameters)
        env2 = probe(m2, salt)
        for n, val in env1.items():
            env2[ren.get(n, n)] = val
        f1, f2 = flat(m1, {**env2, **env1}), flat(m2, env2)
        before += [[f"{k}|{n}", x] for n, x in f1.items()]
        after += [[f"{k}|{n}", x] for n, x in f2.items()]
        if m3 is not None:
            third += [[f"{k}|{n}", x] for n, x in flat(m3, env2).items()]
    if m3 is not None:
        return before, after, len(points), third
    return before, after, len(points)


# ----------------------------------------------------------------------------- non-preserving steps (history generators)

COV = {"pheno": {"X:COVLIN": ("CL", "APGR", "lin", False), "X:COVCAT": ("CL", "FA1", "cat", False), "X:COVPW": ("VC", "WGT", "piece_lin", True)},
       "mox2": {"X:COVLIN": ("CL", "WT", "lin", False), "X:COVCAT": ("CL", "SEX", "cat", False), "X:COVPW": ("VC", "WT", "piece_lin", False)}}
OCC = {"pheno": "FA1", "mox2": "VISI"}


def redefine_interleaved(m):
    """X:REDEF: after the first definition of T (the first assignment that reads a theta) insert
    R = th_a; T = T*R; R = R + th_b; T = T + 1 - T is assigned three times, its middle definition reads R, and R is
    reassigned before T's last definition"""
    import pharmpy.modeling as pm
    from pharmpy.basic import Expr
    from pharmpy.model import Assignment, Statements

    th = [p.name for p in pm.get_thetas(m)]
    sts = list(m.statements)
    k = next(i for i, s in enumerate(sts) if isinstance(s, Assignment) and any(str(x) in th for x in s.expression.free_symbols))
    t = sts[k].symbol
    r = Expr.symbol("RDS")
    a, b = Expr.symbol(th[0]), Expr.symbol(th[1] if len(th) > 1 else th[0])
    new = [Assignment.create(r, a), Assignment.create(t, t * r), Assignment.create(r, r + b), Assignment.create(t, t + 1)]
    m2 = m.replace(statements=Statements(sts[: k + 1] + new + sts[k + 1:]))
    return m2.update_source()


def apply_other(name, tok, m):
    import pharmpy.modeling as pm

    if tok == "S:IVORAL":
        # an IV + oral system: a second bolus (admid 2) straight into the central compartment
        from pharmpy.model import Bolus, CompartmentalSystem, CompartmentalSystemBuilder

        cs = m.statements.ode_system
        cb = CompartmentalSystemBuilder(cs)
        cb.set_dose(cs.central_compartment, Bolus.create("AMT", admid=2))
        return m.replace(statements=m.statements.before_odes + CompartmentalSystem(cb) + m.statements.after_odes)
    if tok == "S:FO":
        return pm.set_first_order_absorption(m)
    if tok == "S:PER":
        return pm.add_peripheral_compartment(m)
    if tok == "S:TR":
        return pm.set_transit_compartments(m, 2)
    if tok == "S:LAG":
        return pm.add_lag_time(m)
    if tok == "S:ZOE":
        return pm.set_zero_order_elimination(m)
    if tok == "S:MM":
        return pm.set_michaelis_menten_elimination(m)
    if tok == "X:ADDIIV":
        return pm.add_iiv(m, "KA", "exp")
    if tok == "X:REDEF":
        return redefine_interleaved(m)
    if tok in ("X:COVLIN", "X:COVCAT", "X:COVPW"):
        p, c, eff, nested = COV[name][tok]
        return pm.add_covariate_effect(m, p, c, eff, allow_nested=nested)
    if tok == "X:IOV":
        return pm.add_iov(m, OCC[name], [m.random_variables.iiv.names[0]])
    if tok == "X:BOXCOX":
        return pm.transform_etas_boxcox(m, [m.random_variables.iiv.names[0]])
    if tok == "X:COMB":
        return pm.set_combined_error_model(m)
    if tok == "X:IIVRUV":
        return pm.set_iiv_on_ruv(m)
    if tok == "X:POWER":
        return pm.set_power_on_ruv(m)
    if tok == "X:TV":
        return pm.set_time_varying_error_model(m, cutoff=5.0, idv=m.datainfo.idv_column.name)
    if tok == "D:FIXTH":
        th = [p.name for p in pm.get_thetas(m)]
        return pm.fix_parameters(m, [th[1] if len(th) > 1 else th[0]])
    if tok == "D:FIXVAR1":
        om = [p.name for p in pm.get_omegas(m) if not p.fix]
        sg = [p.name for p in pm.get_sigmas(m) if not p.fix]
        return pm.fix_parameters_to(m, {n: 1 for n in om[:1] + sg[:1]})
    if tok == "D:ZEROOM":
        om = [p.name for p in pm.get_omegas(m)]
        return pm.fix_parameters_to(m, {om[-1]: 0})
    raise KeyError(tok)


# ----------------------------------------------------------------------------- preserving steps


def do_preserving(name, tok, m1, cx):
    """returns (model_after, event fields)"""
    import pharmpy.modeling as pm

    salts = (cx["salt"], cx["salt"] + 1)
    pairs = []
    given = None
    if tok == "P:MU":
        m2 = pm.mu_reference_model(m1)
    elif tok == "P:DECL":
        m2 = pm.make_declarative(m1)
    elif tok == "P:CLEAN":
        m2 = pm.cleanup_model(m1)
    elif tok == "P:GREEK":
        m2 = pm.greekify_model(m1)
    elif tok == "P:RENAME":
        given = {}
        th = [p.name for p in pm.get_thetas(m1)]
        if th:
            given[th[0]] = th[0] + "_R"
        et = list(m1.random_variables.etas.names)
        if et:
            given[et[-1]] = et[-1] + "_R"
        ep = list(m1.random_variables.epsilons.names)
        if ep:
            given[ep[0]] = "R_" + ep[0]
        an = P.assigned_names(m1)
        plain = [n for n in an if "(" not in n and n != yname(m1)]
        if plain:
            given[plain[0]] = "R_" + plain[0]
        m2 = pm.rename_symbols(m1, given)
    elif tok == "P:GENERIC":
        m2 = pm.convert_model(m1, "generic")
    elif tok == "P:NONMEM":
        m2 = pm.convert_model(m1, "nonmem")
    elif tok == "P:UNLOAD":
        m2 = pm.unload_dataset(m1)
    elif tok == "P:LOAD":
        m2 = pm.load_dataset(m1)
    elif tok == "P:UNUSED":
        m2 = pm.remove_unused_parameters_and_rvs(m1)
    elif tok == "P:JOINT":
        m2 = pm.create_joint_distribution(m1)
    elif tok == "P:SPLIT":
        m2 = pm.split_joint_distribution(m1)
    elif tok == "P:FIXED":
        m2 = pm.replace_fixed_thetas(m1)
    elif tok == "P:NONRANDOM":
        m2 = pm.replace_non_random_rvs(m1)
    elif tok == "P:SIMP":
        return m1, simplify_event(m1, cx)
    elif tok == "P:SOLVE":
        return solve_event(m1, cx)
    else:
        raise KeyError(tok)
    ren = declared_renaming(m1, m2, given, positional=(tok == "P:GREEK"))
    m3 = reread_of(m2) if not ren else None
    got = fp_event(m1, m2, salts, ren, m3=m3)
    before, after, npts = got[:3]
    aftercode = got[3] if m3 is not None else []
    req = []
    y = yname(m1)
    for k in range(npts):
        req.append(f"{k}|{y}")
    req += [n for n, _ in before if n.split("|", 1)[1].split(":")[0] in ("flow", "lag", "bio", "dose", "dur", "rate", "col")]
    req += [n for n, _ in before if n.split("|", 1)[1].startswith("par:") and n.split("|", 1)[1][4:] in m1.parameters.names]
    return m2, {"before": before, "after": after, "ren": [[f"{k}|{pre}{a}", f"{k}|{pre}{b}"] for a, b in ren.items() for k in range(npts) for pre in ("", "par:")],
                "req": req, "pairs": pairs, "aftercode": aftercode}


def simplify_event(m1, cx):
    """simplify_expression(model, e) must keep the value of e (at a point that respects the parameter bounds)"""
    import pharmpy.modeling as pm
    from pharmpy.model import Assignment

    pairs, n = [], 0
    exprs = [s.expression for s in m1.statements if isinstance(s, Assignment)]
    cx["rng"].shuffle(exprs)
    for e in exprs[:5]:
        simp = pm.simplify_expression(m1, e)
        for salt in (cx["salt"], cx["salt"] + 1):
            env = probe(m1, salt)
            v, _ = P.run(m1, env)   # values of the intermediate variables at this point
            full = {**env, **{k: x for k, x in v.items()}}
            E1 = Evaluator(dict(full), lambda nm_: name_value(nm_, salt))
            E2 = Evaluator(dict(full), lambda nm_: name_value(nm_, salt))
            try:
                a = E1.ev(e)
            except (Undef, OverflowError, ZeroDivisionError):
                a = None
            try:
                b = E2.ev(simp)
            except (Undef, OverflowError, ZeroDivisionError):
                b = None
            pairs.append([qj(a), qj(b)])
    return {"before": [], "after": [], "ren": [], "req": [], "pairs": pairs}


def _pick_time(model, env):
    """a time at which every exp(rate * t) of a linear system stays in Q: t = lcm of the rate denominators"""
    v, ode = P.run(model, env)
    if not ode:
        return None
    dens = []
    for val in ode["flows"].values():
        if val is None or not val.is_rat:
            return None
        dens.append(val.rat.denominator)
    t = 1
    for d in dens:
        t = t * d // math.gcd(t, d)
    return t if t <= 10**6 else None


def _isqrt_frac(x: Fraction):
    """exact square root of a non-negative rational, or None"""
    if x < 0:
        return None
    a, b = math.isqrt(x.numerator), math.isqrt(x.denominator)
    return Fraction(a, b) if a * a == x.numerator and b * b == x.denominator else None


def _eigenvalues(ode):
    """rational eigenvalues of a linear system with <= 2 compartments (from the flows at the probe), else None"""
    names = ode["names"]
    if len(names) > 2:
        return None
    M = {a: {b: Fraction(0) for b in names} for a in names}
    for (a, b), val in ode["flows"].items():
        if val is None or not val.is_rat:
            return None
        M[a][a] -= val.rat
        if b != "OUT":
            M[b][a] += val.rat
    if len(names) == 1:
        return [M[names[0]][names[0]]]
    a, b = names
    tr = M[a][a] + M[b][b]
    det = M[a][a] * M[b][b] - M[a][b] * M[b][a]
    r = _isqrt_frac(tr * tr - 4 * det)
    if r is None or r == 0:
        return None
    return [(tr + r) / 2, (tr - r) / 2]


def _design_point(model, salt, rng, tries=1500):
    """A probe point at which a linear system has distinct rational eigenvalues and exp(eigenvalue * t) stays in Q:
    etas zero, covariates 1, small integer thetas searched so that the discriminant is a perfect square."""
    import itertools
    import pharmpy.modeling as pm

    env = probe(model, salt, etas="zero")
    special = set()
    for typ in ("id", "idv", "dose", "dv"):
        try:
            special |= set(model.datainfo.typeix[typ].names)
        except Exception:  # noqa: BLE001
            pass
    for col in model.datainfo.names:
        if col not in special:
            env[col] = ONE
    thetas = [p.name for p in pm.get_thetas(model) if not p.fix]
    combos = list(itertools.product([1, 2, 3, 4, 6], repeat=min(len(thetas), 6)))
    rng.shuffle(combos)
    for combo in combos[:tries]:
        e2 = dict(env)
        for n, val in zip(thetas, combo):
            e2[n] = Q(val)
        _, ode = P.run(model, e2)
        if not ode:
            return None
        ev = _eigenvalues(ode)
        if ev is None or any(x == 0 for x in ev) or len(set(ev)) != len(ev):
            continue
        t = 1
        for x in ev:
            t = t * x.denominator // math.gcd(t, x.denominator)
        if all(abs(x * t) <= 40 for x in ev) and t <= 1000:
            return e2, t
    return None


def solve_event(m1, cx):
    """solve_ode_system: the closed form must satisfy the system (residual, initial condition) and, with the
    amounts taken from the closed form, every observable keeps its value"""
    import sympy
    import pharmpy.modeling as pm
    from pharmpy.model import Assignment

    old = signal.signal(signal.SIGALRM, _alarm)
    signal.alarm(60)
    try:
        m2 = pm.solve_ode_system(m1)
    finally:
        signal.alarm(0)
        signal.signal(signal.SIGALRM, old)
    cs = m1.statements.ode_system
    before, after, pairs = [], [], []
    k = -1
    for attempt in range(8):
        if k >= 1:
            break
        salt = cx["salt"] + attempt
        if attempt < 2:
            env = probe(m1, salt, etas="zero" if attempt else "small")
            t = _pick_time(m1, env)
        else:
            got = _design_point(m1, salt, cx["rng"])
            if got is None:
                continue
            env, t = got
        if t is None:
            continue
        env["t"] = Q(t)
        idv = m1.datainfo.idv_column.name
        env2 = dict(env)
        v2, _ = P.run(m2, env2)
        amounts = {}
        for cname in cs.compartment_names:
            key = str(qeval._sp(cs.find_compartment(cname).amount))
            if v2.get(key) is not None:
                amounts[cname] = v2[key]
        if len(amounts) != len(cs.compartment_names):
            continue  # the closed form is outside Q at this point: try the next point
        k += 1
        f1 = flat(m1, env, amounts)
        f2 = {n: qj(x) for n, x in v2.items()}
        before += [[f"{k}|{n}", x] for n, x in f1.items() if ":" not in n]
        after += [[f"{k}|{n}", x] for n, x in f2.items()]
        # residual of the differential equations: d/dt (closed form) = right-hand side with the closed form put in
        sol = {str(qeval._sp(s.symbol)): qeval._sp(s.expression) for s in m2.statements if isinstance(s, Assignment) and "(" in str(s.symbol)}
        tsym = sympy.Symbol("t")
        # values of everything the closed form refers to
        full = {**env2, **{n: x for n, x in v2.items()}}
        for eq in cs.eqs:
            eq = qeval._sp(eq)
            lhs_fn = eq.lhs.args[0] if isinstance(eq.lhs, sympy.Derivative) else None
            if lhs_fn is None or str(lhs_fn) not in sol:
                continue
            d = sympy.diff(sol[str(lhs_fn)], tsym)
            E = Evaluator(dict(full), lambda nm_: name_value(nm_, salt))
            try:
                lv = E.ev(d)
            except (Undef, OverflowError, ZeroDivisionError):
                lv = None
            try:
                rv = Evaluator(dict(full), lambda nm_: name_value(nm_, salt)).ev(eq.rhs)
            except (Undef, OverflowError, ZeroDivisionError):
                rv = None
            pairs.append([qj(lv), qj(rv)])
        # initial conditions, read off the compartmental system itself (not through pharmpy's own helper): at t = 0 EVERY
        # compartment holds the bolus doses that enter it (0 without dose); compartments with a lag time are left out
        from pharmpy.model import Bolus

        env0 = {**full, "t": ZERO}
        for cname in cs.compartment_names:
            comp = cs.find_compartment(cname)
            key = str(qeval._sp(comp.amount))
            if key not in sol or qeval._sp(comp.lag_time) != 0:
                continue
            if any(not isinstance(d, Bolus) for d in comp.doses):
                continue
            try:
                a = Evaluator(dict(env0), lambda nm_: name_value(nm_, salt)).ev(sol[key])
                b = ZERO
                for d in comp.doses:
                    b = b + Evaluator(dict(env0), lambda nm_: name_value(nm_, salt)).ev(d.amount)
                pairs.append([qj(a), qj(b)])
            except (Undef, OverflowError, ZeroDivisionError):
                pass
    y = yname(m1)
    req = [f"{k}|{y}" for k in range(2) if any(n == f"{k}|{y}" for n, _ in before)]
    return m2, {"before": before, "after": after, "ren": [], "req": req, "pairs": pairs}


# ----------------------------------------------------------------------------- observations (extractors)


def full_expression(model, name):
    """the driver's own sequential substitution of the statements (sympy, simultaneous xreplace)"""
    import sympy
    from pharmpy.model import Assignment

    cur = {}
    for s in model.statements:
        if isinstance(s, Assignment):
            e = qeval._sp(s.expression).xreplace(cur)
            cur[qeval._sp(s.symbol)] = e
    for k, v in cur.items():
        if str(k) == name:
            return v
    raise KeyError(name)


def _ev(expr, env, salt):
    try:
        return Evaluator(dict(env), lambda n: name_value(n, salt)).ev(expr)
    except (Undef, OverflowError, ZeroDivisionError):
        return None


def observe(tok, m1, cx):
    """returns (event fields, aux) - raises what the extractor raises"""
    import sympy
    import pharmpy.modeling as pm

    y = yname(m1)
    pairs, aux = [], {"checked": 0, "failed": []}
    etas = list(m1.random_variables.etas.names)
    eps = list(m1.random_variables.epsilons.names)
    if tok in ("O:OBS", "O:IPRED", "O:PRED"):
        fn = {"O:OBS": pm.get_observation_expression, "O:IPRED": pm.get_individual_prediction_expression,
              "O:PRED": pm.get_population_prediction_expression}[tok]
        expr = fn(m1)
        for salt in (cx["salt"], cx["salt"] + 1, cx["salt"] + 2):
            env = probe(m1, salt)
            if tok in ("O:IPRED", "O:PRED"):
                env.update({e: ZERO for e in eps})
            if tok == "O:PRED":
                env.update({e: ZERO for e in etas})
            v, _ = P.run(m1, env)
            pairs.append([qj(v.get(y)), qj(_ev(expr, env, salt))])
    elif tok in ("O:ETAGRAD", "O:EPSGRAD"):
        if tok == "O:ETAGRAD":
            grads, wrt = pm.calculate_eta_gradient_expression(m1), etas
        else:
            grads, wrt = pm.calculate_epsilon_gradient_expression(m1), eps
        fy = full_expression(m1, y)
        if tok == "O:ETAGRAD":
            fy = fy.xreplace({sympy.Symbol(e): sympy.Integer(0) for e in eps})
        for g, w in zip(grads, wrt):
            own = sympy.diff(fy, sympy.Symbol(w))
            for salt in (cx["salt"], cx["salt"] + 1):
                env = probe(m1, salt)
                if tok == "O:ETAGRAD":
                    env.update({e: ZERO for e in eps})
                pairs.append([qj(_ev(own, env, salt)), qj(_ev(g, env, salt))])
            # float-only clause: central finite difference of the directly evaluated model
            try:
                envf = P.env_to_float(probe(m1, cx["salt"]))
                if tok == "O:ETAGRAD":
                    envf.update({e: 0.0 for e in eps})
                h = 1e-6
                up = P.run_float(m1, {**envf, w: envf[w] + h}).get(y)
                dn = P.run_float(m1, {**envf, w: envf[w] - h}).get(y)
                gv = qeval.float_eval(g, envf)
                if not (math.isfinite(up) and math.isfinite(dn) and math.isfinite(gv)):
                    continue  # overflow of the real exp at this point: nothing to compare
                aux["checked"] += 1
                if not P.close((up - dn) / (2 * h), gv, 1e-4):
                    aux["failed"].append({"wrt": w, "fd": (up - dn) / (2 * h), "gradient": gv})
            except Exception:  # noqa: BLE001
                pass
    elif tok == "O:EVAL":
        # numeric evaluators on the first records of the dataset against direct float evaluation (float-only clause)
        df = m1.dataset
        inits = {k: float(v) for k, v in m1.parameters.inits.items()}
        import pandas as pd

        pred = pm.evaluate_population_prediction(m1)
        ipred = pm.evaluate_individual_prediction(m1)
        fy = full_expression(m1, y)
        fy0 = fy.xreplace({sympy.Symbol(x): sympy.Integer(0) for x in eps})
        # individual estimates handed over as a frame: one named column per eta, the order of the columns carries no
        # meaning (here: reversed with respect to the model), different values per individual and eta
        idc = m1.datainfo.id_column.name
        ids = list(df[idc].unique())
        perm = list(reversed(etas))
        frame = pd.DataFrame({e: [0.05 * (etas.index(e) + 1) + 0.01 * k for k in range(len(ids))] for e in perm}, index=ids)[perm]
        ip2 = pm.evaluate_individual_prediction(m1, etas=frame)
        eg = pm.evaluate_eta_gradient(m1, etas=frame)
        sg = pm.evaluate_epsilon_gradient(m1, etas=frame)

        def cmp(fn, r, what, direct, got):
            if not (math.isfinite(direct) and math.isfinite(got)):
                return
            aux["checked"] += 1
            if not P.close(direct, got, 1e-8):
                aux["failed"].append({"fn": fn, "row": r, **what, "direct": direct, "got": got})

        rows = sorted({0, 1, len(df) // 2, len(df) - 1})
        for r in rows:
            row = {c: float(df.iloc[r][c]) for c in df.columns if isinstance(df.iloc[r][c], (int, float)) or hasattr(df.iloc[r][c], "__float__")}
            envf = {**inits, **row, **{e: 0.0 for e in etas + eps}}
            direct = P.run_float(m1, envf).get(y)
            cmp("evaluate_population_prediction", r, {}, direct, float(pred.iloc[r]))
            cmp("evaluate_individual_prediction", r, {}, direct, float(ipred.iloc[r]))
            envf = {**envf, **{e: float(frame.loc[df.iloc[r][idc], e]) for e in etas}}
            cmp("evaluate_individual_prediction(etas)", r, {}, P.run_float(m1, envf).get(y), float(ip2.iloc[r]))
            # gradients are compared per LABEL (dF/d<eta>, dY/d<eps>) with the symbolic derivative of the model
            for e in etas:
                label = f"dF/d{e}"
                if label not in eg.columns:
                    aux["checked"] += 1
                    aux["failed"].append({"fn": "evaluate_eta_gradient", "row": r, "eta": e, "missing_label": label})
                    continue
                cmp("evaluate_eta_gradient", r, {"eta": e}, qeval.float_eval(sympy.diff(fy0, sympy.Symbol(e)), envf), float(eg[label].iloc[r]))
            for e in eps:
                label = f"dY/d{e}"
                if label not in sg.columns:
                    aux["checked"] += 1
                    aux["failed"].append({"fn": "evaluate_epsilon_gradient", "row": r, "eps": e, "missing_label": label})
                    continue
                cmp("evaluate_epsilon_gradient", r, {"eps": e}, qeval.float_eval(sympy.diff(fy, sympy.Symbol(e)), envf), float(sg[label].iloc[r]))
        # parameters=: values different from the initial estimates, as a map keyed by str, by Expr, by sympy Symbol and
        # as a pd.Series (ParameterMap); every evaluator must evaluate at THOSE values
        from pharmpy.basic import Expr

        pvals = {n: (v * 1.5 if v != 0 else 0.1) for n, v in inits.items()}
        forms = {"str": dict(pvals), "Expr": {Expr.symbol(n): v for n, v in pvals.items()},
                 "Symbol": {sympy.Symbol(n): v for n, v in pvals.items()}, "Series": pd.Series(pvals)}
        for fname, pmap in forms.items():
            pr = pm.evaluate_population_prediction(m1, parameters=pmap)
            ip3 = pm.evaluate_individual_prediction(m1, etas=frame, parameters=pmap)
            eg3 = pm.evaluate_eta_gradient(m1, etas=frame, parameters=pmap)
            sg3 = pm.evaluate_epsilon_gradient(m1, etas=frame, parameters=pmap)
            for r in rows[:2]:
                row = {c: float(df.iloc[r][c]) for c in df.columns if isinstance(df.iloc[r][c], (int, float)) or hasattr(df.iloc[r][c], "__float__")}
                envf = {**pvals, **row, **{e: 0.0 for e in etas + eps}}
                cmp("evaluate_population_prediction(parameters)", r, {"keys": fname}, P.run_float(m1, envf).get(y), float(pr.iloc[r]))
                envf = {**envf, **{e: float(frame.loc[df.iloc[r][idc], e]) for e in etas}}
                cmp("evaluate_individual_prediction(parameters)", r, {"keys": fname}, P.run_float(m1, envf).get(y), float(ip3.iloc[r]))
                for e in etas:
                    if f"dF/d{e}" in eg3.columns:
                        cmp("evaluate_eta_gradient(parameters)", r, {"keys": fname, "eta": e},
                            qeval.float_eval(sympy.diff(fy0, sympy.Symbol(e)), envf), float(eg3[f"dF/d{e}"].iloc[r]))
                for e in eps:
                    if f"dY/d{e}" in sg3.columns:
                        cmp("evaluate_epsilon_gradient(parameters)", r, {"keys": fname, "eps": e},
                            qeval.float_eval(sympy.diff(fy, sympy.Symbol(e)), envf), float(sg3[f"dY/d{e}"].iloc[r]))
    return {"before": [], "after": [], "ren": [], "req": [], "pairs": pairs}, aux


# ----------------------------------------------------------------------------- executing a history


def _from_canonicalisation(e):
    import traceback

    tb = traceback.extract_tb(e.__traceback__)
    return any("_canonicalize" in f.name for f in tb) or "is not defined" in str(e) or "defined after being used" in str(e)


def _has_ode(model):
    return model.statements.ode_system is not None


def _ctx(name, hist, i):
    """fields of the case record that known-finding keys refer to (functions of the history only)"""
    tok = hist[i]
    before = hist[:i]

    def pending(setter, clearers):
        # the last `setter` is not followed by one of `clearers`
        idx = max((j for j, t in enumerate(before) if t == setter), default=-1)
        return idx >= 0 and not any(t in clearers for t in before[idx + 1:])

    return {"class": tok[0], "prev": hist[i - 1] if i else "", "solved": "P:SOLVE" in before, "periph": "S:PER" in before,
            "depot": name == "mox2" or "S:FO" in before, "lag": "S:LAG" in before, "mu_before": "P:MU" in before,
            "after_load": "P:LOAD" in before, "iov": "X:IOV" in before, "fixvar": "D:FIXVAR1" in before,
            "ivoral": "S:IVORAL" in before, "unloaded": pending("P:UNLOAD", ("P:LOAD",)),
            "fixed_omega": pending("D:ZEROOM", ("P:NONRANDOM", "P:CLEAN"))}


def exec_history(arg):
    case, seed = arg
    name = case["model"]
    cx = {"salt": seed % 5, "rng": random.Random(seed)}
    m = start_model(name)
    events, problems, aux = [], [], {"checked": 0, "failed": []}
    hist = case["hist"]
    for i, tok in enumerate(hist):
        cls = tok[0]
        rec = {"model": name, "hist": hist[: i + 1], "act": tok, "has_ode": _has_ode(m), **_ctx(name, hist, i)}
        try:
            if cls in "SXD":
                m2 = apply_other(name, tok, m)
                ev = {"before": [], "after": [], "ren": [], "req": [], "pairs": []}
            elif cls == "P":
                m2, ev = do_preserving(name, tok, m, cx)
            else:
                ev, a = observe(tok, m, cx)
                aux["checked"] += a["checked"]
                for f in a["failed"]:
                    aux["failed"].append({**rec, "outcome": "aux_float_mismatch", "detail": f})
                m2 = m
        except Timeout:
            problems.append(("skipped", {**rec, "outcome": "timeout"}))
            break
        except Exception as e:  # noqa: BLE001
            nm = type(e).__name__
            rec.update({"outcome": nm, "message": str(e)[:200]})
            if cls in "SXD":
                # the history generator failed: totality of setters / extensions is C08's / C09's property
                problems.append(("generator", rec))
            elif nm in REFUSALS and not _from_canonicalisation(e):
                problems.append(("refused", rec))
            else:
                problems.append(("internal", rec))
            break
        ev["act"] = tok
        ev.setdefault("aftercode", [])
        events.append(ev)
        if tok == "P:LOAD" and list(m2.datainfo.names) != list(start_model(name).datainfo.names):
            break  # judged at this step (the columns the statements read are gone); later steps would only repeat it
        m = m2
    return {"trace": {"model": name, "events": events}, "problems": problems, "aux": aux, "seed": seed}


# ----------------------------------------------------------------------------- TLC


def _acts_cfg(tmp, name, models, maxhist, acts, invariants, init="Init", nxt="Next"):
    txt = "CONSTANTS\n  Models = {%s}\n  MaxHist = %d\n  Acts = {%s}\nINIT %s\nNEXT %s\n" % (
        ", ".join(f'"{m}"' for m in models), maxhist, ", ".join(f'"{a}"' for a in acts), init, nxt)
    txt += "".join(f"INVARIANT {i}\n" for i in invariants) + "CHECK_DEADLOCK FALSE\n"
    p = tmp / name
    p.write_text(txt)
    return p


INVS = ["TypeOK", "VersionCounts", "OneRenaming", "NoOdeNoStructure"]


def tlc_explore(tier, seed, v):
    tmp = core.scratch("c07cfg")
    mh = 3 if tier == "quick" else 4
    cfg = _acts_cfg(tmp, "explore.cfg", ["pheno", "mox2", "linear", "pred", "flag"], mh, ALL_ACTS, INVS + ["EmitCase"])
    if tier == "quick":
        res = core.run_tlc(SPEC / "Preserve.tla", cfg, workers=8, timeout=1500, coverage=False)
    else:
        # depth 4 exhaustively is 10^6 histories: the theorems are checked exhaustively without emission,
        # the histories of length 4 come from random walks of the same machine
        cfg0 = _acts_cfg(tmp, "theorems.cfg", ["pheno", "mox2", "linear", "pred", "flag"], 4, ALL_ACTS, INVS)
        res0 = core.run_tlc(SPEC / "Preserve.tla", cfg0, workers=16, timeout=2400, coverage=False)
        core.require_ok(res0, "Preserve.tla depth 4")
        if res0.violated:
            raise core.MachineryError(f"Preserve.tla: {res0.violated} violated")
        v.add_coverage(states=res0.distinct, transitions=res0.generated)
        cfg3 = _acts_cfg(tmp, "explore3.cfg", ["pheno", "mox2", "linear", "pred", "flag"], 3, ALL_ACTS, INVS + ["EmitCase"])
        res = core.run_tlc(SPEC / "Preserve.tla", cfg3, workers=8, timeout=1500, coverage=False)
        sim = core.run_tlc(SPEC / "Preserve.tla", cfg, workers=4, timeout=1500, coverage=False, simulate="num=2500", depth=6, seed=seed)
        core.require_ok(sim, "Preserve.tla simulate")
        res.prints += sim.prints
    shutil.rmtree(tmp, ignore_errors=True)
    core.require_ok(res, "Preserve.tla")
    if res.violated:
        raise core.MachineryError(f"Preserve.tla: design-level check {res.violated} violated\n" + "\n".join(b[-800:] for b in res.trace[-1:]))
    v.add_coverage(states=res.distinct, transitions=res.generated, tlc_explore_wall_s=round(res.wall, 1), tlc_maxhist=mh)
    uniq = {}
    for tag, c in res.prints:
        if tag == "CASE":
            uniq[json.dumps([c["model"], c["hist"]])] = c
    cases = list(uniq.values())
    seen = {t for c in cases for t in c["hist"]}
    missing = [t for t in ALL_ACTS if t not in seen]
    if missing:
        raise core.MachineryError(f"Preserve.tla: tokens never taken (vacuous model): {missing}")
    return cases


BATCH = 1000


def tlc_validate(traces, v):
    d = core.scratch("c07tr")
    out, errs, walls = {}, [], []
    sem = threading.Semaphore(4)
    lock = threading.Lock()

    def one(k, part):
        with sem:
            f = d / f"traces{k}.json"
            f.write_text(json.dumps(part))
            res = core.run_tlc(SPEC / "PreserveTrace.tla", SPEC / "PreserveTrace.cfg", workers=1, timeout=3000,
                               env={"TRACES": str(f)}, coverage=False)
            with lock:
                if res.error or res.violated:
                    errs.append(f"PreserveTrace batch {k}: {res.error or res.violated}\n{res.out[-1500:]}")
                    return
                for tag, x in res.prints:
                    if tag == "VER":
                        out[k + x["tid"]] = x["ver"]
                walls.append(res.wall)
                v.add_coverage(states=res.distinct, transitions=res.generated)

    ths = []
    for k in range(0, len(traces), BATCH):
        t = threading.Thread(target=one, args=(k, traces[k: k + BATCH]))
        t.start()
        ths.append(t)
        time.sleep(0.1)
    for t in ths:
        t.join()
    shutil.rmtree(d, ignore_errors=True)
    if errs:
        raise core.MachineryError(errs[0])
    return out, sum(walls)


def select(cases, tier, seed):
    """all histories of length 1, all of length 2 whose first step is Structural / Extension / Data (every refactoring
    right after every generator), then round-robin over (model, last token, previous token, length) up to the budget"""
    rng = random.Random(seed)
    cases = sorted(cases, key=lambda c: json.dumps(c))
    rng.shuffle(cases)
    def must(c):
        h = c["hist"]
        if len(h) == 1 or (len(h) == 2 and h[0][0] in "SXD"):
            return True
        # a refactoring, then a new eta assignment, then a refactoring again (mu_reference_model twice with an
        # extension in between): one of the two is mu_reference_model
        return len(h) == 3 and h[1] == "X:ADDIIV" and h[0][0] == "P" and h[2][0] == "P" and "P:MU" in (h[0], h[2])

    first = [c for c in cases if must(c)]
    rest = [c for c in cases if not must(c)]
    budget = {"quick": 130, "thorough": 9000}[tier]
    groups = {}
    for c in rest:
        h = c["hist"]
        groups.setdefault((c["model"], h[-1], h[-2] if len(h) > 1 else "", len(h)), []).append(c)
    keys = sorted(groups)
    rng.shuffle(keys)
    out = []
    while len(out) < budget and any(groups.values()):
        for k in keys:
            if groups[k] and len(out) < budget:
                out.append(groups[k].pop())
    return first + out


def _warm_up():
    for name, h in [("pheno", ["S:FO", "X:COVCAT", "P:CLEAN"]), ("pheno", ["X:IOV", "P:MU"]), ("pheno", ["P:SOLVE", "O:ETAGRAD"]),
                    ("mox2", ["X:COMB", "P:GREEK"]), ("linear", ["P:GENERIC", "O:EVAL"]), ("pheno", ["P:JOINT", "P:SIMP"]),
                    ("pred", ["P:MU", "X:ADDIIV", "P:MU"]), ("pred", ["X:ADDIIV", "O:EVAL"]), ("flag", ["P:FIXED"]),
                    ("pheno", ["D:FIXVAR1", "P:NONRANDOM"])]:
        exec_history(({"model": name, "hist": h}, 1))


def main(tier: str, seed: int) -> int:
    v = core.Verdict("C07", tier, seed)
    v.assumptions = [
        "function model EXP(x) := 2^x with formal logarithms of odd primes on the harness side; a probe outside it is skipped, never judged",
        "fixed parameters are probed at their fixed value, etas with a variance fixed to zero at zero (the values the refactoring is entitled to assume)",
        "solve_ode_system: linear systems whose rates are rational at the probe, time chosen so that every exponent is an integer",
        "start models: pheno, mox2, pheno_linear of the pharmpy test corpus",
    ]
    box = {}

    def explore():
        try:
            box["cases"] = tlc_explore(tier, seed, v)
        except BaseException as e:  # noqa: BLE001
            box["err"] = e

    th = threading.Thread(target=explore)
    th.start()
    core.use_repo()
    import pharmpy.modeling  # noqa: F401

    for n in ("pheno", "mox2", "linear", "pred", "flag"):
        start_model(n)
    _warm_up()
    th.join()
    if "err" in box:
        raise box["err"]
    cases = box["cases"]
    chosen = select(cases, tier, seed)
    rng = random.Random(seed)
    work = [(c, rng.randrange(1 << 30)) for c in chosen]
    t1 = time.time()
    results = core.pmap(exec_history, work, procs=16, chunk=4)
    t_exec = time.time() - t1
    traces, owners = [], []
    steps = refused = generator_failed = skipped_timeout = aux_checked = 0
    for (c, s), r in zip(work, results):
        aux_checked += r["aux"]["checked"]
        for f in r["aux"]["failed"]:
            v.violation(f, f"{f['act']}: float-only clause: {json.dumps(f['detail'])[:200]}")
        for kind, rec in r["problems"]:
            if kind == "refused":
                refused += 1
            elif kind == "generator":
                generator_failed += 1
            elif kind == "skipped":
                skipped_timeout += 1
            else:
                v.violation(rec, f"{rec['act']} after {rec['hist'][:-1]} on {rec['model']} raised {rec['outcome']}: {rec['message']}")
        if r["trace"]["events"]:
            traces.append(r["trace"])
            owners.append((c, s))
            steps += len(r["trace"]["events"])
    vers, wall_val = tlc_validate(traces, v)
    stats, judged = {}, 0
    for tid in range(1, len(traces) + 1):
        if tid not in vers:
            raise core.MachineryError(f"PreserveTrace: trace {tid} not explained by the machine: {json.dumps(owners[tid - 1][0])}")
        c, s = owners[tid - 1]
        for i, ver in enumerate(vers[tid]):
            tok = traces[tid - 1]["events"][i]["act"]
            if tok[0] not in "PO":
                continue
            st = stats.setdefault(tok, {"ok": 0, "bad": 0, "skip": 0})
            vals = [ver["fp"], ver["req"], ver["obs"], ver.get("code", "none")]
            st["bad" if "bad" in vals else "ok" if "ok" in vals else "skip"] += 1
            judged += "ok" in vals or "bad" in vals
            for field, outcome in (("fp", "fingerprint_changed"), ("req", "observable_missing"), ("obs", "value_mismatch"),
                                   ("code", "generated_code_changed")):
                if ver[field] == "bad":
                    if _float_agrees(c, s, i, field):
                        v.notes.append(f"model_artefact: {c['model']} {c['hist'][: i + 1]} {field}")
                        continue
                    ev = traces[tid - 1]["events"][i]
                    h = c["hist"]
                    rec = {"model": c["model"], "hist": h[: i + 1], "act": tok, "field": field, "outcome": outcome, "seed": s,
                           "diff": _diff(ev, field), **_ctx(c["model"], h, i)}
                    v.violation(rec, f"{tok} after {c['hist'][:i]} on {c['model']}: {outcome} {json.dumps(rec['diff'])[:200]}")
    nontrivial = {json.dumps(c["hist"]) for c, _ in owners if len(c["hist"]) >= 2}
    v.add_coverage(
        cases_emitted_by_tlc=len(cases), histories_executed=len(work), evaluations=steps, distinct_nontrivial=len(nontrivial),
        traces_validated_against_impl=len(vers), preserving_or_observe_steps_judged=judged, documented_refusals=refused,
        generator_steps_failed=generator_failed, timeouts=skipped_timeout, aux_numeric_checked=aux_checked, per_action=stats,
        rule="every history of the machine (<= MaxHist steps) that ends in a Preserving / Observe step is a case; executed: round-robin over (model, last token, previous token, length) up to the tier budget (VERIF_SEED); non-trivial = at least two steps",
        samples=[{"model": c["model"], "hist": c["hist"]} for c, _ in owners[:4]], exhaustive=len(work) >= len(cases),
        wall_exec_s=round(t_exec, 1), wall_tlc_validate_s=round(wall_val, 1),
    )
    return v.finish(min_traces=150 if tier == "quick" else 2000)


def _diff(ev, field):
    """the first few differing observables (for the replay file)"""
    out = []
    if field == "obs":
        return [p for p in ev["pairs"] if p[0] != p[1]][:4]
    ren = dict((a, b) for a, b in ev["ren"])
    after = dict((n, x) for n, x in (ev["aftercode"] if field == "code" else ev["after"]))
    for n, x in ev["before"]:
        n2 = ren.get(n, n)
        if field in ("fp", "code") and n2 in after and after[n2] != x and x[1] > 0 and after[n2][1] > 0:
            out.append([n, x, after[n2]])
    if field == "req":
        out = [r for r in ev["req"] if ren.get(r, r) not in after]
    return out[:4]


def _float_agrees(case, seed, i, field):
    """artefact guard: re-evaluate the step in floating point with the real exp / log; can only suppress"""
    try:
        import pharmpy.modeling as pm

        name = case["model"]
        cx = {"salt": seed % 5, "rng": random.Random(seed)}
        m = start_model(name)
        for tok in case["hist"][:i]:
            if tok[0] in "SXD":
                m = apply_other(name, tok, m)
            elif tok[0] == "P" and tok not in ("P:SIMP",):
                m = do_preserving(name, tok, m, cx)[0]
        tok = case["hist"][i]
        if tok[0] != "P" or tok in ("P:SIMP", "P:SOLVE") or field != "fp":
            return False
        m2, ev = do_preserving(name, tok, m, cx)
        ren = {a.split("|", 1)[1]: b.split("|", 1)[1] for a, b in ev["ren"]}
        # the same points as the exact comparison: generic points and both sides of every conditional statement
        points = [(cx["salt"], {}), (cx["salt"] + 1, {})] + [(cx["salt"], ov) for ov in branch_overrides(m)]
        for salt, ov in points:
            envq = probe(m, salt)
            envq.update({n: fr(x) for n, x in ov.items()})
            env1 = P.env_to_float(envq)
            env2 = dict(env1)
            for a, b in ren.items():
                if a in env1:
                    env2[b] = env1[a]
            f1, f2 = P.run_float(m, env1), P.run_float(m2, env2)
            for n, x in f1.items():
                n2 = ren.get(n, n)
                if n2 in f2 and not (math.isnan(x) or math.isnan(f2[n2])) and not P.close(x, f2[n2]):
                    return False
        return True
    except Exception:  # noqa: BLE001
        return False


def replay(path: str) -> int:
    core.use_repo()
    data = json.loads(open(path).read())
    case = data["case"]
    r = exec_history(({"model": case["model"], "hist": case["hist"]}, case.get("seed", 0)))
    for kind, rec in r["problems"]:
        print(kind, json.dumps(rec)[:600])
    v = core.Verdict("C07", "replay", 0)
    if r["trace"]["events"]:
        vers, _ = tlc_validate([r["trace"]], v)
        for i, ver in enumerate(vers.get(1, [])):
            print(r["trace"]["events"][i]["act"], ver)
    print(json.dumps(data, indent=1)[:2500])
    return 0
