"""C05 - Compartmental system graph and its differential equations always agree.

spec -> code : spec/compsys/CompSys.tla is a history machine over CompartmentalSystemBuilder (state = node order,
               flows with rate kinds, stored doses, lag / bioavailability / input flags; one action per builder
               method).  A canonical seed phase reaches every digraph (with every node order) exactly once, then
               builder operations are explored from a VERIF_SEED-chosen subset of the seeds.  TLC proves on every
               state: Order is a permutation, eqs == Matrix*amounts + inputs == inflows - outflows + input, mass
               balance per column, the equations determine the graph (round trip), the order depends on the node
               order only through the central compartment.  A sample of the states is printed with the history and
               the expected name-keyed projection; this driver replays the history on the real builder and compares
               the projection of CompartmentalSystem(cb): compartment_names / amounts / compartmental_matrix /
               zero_order_inputs / eqs in ONE order, flows, doses, lag, bioavailability, input, dosing compartments;
               to_compartmental_system(names, eqs) recovers the graph; from_dict(to_dict(cs)) == cs; subs({}),
               identity renaming and a fresh renaming leave / move the projection as specified.
"""
from __future__ import annotations

import json
import random
import shutil
import threading
import time

from . import core

SPEC = core.SPEC / "compsys"
INVARIANTS = ["TypeOK", "OrderIsPermutation", "EqsAgree", "MassBalance", "RoundTrip", "OrderDependsOnCentralOnly",
              "OrderInsertionInvariant", "DosingOk", "EmitCase"]
ACTIONS = [("DoSeedCompartment", "SeedAddCompartment"), ("DoSeedFlow", "SeedAddFlow"), ("DoAddCompartment", "AddCompartment"), "DoRemoveCompartment", "DoAddFlow", "DoRemoveFlow", "DoSetDose",
           "DoAddDose", "DoRemoveDose", "DoMoveDose", "DoSetLag", "DoSetBio", "DoSetInput"]

CONSTS = {
    "quick": [
        dict(Pool="{1, 2, 4}", MaxComps=3, MaxFlows=3, OutKinds="{1, 2}", FlowKinds="{3}", MaxOps=2, Thin=200, FullDepth=1, SeedThin=1, SeedThinFrom=9, SeedAscending="FALSE", SeedInputs="TRUE", EmitConfluence="FALSE", SampleMod=48),
        # 4-compartment family (one node order per system, second-order rates): every system with a confluence outside the
        # dosing-reachable part (SRC1 -> POOL <- SRC2) is a case
        dict(Pool="{1, 2, 4, 5}", MaxComps=4, MaxFlows=3, OutKinds="{1}", FlowKinds="{4}", MaxOps=0, Thin=1, FullDepth=0, SeedThin=1, SeedThinFrom=9, SeedAscending="TRUE", SeedInputs="FALSE", EmitConfluence="TRUE", SampleMod=40),
    ],
    "thorough": [
        # all 3-compartment digraphs over a 4-name pool, three operations deep
        dict(Pool="{1, 2, 4, 5}", MaxComps=3, MaxFlows=4, OutKinds="{1, 2, 3}", FlowKinds="{1}", MaxOps=2, Thin=128, FullDepth=1, SeedThin=1, SeedThinFrom=9, SeedAscending="FALSE", SeedInputs="TRUE", EmitConfluence="FALSE", SampleMod=64),
        # 4 compartments incl. the special names EFFECT / METABOLITE (seed flows thinned)
        dict(Pool="{1, 2, 3, 4, 5}", MaxComps=4, MaxFlows=5, OutKinds="{1, 2}", FlowKinds="{1}", MaxOps=3, Thin=512, FullDepth=0, SeedThin=6, SeedThinFrom=3, SeedAscending="FALSE", SeedInputs="TRUE", EmitConfluence="TRUE", SampleMod=64),
        # nonlinear flows between compartments
        dict(Pool="{1, 2, 5}", MaxComps=3, MaxFlows=3, OutKinds="{1}", FlowKinds="{1, 2, 3}", MaxOps=2, Thin=64, FullDepth=1, SeedThin=1, SeedThinFrom=9, SeedAscending="FALSE", SeedInputs="TRUE", EmitConfluence="FALSE", SampleMod=32),
        # the 4-compartment second-order family of the quick tier (confluences outside the dosing-reachable part)
        dict(Pool="{1, 2, 4, 5}", MaxComps=4, MaxFlows=3, OutKinds="{1}", FlowKinds="{4}", MaxOps=0, Thin=1, FullDepth=0, SeedThin=1, SeedThinFrom=9, SeedAscending="TRUE", SeedInputs="FALSE", EmitConfluence="TRUE", SampleMod=8),
    ],
}
COV = dict(Pool="{1, 2}", MaxComps=2, MaxFlows=1, OutKinds="{1, 2}", FlowKinds="{3}", MaxOps=1, Thin=4, FullDepth=0, SeedThin=1, SeedThinFrom=9, SeedAscending="FALSE", SeedInputs="TRUE", EmitConfluence="FALSE", SampleMod=1000003)


def _cfg(path, consts, seed):
    lines = ["CONSTANTS"] + [f"  {k} = {v}" for k, v in consts.items()]
    lines += [f"  SampleRes = {seed % consts['SampleMod']}", f"  ThinRes = {seed % consts['Thin']}"]
    lines += ["INIT Init", "NEXT Next"] + [f"INVARIANT {i}" for i in INVARIANTS] + ["CHECK_DEADLOCK FALSE"]
    path.write_text("\n".join(lines) + "\n")
    return path


def _tlc_cases(tier, seed, v):
    d = core.scratch("c05")
    out = {}

    def run(tag, fn):
        try:
            out[tag] = fn()
        except Exception as e:  # noqa: BLE001
            out[tag] = e

    to = 3000 if tier == "quick" else 9000
    runs = CONSTS[tier]
    w = max(4, 14 // len(runs))
    jobs = [("cov", lambda: core.run_tlc(SPEC / "CompSys.tla", _cfg(d / "cov.cfg", COV, 1), workers=2, timeout=to, coverage=True, heap="2g"))]
    for i, c in enumerate(runs):
        jobs.append((f"run{i}", (lambda c=c, i=i: core.run_tlc(SPEC / "CompSys.tla", _cfg(d / f"run{i}.cfg", c, seed), workers=w, timeout=to, coverage=False, heap="4g"))))
    ths = [threading.Thread(target=run, args=j) for j in jobs]
    for t in ths:
        t.start()
        time.sleep(0.4)  # core.scratch names the TLC metadir by pid + millisecond: never start two runs in the same one
    [t.join() for t in ths]
    shutil.rmtree(d, ignore_errors=True)
    cases = []
    for tag, _ in jobs:
        res = out[tag]
        if isinstance(res, Exception):
            raise core.MachineryError(f"TLC run {tag}: {res}")
        core.require_ok(res, f"CompSys.tla ({tag})")
        if res.violated:
            raise core.MachineryError(f"CompSys.tla ({tag}): design theorem {res.violated} violated:\n" + "\n".join(res.trace[-1:])[:1500])
        if tag != "cov":
            core.tlc_stats_into(v, res)
            cases += [c for t, c in res.prints if t == "CASE"]
    core.require_actions(out["cov"], ACTIONS, "CompSys.tla")
    v.add_coverage(
        tlc_constants=runs,
        tlc_wall_s={k: round(out[k].wall, 1) for k in out},
        tlc_states_per_run={k: out[k].distinct for k in out},
        design_theorems_checked=INVARIANTS[:-1],
    )
    if not cases:
        raise core.MachineryError("CompSys.tla emitted no cases")
    return cases


# ----------------------------------------------------------------------------- rendering


class _Env:
    def __init__(self):
        import sympy
        from pharmpy.basic import Expr
        from pharmpy.model import Bolus, Compartment, CompartmentalSystem, CompartmentalSystemBuilder, Infusion, output
        from pharmpy.model.statements import to_compartmental_system

        self.sp, self.Expr = sympy, Expr
        self.Bolus, self.Infusion, self.Compartment = Bolus, Infusion, Compartment
        self.CS, self.CB, self.output = CompartmentalSystem, CompartmentalSystemBuilder, output
        self.tcs = to_compartmental_system
        self.t = sympy.Symbol("t")

    def amount(self, name, ren=None):
        return self.sp.Function((ren or {}).get(f"A_{name}", f"A_{name}"))(self.t)

    def rate(self, src, dst, kind, ren=None):
        """kind 1: symbol / CL/V; 2: Michaelis-Menten; 3: sum of the parts 31 + 32 (KA + KB, (Q1 + Q2)/V);
        4: second order (K2_src_dst * A_dst(t), KD_src * A_src(t) to the output)"""
        ren = ren or {}
        S = lambda n: self.sp.Symbol(ren.get(n, n))  # noqa: E731
        out = dst == "OUT"
        if kind == 1:
            if out:
                return S(ren[f"CL_{src}/V_{src}"]) if f"CL_{src}/V_{src}" in ren else S(f"CL_{src}") / S(f"V_{src}")
            return S(f"K_{src}_{dst}")
        if kind == 2:
            return S(f"VM_{src}_{dst}") / (S(f"KM_{src}_{dst}") + self.amount(src, ren))
        if kind == 4:
            return S(f"KD_{src}") * self.amount(src, ren) if out else S(f"K2_{src}_{dst}") * self.amount(dst, ren)
        if kind == 31:
            return S(f"Q1_{src}") / S(f"V_{src}") if out else S(f"KA_{src}_{dst}")
        if kind == 32:
            return S(f"Q2_{src}") / S(f"V_{src}") if out else S(f"KB_{src}_{dst}")
        if kind == 3:
            return (S(f"Q1_{src}") + S(f"Q2_{src}")) / S(f"V_{src}") if out else S(f"KA_{src}_{dst}") + S(f"KB_{src}_{dst}")
        raise core.MachineryError(f"rate kind {kind}")

    def dose(self, d):
        if d == 1:
            return self.Bolus.create("AMT", admid=1)
        if d == 2:
            return self.Infusion.create("AMT", admid=2, duration="D1")
        return self.Bolus.create("AMT", admid=2)

    def dose_code(self, d):
        if isinstance(d, self.Infusion):
            return 2 if d.admid == 2 else -1
        return {1: 1, 2: 3}.get(d.admid, -1)

    def lag(self, name, f):
        return self.sp.Symbol(f"ALAG_{name}") if f else self.sp.Integer(0)

    def bio(self, name, f):
        return self.sp.Symbol(f"F_{name}") if f else self.sp.Integer(1)

    def inp(self, name, f):
        return self.sp.Symbol(f"R_{name}") if f else self.sp.Integer(0)

    def zero(self, e, rng):
        """is the sympy expression identically zero?  expand, then two exact rational probes"""
        sp = self.sp
        e = sp.sympify(e)
        if e == 0 or sp.expand(e) == 0:
            return True
        primes = [2, 3, 5, 7, 11, 13, 17, 19, 23, 29, 31, 37, 41, 43]
        for _ in range(2):
            funcs = sorted(e.atoms(sp.core.function.AppliedUndef), key=str)
            e1 = e.subs({f: sp.Rational(rng.choice(primes), rng.choice([1, 2, 3])) for f in funcs})
            syms = sorted(e1.free_symbols, key=str)
            val = e1.subs({x: sp.Rational(rng.choice(primes), rng.choice([1, 2, 3, 5])) for x in syms})
            if sp.nsimplify(val) != 0:
                return False
        return True


_ENV = None


def _env():
    global _ENV
    if _ENV is None:
        _ENV = _Env()
    return _ENV


def _replay_hist(E, hist):
    """Replay builder operations; returns (builder, refusal-mismatch or None)."""
    cb = E.CB()

    def comp(name):
        c = cb.find_compartment(name)
        if c is None:
            raise core.MachineryError(f"history refers to absent compartment {name}")
        return c

    for op in hist:
        o, a, b, k, c = op["op"], op["a"], op["b"], op["k"], op["c"]
        if o == "add_compartment":
            kw = {}
            if k:
                kw["doses"] = (E.dose(k),)
            if c:
                kw["input"] = E.Expr(E.inp(a, 1))
            cb.add_compartment(E.Compartment.create(a, **kw))
        elif o == "remove_compartment":
            cb.remove_compartment(comp(a))
        elif o == "add_flow":
            cb.add_flow(comp(a), E.output if b == "OUT" else comp(b), E.Expr(E.rate(a, b, k)))
        elif o == "remove_flow":
            cb.remove_flow(comp(a), E.output if b == "OUT" else comp(b))
        elif o == "set_dose":
            arg = None if c == 0 else (E.dose(c) if c < 10 else (E.dose(c // 10), E.dose(c % 10)))
            cb.set_dose(comp(a), arg)
        elif o == "add_dose":
            cb.add_dose(comp(a), E.dose(k))
        elif o == "remove_dose":
            cb.remove_dose(comp(a), None if k == 0 else k)
        elif o == "move_dose":
            cb.move_dose(comp(a), comp(b), None if k == 0 else k)
        elif o == "move_dose_refused":
            try:
                cb.move_dose(comp(a), comp(b), None if k == 0 else k)
                return cb, "move_dose from a compartment without doses was accepted"
            except ValueError:
                pass
        elif o == "set_lag_time":
            cb.set_lag_time(comp(a), E.Expr(E.lag(a, k)))
        elif o == "set_bioavailability":
            cb.set_bioavailability(comp(a), E.Expr(E.bio(a, k)))
        elif o == "set_input":
            cb.set_input(comp(a), E.Expr(E.inp(a, k)))
        else:
            raise core.MachineryError(f"unknown op {o}")
    return cb, None


def _hist_text(hist):
    out = []
    for op in hist:
        o = op["op"]
        if o == "add_compartment":
            out.append(f"add_compartment({op['a']}" + (f", dose{op['k']}" if op["k"] else "") + (", input" if op["c"] else "") + ")")
        elif o in ("add_flow",):
            out.append(f"add_flow({op['a']}->{op['b']}, kind{op['k']})")
        elif o in ("remove_flow", "move_dose", "move_dose_refused"):
            out.append(f"{o}({op['a']}->{op['b']}" + (f", admid={op['k']}" if o != "remove_flow" and op["k"] else "") + ")")
        elif o == "set_dose":
            out.append(f"set_dose({op['a']}, {op['c']})")
        else:
            out.append(f"{o}({op['a']}, {op['k']})")
    return out


def check_case(case, seed=0):
    E = _env()
    sp = E.sp
    rng = random.Random(seed * 7919 + len(case["hist"]))
    viol, drift = [], []
    text = _hist_text(case["hist"])
    comps = {c["name"]: c for c in case["comp"]}
    has_dose = any(c["doses"] for c in case["comp"])
    base = {"history": text, "n_compartments": len(case["nodes"]), "n_out": case["nout"], "has_dose": has_dose,
            "has_dosing_compartment": bool(case["dosing"])}

    def bad(check, outcome, what, **kw):
        rec = dict(base, check=check, outcome=outcome, **kw)
        rec["tlc_case"] = case
        viol.append((rec, f"{check}: {what} | history: {'; '.join(text)}"))

    try:
        cb, refusal = _replay_hist(E, case["hist"])
        if refusal:
            bad("builder", "accepted", refusal)
        cs = E.CS(cb)
    except core.MachineryError:
        raise
    except Exception as e:  # noqa: BLE001
        bad("builder", type(e).__name__, f"replaying the history raised {type(e).__name__}: {str(e)[:150]}")
        return viol, drift, 0

    nchecks = 0

    def guarded(check, fn):
        nonlocal nchecks
        nchecks += 1
        try:
            return fn()
        except core.MachineryError:
            raise
        except Exception as e:  # noqa: BLE001
            bad(check, type(e).__name__, f"{type(e).__name__}: {str(e)[:160]}")
            return None

    flows = {(f["src"], f["dst"]): f["kind"] for f in case["flows"]}

    def exp_rate(a, b, ren=None):
        k = flows.get((a, b), 0)
        return E.rate(a, b, k, ren) if k else sp.Integer(0)

    def project(cs_, ren=None, what="system"):
        """compare the graph content of a real system with the spec state (name keyed); returns mismatch text or None"""
        names_ = sorted(c.name for c in cs_._g.nodes if c is not E.output)
        if names_ != sorted(case["nodes"]):
            return f"{what}: compartments {names_} != {sorted(case['nodes'])}"
        for a in names_:
            ca = cs_.find_compartment(a)
            for b in names_ + ["OUT"]:
                if a == b:
                    continue
                got = sp.sympify(cs_.get_flow(ca, E.output if b == "OUT" else cs_.find_compartment(b)))
                if not E.zero(got - exp_rate(a, b, ren), rng):
                    return f"{what}: flow {a}->{b} is {got}, expected {exp_rate(a, b, ren)}"
            c = comps[a]
            if sorted(E.dose_code(d) for d in ca.doses) != sorted(c["doses"]):
                return f"{what}: doses of {a} are {ca.doses}, expected kinds {c['doses']}"
            if sp.sympify(ca.lag_time) != E.lag(a, c["lag"]) or sp.sympify(ca.bioavailability) != E.bio(a, c["bio"]) or sp.sympify(ca.input) != E.inp(a, c["inp"]):
                return f"{what}: lag/bioavailability/input of {a} are {ca.lag_time}/{ca.bioavailability}/{ca.input}, expected flags {c['lag']}/{c['bio']}/{c['inp']}"
        return None

    # ---- the graph content after the history (flows, doses, lag, bio, input)
    m = guarded("graph", lambda: project(cs))
    if m:
        bad("graph", "wrong_content", m)
        return viol, drift, nchecks
    for a, c in comps.items():
        got = [E.dose_code(d) for d in cs.find_compartment(a).doses]
        if got != c["doses"]:
            drift.append(f"dose order of {a}: {got} vs {c['doses']}")

    # ---- one order for names / amounts / matrix / inputs / eqs
    names = guarded("compartment_names", lambda: list(cs.compartment_names))
    amounts = guarded("amounts", lambda: [sp.sympify(x) for x in cs.amounts])
    M = guarded("compartmental_matrix", lambda: sp.Matrix(sp.sympify(cs.compartmental_matrix)))
    zin = guarded("zero_order_inputs", lambda: [sp.sympify(x) for x in cs.zero_order_inputs])
    eqs = guarded("eqs", lambda: [sp.sympify(e) for e in cs.eqs])
    if None in (names, amounts, M, zin, eqs):
        return viol, drift, nchecks
    n = len(names)
    if sorted(names) != sorted(case["nodes"]):
        bad("compartment_names", "not_a_permutation", f"compartment_names {names} is not a permutation of {case['nodes']}")
        return viol, drift, nchecks
    if names != case["order"]:
        drift.append(f"order {names} vs _order_compartments transcription {case['order']} (nodes {case['nodes']})")
    if len(amounts) != n or any(amounts[i] != E.amount(names[i]) for i in range(n)):
        bad("amounts", "order_differs", f"amounts {amounts} are not the amounts of compartment_names {names}")
    mat = {(e["row"], e["col"]): e["terms"] for e in case["matrix"]}
    if M.shape != (n, n):
        bad("compartmental_matrix", "shape", f"matrix shape {M.shape} for {n} compartments")
    else:
        for r in range(n):
            for c in range(n):
                exp = sum((t["sign"] * E.rate(t["src"], t["dst"], t["kind"]) for t in mat.get((names[r], names[c]), [])), sp.Integer(0))
                if not E.zero(M[r, c] - exp, rng):
                    tr = E.zero(M[c, r] - exp, rng) if r != c else False
                    bad("compartmental_matrix", "wrong_entry",
                        f"matrix[{names[r]},{names[c]}] = {M[r, c]}, specification {exp} (rate {names[c]}->{names[r]}, diagonal = -(outflows + output))",
                        looks_transposed=bool(tr), diagonal=r == c)
                    break
            else:
                continue
            break
        # mass balance on the real matrix: column sums = -(output rate)
        for c in range(n):
            if not E.zero(sum(M[r, c] for r in range(n)) + exp_rate(names[c], "OUT"), rng):
                bad("mass_balance", "column_sum", f"column {names[c]} of the matrix sums to {sp.simplify(sum(M[r, c] for r in range(n)))}, expected -({exp_rate(names[c], 'OUT')})")
                break
    if len(zin) != n or any(zin[i] != E.inp(names[i], comps[names[i]]["inp"]) for i in range(n)):
        bad("zero_order_inputs", "order_differs", f"zero_order_inputs {zin} do not match the inputs of {names}")
    eqd = {e["comp"]: e for e in case["eqs"]}
    if len(eqs) != n:
        bad("eqs", "count", f"{len(eqs)} equations for {n} compartments")
    else:
        total = sp.Integer(0)
        for i in range(n):
            e = eqd[names[i]]
            exp = sum((t["sign"] * E.rate(t["src"], t["dst"], t["kind"]) * E.amount(t["amount"]) for t in e["terms"]), sp.Integer(0)) + E.inp(names[i], e["input"])
            if eqs[i].lhs != sp.Derivative(E.amount(names[i]), E.t):
                bad("eqs", "order_differs", f"equation {i} is for {eqs[i].lhs}, compartment_names[{i}] = {names[i]}")
                break
            if not E.zero(eqs[i].rhs - exp, rng):
                bad("eqs", "wrong_rhs", f"d/dt A_{names[i]} = {eqs[i].rhs}, specification (inflows - outflows + input) {exp}")
                break
            total += eqs[i].rhs
        else:
            # eqs == M*A + u on the real objects, and total mass changes only through outputs and inputs
            ma = M * sp.Matrix(amounts) + sp.Matrix(zin)
            if any(not E.zero(eqs[i].rhs - ma[i], rng) for i in range(n)):
                bad("eqs", "not_matrix_times_amounts", "eqs differ from compartmental_matrix*amounts + zero_order_inputs")
            bal = total + sum((exp_rate(a, "OUT") * E.amount(a) for a in names), sp.Integer(0)) - sum((E.inp(a, comps[a]["inp"]) for a in names), sp.Integer(0))
            if not E.zero(bal, rng):
                bad("mass_balance", "eqs_sum", f"sum of right hand sides + outputs - inputs = {sp.simplify(bal)} (not 0)")

    # ---- dosing compartments
    nchecks += 1
    try:
        dc = [c.name for c in cs.dosing_compartments]
    except ValueError:
        dc = None
    except Exception as e:  # noqa: BLE001
        bad("dosing_compartments", type(e).__name__, f"{type(e).__name__}: {e}")
        dc = "err"
    if dc != "err":
        dosed = sorted(a for a, c in comps.items() if c["doses"])
        if dc is not None and sorted(dc) != dosed:
            bad("dosing_compartments", "wrong_set", f"dosing_compartments {dc}, compartments with doses {dosed}")
        elif dc is not None and case["nout"] == 1 and case["central"] in dc and dc[-1] != case["central"]:
            bad("dosing_compartments", "central_not_last", f"dosing_compartments {dc}: the central compartment {case['central']} is documented to come last")
        if (dc or []) != case["dosing"]:
            drift.append(f"dosing_compartments {dc} vs transcription {case['dosing']}")

    # ---- equations -> system
    def back():
        namesmap = {E.Expr(a): nm for a, nm in zip(cs.amounts, names)}
        cs2 = E.tcs(namesmap, cs.eqs)
        names2 = sorted(c.name for c in cs2._g.nodes if c is not E.output)
        if names2 != sorted(names):
            return f"compartments {names2}"
        for a in names:
            ca = cs2.find_compartment(a)
            for b in names + ["OUT"]:
                if a != b:
                    got = sp.sympify(cs2.get_flow(ca, E.output if b == "OUT" else cs2.find_compartment(b)))
                    if not E.zero(got - exp_rate(a, b), rng):
                        return f"flow {a}->{b} is {got}, expected {exp_rate(a, b)}"
            if not E.zero(sp.sympify(ca.input) - E.inp(a, comps[a]["inp"]), rng):
                return f"input of {a} is {ca.input}, expected {E.inp(a, comps[a]['inp'])}"
        return None

    m = guarded("to_compartmental_system", back)
    if m:
        bad("to_compartmental_system", "not_equivalent", f"to_compartmental_system(names, eqs) does not give back the system: {m}",
            has_second_order_flow=any(f["kind"] == 4 and f["dst"] != "OUT" for f in case["flows"]))

    # ---- serialisation
    def ser():
        return E.CS.from_dict(cs.to_dict())

    cs3 = guarded("from_dict_to_dict", ser)
    if cs3 is not None:
        m = project(cs3, what="from_dict(to_dict(cs))")
        if m:
            bad("from_dict_to_dict", "content_changed", m)
        nchecks += 1
        try:
            if not (cs3 == cs):
                order0 = [c.name for c in cs._g.nodes if c is not E.output]
                order1 = [c.name for c in cs3._g.nodes if c is not E.output]
                bad("from_dict_to_dict_eq", "not_equal",
                    f"from_dict(to_dict(cs)) != cs (node order {order0} -> {order1}; central/dosing compartments depend on it)",
                    n_out_ge2=case["nout"] >= 2, node_order_changed_by_roundtrip=order0 != order1)
        except Exception as e:  # noqa: BLE001
            bad("from_dict_to_dict_eq", type(e).__name__, f"from_dict(to_dict(cs)) == cs raised {type(e).__name__}: {e}")

    # ---- substitution: {} and the identity leave everything, a fresh name for one symbol moves just that symbol
    syms = sorted(cs.free_symbols, key=str)
    for label, sub, ren in (
        ("subs({})", {}, None),
        ("subs(identity)", {s: s for s in syms}, None),
    ):
        r = guarded(label, lambda: cs.subs(sub))
        if r is not None:
            m = project(r, ren, what=label)
            if m:
                bad("subs", "content_changed", m, sub=label)
            else:
                after = list(r.compartment_names)
                if after != names:
                    bad("subs", "order_changed", f"{label} changed compartment_names from {names} to {after}", sub=label,
                        spec_predicts_order_change=any(o != case["order"] for o in case["subs_orders"]))
                if after not in case["subs_orders"]:
                    drift.append(f"{label}: order {after} vs transcription {case['subs_orders']}")
    def equations_of(cs_, ren, what):
        """names / amounts / eqs of a (substituted) system against the TLC terms rendered with the renaming"""
        nm = list(cs_.compartment_names)
        am = [sp.sympify(x) for x in cs_.amounts]
        es = [sp.sympify(e) for e in cs_.eqs]
        if sorted(nm) != sorted(case["nodes"]) or len(am) != len(nm) or len(es) != len(nm):
            return f"{what}: names {nm}, {len(am)} amounts, {len(es)} equations"
        for i, a in enumerate(nm):
            if am[i] != E.amount(a, ren):
                return f"{what}: amounts[{i}] = {am[i]}, expected {E.amount(a, ren)} for {a}"
            e = eqd[a]
            exp = sum((t["sign"] * E.rate(t["src"], t["dst"], t["kind"], ren) * E.amount(t["amount"], ren) for t in e["terms"]), sp.Integer(0)) + E.inp(a, e["input"])
            if es[i].lhs != sp.Derivative(E.amount(a, ren), E.t) or not E.zero(es[i].rhs - exp, rng):
                return f"{what}: equation {es[i]}, expected d/dt {E.amount(a, ren)} = {exp}"
            stray = {f.func.__name__ for f in es[i].rhs.atoms(sp.core.function.AppliedUndef)} - {E.amount(b, ren).func.__name__ for b in nm}
            if stray:
                return f"{what}: the right hand side of {a} contains {sorted(stray)} which is not an amount of the system"
        return None

    def subs_case(label, sub, ren, kind):
        r = guarded(label, lambda: cs.subs(sub))
        if r is not None:
            m = guarded(label, lambda: project(r, ren, what=label) or (equations_of(r, ren, label) if kind != "rename" else None))
            if m:
                bad("subs", "content_changed", m, sub=kind)

    # one symbol of a rate gets a fresh name
    rate_syms = [s for s in syms if str(s).startswith(("K_", "KA_", "KB_", "CL_", "VM_", "Q1_", "K2_", "KD_"))]
    if rate_syms:
        s0 = rate_syms[rng.randrange(len(rate_syms))]
        ren = {str(s0): "Z_" + str(s0)}
        subs_case(f"subs({s0} -> {ren[str(s0)]})", {s0: E.Expr.symbol(ren[str(s0)])}, ren, "rename")
    # a state variable is renamed: A_c(t) -> B_c(t), preferably one that occurs in a nonlinear rate
    nl = sorted({f["src"] for f in case["flows"] if f["kind"] in (2, 4)} | {f["dst"] for f in case["flows"] if f["kind"] == 4 and f["dst"] != "OUT"})
    c0 = nl[rng.randrange(len(nl))] if nl else names[rng.randrange(n)]
    ren = {f"A_{c0}": f"B_{c0}"}
    subs_case(f"subs(A_{c0}(t) -> B_{c0}(t))", {E.Expr(E.amount(c0)): E.Expr(E.amount(c0, ren))}, ren, "amount_function")
    # a compound expression is replaced: CL_c/V_c -> KEL_c (re-parametrisation)
    lin_out = sorted(f["src"] for f in case["flows"] if f["dst"] == "OUT" and f["kind"] == 1)
    if lin_out:
        c1 = lin_out[rng.randrange(len(lin_out))]
        ren = {f"CL_{c1}/V_{c1}": f"KEL_{c1}"}
        subs_case(f"subs(CL_{c1}/V_{c1} -> KEL_{c1})", {E.Expr(E.rate(c1, "OUT", 1)): E.Expr.symbol(f"KEL_{c1}")}, ren, "compound")
    return viol, drift, nchecks


def _replay_chunk(arg):
    cases, seed = arg
    out = []
    for c in cases:
        try:
            out.append(check_case(c, seed))
        except core.MachineryError as e:
            out.append(("machinery", str(e), 0))
    return out


MAX_REPORTED = 150


def main(tier: str, seed: int) -> int:
    suppressed = 0
    v = core.Verdict("C05", tier, seed)
    v.assumptions = [
        "rates are distinct positive symbols per flow (K_a_b, CL_a/V_a to the output) or the nonlinear VM/(KM + A_a(t)); builder methods are "
        "called with compartments that are in the builder, distinct source and destination, and names not yet present",
        "the exact compartment order and the order of dosing compartments are design-level (drift only): the property demands ONE order "
        "shared by names, amounts, matrix, inputs and equations, which is what is judged",
    ]
    cases = _tlc_cases(tier, seed, v)
    core.use_repo()
    import pharmpy.model  # noqa: F401

    rng = random.Random(seed)
    rng.shuffle(cases)
    budget = {"quick": 480, "thorough": 40000}[tier]
    fam = [c for c in cases if any(f["kind"] == 4 for f in c["flows"]) or len(c["nodes"]) >= 4]   # second-order / 4-compartment class
    rest = [c for c in cases if c not in fam] if tier == "quick" else cases
    fam.sort(key=lambda c: not c.get("confluence"))   # every confluence state first (stable: the rest stays shuffled)
    work = (rest[: budget - min(len(fam), 180)] + fam[:180]) if tier == "quick" else cases[:budget]
    chunks = [(work[i : i + 10], seed) for i in range(0, len(work), 10)]
    results = [r for ch in core.pmap(_replay_chunk, chunks, procs=16, chunk=1) for r in ch]
    ndrift, nchecks, nontrivial = 0, 0, 0
    for c, r in zip(work, results):
        if r[0] == "machinery":
            raise core.MachineryError(r[1])
        viol, drift, k = r
        for rec, what in viol:
            # replay files carry the whole TLC case: write at most MAX_REPORTED of them, count the rest
            if len(v.violations) < MAX_REPORTED or core.match_known(v.prop, rec, v.known) is not None:
                v.violation(rec, what)
            else:
                suppressed += 1
        ndrift += len(drift)
        nchecks += k
        for dn in drift[:1]:
            if len(v.notes) < 20:
                v.notes.append("drift: " + dn)
        if len(c["nodes"]) >= 2 and len(c["flows"]) >= 2:
            nontrivial += 1
    v.add_coverage(
        cases_emitted_by_tlc=len(cases),
        cases_replayed=len(work),
        evaluations=nchecks,
        distinct_nontrivial=nontrivial,
        traces_validated_against_impl=len(work),
        drift_observations=ndrift,
        rule="every digraph within the constants (each node order, optional dose / input) is a TLC state and satisfies the design theorems; "
        "builder operations are explored from the seeds selected by VERIF_SEED; a hash-sampled 1/SampleMod of all states is replayed; "
        "non-trivial = at least 2 compartments and 2 flows",
        samples=[{"history": _hist_text(c["hist"]), "order": c["order"], "flows": c["flows"]} for c in work[:3]],
        exhaustive=False,
    )
    if suppressed:
        v.notes.append(f"{suppressed} further violations not written as replay files (cap {MAX_REPORTED})")
        print(f"  ... and {suppressed} further violations beyond the first {MAX_REPORTED}")
    return v.finish(min_traces=200)


def replay(path: str) -> int:
    core.use_repo()
    data = json.loads(open(path).read())
    case = data["case"]
    print("recorded:", data["what"][:800])
    viol, _, _ = check_case(case["tlc_case"])
    hits = [(r, w) for r, w in viol if r["check"] == case["check"]]
    for r, w in hits:
        print("REPRODUCED:", w[:800])
    if not hits:
        print("not reproduced on this tree")
    return 1 if hits else 0
