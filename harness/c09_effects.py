"""C09 - Model extensions implement documented formulas and are neutral at reference.

spec -> code : TLC explores the history machine spec/features/Effects.tla (which parameter x covariate x
               effect x operation, which eta form, which error model, which absorption setter; histories of
               bounded length), proves the design-level theorems on the abstract semantics and emits every
               history as a CASE.  The driver executes the histories on the real pharmpy functions.
code -> spec : per call the driver logs exact rational probe values (harness/qeval.py) of the individual
               parameters / F / Y before and after, the thetas it assigned, the covariate probe value and the
               dataset statistics it computed itself from model.dataset.  TLC (EffectsTrace.tla) re-runs the
               machine on the logged calls, evaluates the documented formula (EffectsDefs.tla) on the logged
               values and prints a judgement per event.  TLC is the independent evaluator; Python only
               projects and compares.
"""
from __future__ import annotations

import json
import random
import shutil
import threading
import time
from fractions import Fraction

from . import core
from . import c09_probe as P
from .c09_probe import fr, qj
from .qeval import ONE, ZERO, Q

SPEC = core.SPEC / "features"
REFUSALS = ("ValueError", "NotImplementedError", "ModelError", "ModelSyntaxError")
KINDS = ["reread", "elim", "addcov", "rmcov", "allometry", "addiiv", "rmiiv", "addiov", "rmiov", "transform", "seterr", "rmerr",
         "power", "iivruv", "timevar", "weighted", "joineps", "abs", "transit"]

_MODELS = {}

# pheno written by hand with the covariate effect on CL inside an exponential and no eta on CL: an exponential eta
# added to CL shares the exponential with the covariate term (remove_iiv must take out the eta only)
PHENOEXP = """$PROBLEM PHENOBARB, COVARIATE CODED INSIDE EXP
$DATA @DATA@ IGNORE=@
$INPUT ID TIME AMT WGT APGR DV FA1 FA2
$SUBROUTINE ADVAN1 TRANS2
$PK
TVCL = THETA(1)
TVV = THETA(2)*WGT
IF(APGR.LT.5) TVV = TVV*(1 + THETA(3))
CL = TVCL*EXP(THETA(4)*(WGT - 1.3))
V = TVV*EXP(ETA(1))
S1 = V

$ERROR
Y = F + F*EPS(1)

$THETA  (0,0.00469307) ; POP_CL
$THETA  (0,1.00916) ; POP_VC
$THETA  (-.99,.1) ; COVAPGR
$THETA  (-5,0.3,5) ; CLWGT_EXP
$OMEGA  0.031128 ; IIV_VC
$SIGMA  0.0130865 ; SIGMA
$ESTIMATION METHOD=1 INTERACTION MAXEVALS=99999
"""


def start_model(name):
    if name not in _MODELS:
        from pharmpy.modeling import load_example_model, read_model

        if name == "pheno":
            _MODELS[name] = load_example_model("pheno")
        elif name == "pheno2dv":
            from pharmpy.modeling import add_metabolite

            from pharmpy.modeling import set_additive_error_model

            # both dependent variables start with an additive error model (world pheno2dv: err0 = "add")
            _MODELS[name] = set_additive_error_model(set_additive_error_model(add_metabolite(load_example_model("pheno"))), dv=2)
        elif name == "phenoexp":
            from pharmpy.model import Model

            _MODELS[name] = Model.parse_model_from_string(PHENOEXP.replace("@DATA@", str(core.REPO / "tests/testdata/nonmem/pheno.dta")))
        else:
            _MODELS[name] = read_model(core.REPO / "tests/testdata/nonmem/models/mox2.mod")
    return _MODELS[name]


# ----------------------------------------------------------------------------- dataset statistics (driver's own)


def _uniq(qs):
    out = []
    for x in qs:
        if x not in out:
            out.append(x)
    return out


def cov_stats(model, c):
    """Centring statistics computed directly from model.dataset, in every reading the documentation admits:
    median = median of the baselines / median of the individual medians; mode = most common category among
    baselines / individuals / records (all tied values)."""
    df = model.dataset
    idc = model.datainfo.id_column.name
    g = df.groupby(idc)[c]
    base = g.first()

    def modes(s):
        vc = s.value_counts()
        return [float(x) for x in vc[vc == vc.max()].index]

    med = [float(base.median()), float(g.median().median())]
    mean = [float(base.mean()), float(g.mean().mean()), float(df[c].mean())]
    mode = modes(base) + modes(df.drop_duplicates([idc, c])[c]) + modes(df[c])
    cats = sorted(float(x) for x in df[c].dropna().unique())
    return {
        # which reading each admissible median is (equal readings collapse)
        "median_reading": (["baselines", "individual_medians"] if fr(med[0]) != fr(med[1]) else ["baselines=individual_medians"]),
        "median": [qj(x) for x in _uniq([fr(x) for x in med])],
        "mean": [qj(x) for x in _uniq([fr(x) for x in mean])],
        "mode": [qj(x) for x in _uniq([fr(x) for x in mode])],
    }, [fr(x) for x in cats]


# ----------------------------------------------------------------------------- action executors
# each returns (model_after, event_fields)


# per corpus model: probe values that keep hand-written exponentials inside Q (EXP(theta*(WGT - 1.3)) needs an integer)
MODEL_OVER = {"phenoexp": {"WGT": Fraction(23, 10), "CLWGT_EXP": 2}}
_BASE_OVER: dict = {}


def _be(models, salt=0, etas="small", eps="zero", over=None):
    return P.base_env(models, salt, etas, eps, {**_BASE_OVER, **(over or {})})


class Ctx:
    def __init__(self, seed):
        self.rng = random.Random(seed)
        self.salt = seed % 5


def _new_params(m1, m2):
    return [n for n in m2.parameters.names if n not in m1.parameters.names]


def _new_rvs(m1, m2):
    return [n for n in m2.random_variables.names if n not in m1.random_variables.names]


def _etas_of(model, p):
    return [e for e in model.random_variables.etas.names if p in P.downstream(model, {e})]


def _frame(m1, m2, env, roots):
    v1, _ = P.run(m1, env)
    v2, _ = P.run(m2, env)
    # "everything else": neither computed from the extended parameter nor part of its own definition
    ex = P.downstream(m1, set(roots)) | P.downstream(m2, set(roots)) | P.upstream(m1, set(roots)) | P.upstream(m2, set(roots))
    return P.frame_pairs(v1, v2, ex)


def do_addcov(m1, act, cx):
    from pharmpy.modeling import add_covariate_effect

    p, c, eff, op = act["p"], act["c"], act["x"], act["y"]
    stat, cats = cov_stats(m1, c)
    m2 = add_covariate_effect(m1, p, c, eff, op)
    new = _new_params(m1, m2)
    if eff in ("cat", "cat2"):
        th = [Q(j + 2) for j in range(len(new))]
        cvals = cats
    else:
        th = {"lin": [cx.rng.choice([2, 3, -1])], "exp": [cx.rng.choice([1, -1, 2])],
              "pow": [cx.rng.choice([2, -1, 3])], "piece_lin": [cx.rng.choice([2, 3]), cx.rng.choice([-3, -1, 5])]}[eff]
        th = [Q(t) for t in th][: max(len(new), 0)] if new else []
        refs = [Q(Fraction(n, d)) for n, d in stat["median"]]
        cvals = _uniq([r + Q(d) for r in refs for d in (0, 1, -1, 2)])
    over = dict(zip(new, th))
    pts = []
    for cv in cvals[:14]:
        env = _be([m1, m2], cx.salt, "small", "zero", {**over, c: cv})
        v1, _ = P.run(m1, env)
        v2, _ = P.run(m2, env)
        pts.append({"c": qj(cv), "th": [qj(t) for t in th], "b": qj(v1.get(p)), "a": qj(v2.get(p))})
    env = _be([m1, m2], cx.salt + 1, "small", "zero", over)
    return m2, {"effect": eff, "op": op, "stat": stat, "pts": pts, "frame": _frame(m1, m2, env, {p}),
                "thetas": new}


def _two_values(model, c, cx):
    _, cats = cov_stats(model, c)
    if len(cats) >= 2 and len(cats) <= 12:
        return cats[0], cats[-1]
    return Q(Fraction(7, 2)), Q(Fraction(11, 3))


def do_rmcov(m1, act, cx):
    from pharmpy.modeling import remove_covariate_effect

    p, c = act["p"], act["c"]
    m2 = remove_covariate_effect(m1, p, c)
    x1, x2 = _two_values(m1, c, cx)
    indep = []
    for salt in (cx.salt, cx.salt + 1):
        a = []
        for x in (x1, x2):
            v2, _ = P.run(m2, _be([m1, m2], salt, "small", "zero", {c: x}))
            a.append(qj(v2.get(p)))
        indep.append(a)
    env = _be([m1, m2], cx.salt, "small", "zero")
    return m2, {"indep": indep, "frame": _frame(m1, m2, env, {p})}


def do_addiiv(m1, act, cx):
    from pharmpy.modeling import add_iiv

    p, form, op = act["p"], act["x"], act["y"]
    m2 = add_iiv(m1, p, form, op)
    new = [n for n in _new_rvs(m1, m2)]
    eta = new[0]
    over = {}
    env0 = _be([m1, m2], cx.salt, "small", "zero")
    if form == "re_log":
        # the rescaled logit needs a typical value in (0, 1); 2/3 and 4/5 give log2(P/(1-P)) = 1, 2
        r = P.retarget(m1, env0, p, Fraction(*cx.rng.choice([(2, 3), (4, 5)])))
        if r:
            over = r[0]
    pts = []
    for e in (0, 1, -1, 2):
        env = _be([m1, m2], cx.salt, "small", "zero", {**over, eta: e})
        v1, _ = P.run(m1, env)
        v2, _ = P.run(m2, env)
        pts.append({"eta": qj(Q(e)), "b": qj(v1.get(p)), "a": qj(v2.get(p))})
    return m2, {"form": form, "op": op, "pts": pts, "frame": _frame(m1, m2, env0, {p, eta}), "eta_name": eta}


def do_rmiiv(m1, act, cx):
    from pharmpy.modeling import remove_iiv

    p = act["p"]
    etas = _etas_of(m1, p)
    m2 = remove_iiv(m1, p)          # documented input form: the name of the individual parameter
    pts, indep = [], []
    for salt in (cx.salt, cx.salt + 2):
        env = _be([m1, m2], salt, "small", "zero")
        v0, _ = P.run(m1, {**env, **{e: ZERO for e in etas}})
        v2, _ = P.run(m2, env)
        pts.append({"b0": qj(v0.get(p)), "a": qj(v2.get(p))})
        # after the removal the parameter does not depend on its former etas
        va, _ = P.run(m2, {**env, **{e: ONE for e in etas}})
        vb, _ = P.run(m2, {**env, **{e: Q(-1) for e in etas}})
        indep.append([qj(va.get(p)), qj(vb.get(p))])
    env = _be([m1, m2], cx.salt, "small", "zero")
    ev = {"pts": pts, "indep": indep, "frame": _frame(m1, m2, env, {p} | set(etas))}
    if _etas_of(m2, p):
        # nothing was removed (judged above); continue the history with the eta names so that later steps are meaningful
        m2 = remove_iiv(m1, etas)
        ev["fallback"] = "eta_names"
    return m2, ev


def _levels(model, occ):
    return sorted({int(x) for x in model.dataset[occ].unique()})


def do_addiov(m1, act, cx):
    from pharmpy.modeling import add_iov

    p, occ = act["p"], act["c"]
    etas = _etas_of(m1, p)
    problem = None
    try:
        m2 = add_iov(m1, occ, [p])      # documented input form: parameter names
    except AssertionError as e:
        problem = {"outcome": "AssertionError", "message": str(e)[:200]}
        m2 = add_iov(m1, occ, [etas[0]])
    new = _new_rvs(m1, m2)
    eta_p = etas[0]
    levels = _levels(m1, occ)
    kvals = [Q(k + 2) for k in range(len(new))]
    pts = []
    for li, lev in enumerate(levels[:4]):
        for e in (1, -1):
            for kset in (kvals, [ZERO] * len(new)):
                over = {occ: lev, eta_p: e, **dict(zip(new, kset))}
                env = _be([m1, m2], cx.salt, "small", "zero", over)
                bt = []
                for x in range(-2, len(new) + 4):
                    vb, _ = P.run(m1, {**env, eta_p: Q(x)})
                    bt.append([qj(Q(x)), qj(vb.get(p))])
                v2, _ = P.run(m2, env)
                pts.append({"lev": li + 1, "eta": qj(Q(e)), "kaps": [qj(k) for k in kset], "a": qj(v2.get(p)), "bt": bt})
    env = _be([m1, m2], cx.salt, "small", "zero", {k: ZERO for k in new})
    return m2, {"pts": pts, "frame": _frame(m1, m2, env, {p, eta_p}), "new_etas": new, "_problem": problem}


def do_rmiov(m1, act, cx):
    from pharmpy.modeling import remove_iov

    iov = list(m1.random_variables.iov.names)
    m2 = remove_iov(m1)
    pts = []
    env = _be([m1, m2], cx.salt, "small", "zero")
    v0, _ = P.run(m1, {**env, **{e: ZERO for e in iov}})
    v2, _ = P.run(m2, env)
    for n in v2:
        if n in v0:
            pts.append({"b0": qj(v0[n]), "a": qj(v2[n])})
    return m2, {"pts": pts[:30], "frame": []}


def do_transform(m1, act, cx):
    from pharmpy.modeling import transform_etas_boxcox, transform_etas_john_draper, transform_etas_tdist

    p, tr = act["p"], act["x"]
    eta_p = _etas_of(m1, p)[0]
    fn = {"boxcox": transform_etas_boxcox, "tdist": transform_etas_tdist, "john_draper": transform_etas_john_draper}[tr]
    m2 = fn(m1, [eta_p])
    new = _new_params(m1, m2)
    tvar = {"boxcox": "ETAB1", "tdist": "ETAT1", "john_draper": "ETAD1"}[tr]
    lam = Q(cx.rng.choice([2, 3])) if tr != "tdist" else Q(cx.rng.choice([3, 4]))
    pts = []
    for e in (0, 1, -1, 2):
        env = _be([m1, m2], cx.salt, "small", "zero", {eta_p: e, **{n: lam for n in new}})
        v1, _ = P.run(m1, env)
        v2, _ = P.run(m2, env)
        pts.append({"eta": qj(Q(e)), "lam": qj(lam), "t": qj(v2.get(tvar)), "b": qj(v1.get(p)), "a": qj(v2.get(p))})
    # fractional lambda: only the neutral point is in Q
    env = _be([m1, m2], cx.salt, "small", "zero", {eta_p: 0})
    v1, _ = P.run(m1, env)
    v2, _ = P.run(m2, env)
    pts.append({"eta": qj(ZERO), "lam": qj(env.get(new[0]) if new else None), "t": qj(v2.get(tvar)), "b": qj(v1.get(p)), "a": qj(v2.get(p))})
    env = _be([m1, m2], cx.salt, "small", "zero", {n: lam for n in new})
    return m2, {"tr": tr, "pts": pts, "frame": _frame(m1, m2, env, {eta_p})}


def do_allometry(m1, act, cx):
    from pharmpy.modeling import add_allometry

    var = act["c"]
    z = cx.rng.choice([70, 2, 5])
    m2 = add_allometry(m1, allometric_variable=var, reference_value=z)
    new = _new_params(m1, m2)
    targets = [n[len("ALLO_"):] for n in new]
    pts = []
    scaled = list(targets) + [p for p in ("CL", "VC", "V") if p in P.assigned_names(m1) and p not in targets]
    for p in scaled:
        tname = "ALLO_" + p
        for x in (Q(z), Q(2 * z), Q(Fraction(z, 2)), Q(3 * z)):
            for t in (1, 2, -1):
                over = {var: x, **({tname: t} if tname in new else {})}
                env = _be([m1, m2], cx.salt, "small", "zero", over)
                v1, _ = P.run(m1, env)
                v2, _ = P.run(m2, env)
                # a candidate that got no exponent carries no formula of its own (t undefined: skipped); whether it
                # had to be scaled is decided by the machine (AlloVolumeTargets must be among e.targets)
                pts.append({"p": p, "x": qj(x), "z": qj(Q(z)), "t": qj(Q(t)) if tname in new else list(P.UNDEF),
                            "b": qj(v1.get(p)), "a": qj(v2.get(p))})
        # the exponent at its own (fractional) probe value: only X = Z is in Q
        env = _be([m1, m2], cx.salt, "small", "zero", {var: Q(z)})
        v1, _ = P.run(m1, env)
        v2, _ = P.run(m2, env)
        pts.append({"p": p, "x": qj(Q(z)), "z": qj(Q(z)), "t": qj(env.get(tname)), "b": qj(v1.get(p)), "a": qj(v2.get(p))})
    env = _be([m1, m2], cx.salt, "small", "zero", {var: Q(3 * z), **{n: 2 for n in new}})
    return m2, {"pts": pts, "frame": _frame(m1, m2, env, set(scaled)), "targets": targets}


def _yname(model):
    return str(list(model.dependent_variables.keys())[0])


def _eps_names(model):
    return list(model.random_variables.epsilons.names)


def _amount_names(model):
    cs = model.statements.ode_system
    return list(cs.compartment_names) if cs is not None else []


def _eps_roles(model, kind):
    """(e1, e2): e1 = proportional epsilon or the only one, e2 = additive epsilon of a combined model"""
    names = _eps_names(model)
    if kind == "comb":
        ep = [n for n in names if n.startswith("epsilon_p")]
        ea = [n for n in names if n.startswith("epsilon_a")]
        if ep and ea:
            return ep[0], ea[0]
    return (names[0] if names else None), (names[1] if len(names) > 1 else None)


def _y_at(model, env, amounts, eps_over):
    v, _ = P.run(model, {**env, **{k: fr(x) for k, x in eps_over.items() if k}}, amounts)
    return v


def do_seterr(m1, act, cx):
    from pharmpy.modeling import set_additive_error_model, set_combined_error_model, set_proportional_error_model

    kind, trans = act["x"], act["y"]
    fn = {"add": set_additive_error_model, "prop": set_proportional_error_model, "comb": set_combined_error_model}[kind]
    dv = int(act["c"]) if act["c"] else None       # the dv argument (DVID) on models with several dependent variables
    y = _yname(m1) if dv is None else [str(k) for k, val in m1.dependent_variables.items() if val == dv][0]
    kw = {} if dv is None else {"dv": dv}
    if trans == "nozp":     # set_proportional_error_model(..., zero_protection=False)
        kw["zero_protection"] = False
    m2 = fn(m1, data_trans=f"log({y})", **kw) if trans == "log" else fn(m1, **kw)
    # the epsilons of THIS dependent variable: e1 = proportional or only one, e2 = additive one of a combined model
    mine = [n for n in _eps_names(m2) if n in P.upstream(m2, {y})]
    e1, e2 = _eps_roles(m2, kind)
    if dv is not None or e1 not in mine:
        e1, e2 = (mine[0] if mine else None), (mine[1] if len(mine) > 1 else None)
    env = _be([m1, m2], cx.salt, "small", "zero")
    amounts = None
    if trans == "log":
        # LOG is decided by TLC for powers of two only: scale the amount so that the prediction is 2, 4 or 8
        tgt = cx.rng.choice([2, 4, 8])
        for cname in _amount_names(m1):
            r = P.retarget(m1, env, y, tgt, None, scale_amount=cname)
            if r:
                amounts = r[1]
                break
    pts = []
    combos = [(a, b) for a in (-1, 0, 1) for b in ((-1, 0, 1) if e2 else (0,))]
    for a, b in combos:
        f = _y_at(m1, env, amounts, {n: 0 for n in _eps_names(m1)}).get(y)
        v2 = _y_at(m2, env, amounts, {**{n: 0 for n in _eps_names(m2)}, e1: a, e2: b})
        pts.append({"e1": qj(Q(a)), "e2": qj(Q(b)), "f": qj(f), "a": qj(v2.get(y))})
    v1, _ = P.run(m1, env, amounts)
    v2, _ = P.run(m2, env, amounts)
    return m2, {"kind": kind, "trans": trans, "pts": pts, "frame": P.frame_pairs(v1, v2, {y})}


def do_rmerr(m1, act, cx):
    from pharmpy.modeling import remove_error_model

    m2 = remove_error_model(m1)
    y = _yname(m1)
    pts = []
    for salt in (cx.salt, cx.salt + 1):
        env = _be([m1, m2], salt, "small", "small")
        f = _y_at(m1, env, None, {n: 0 for n in _eps_names(m1)}).get(y)
        v2, _ = P.run(m2, env)
        pts.append({"f": qj(f), "a": qj(v2.get(y))})
    env = _be([m1, m2], cx.salt, "small", "zero")
    v1, _ = P.run(m1, env)
    v2, _ = P.run(m2, env)
    return m2, {"pts": pts, "frame": P.frame_pairs(v1, v2, {y})}


def do_power(m1, act, cx):
    from pharmpy.modeling import set_power_on_ruv

    m2 = set_power_on_ruv(m1)
    y = _yname(m1)
    new = _new_params(m1, m2)
    eps = _eps_names(m1)
    kind = act.get("_err", "prop")
    # theta i belongs to epsilon i (order of the random variables); neutral exponent: 1 on a proportional
    # term (the factor f is replaced by f**theta), 0 on an additive term
    e1, e2 = _eps_roles(m1, kind)
    order = {n: i for i, n in enumerate(eps)}
    pts = []
    neutral = {"prop": (1, 0), "add": (0, 0), "comb": (1, 0)}[kind]
    for th1, th2 in [neutral, (2, 1), (0, 2), (3, 3)]:
        for a, b in [(1, 0), (-1, 1 if e2 else 0), (0, 1 if e2 else 0)]:
            over = {}
            if e1 is not None and order[e1] < len(new):
                over[new[order[e1]]] = th1
            if e2 is not None and order[e2] < len(new):
                over[new[order[e2]]] = th2
            env = _be([m1, m2], cx.salt, "small", "zero", over)
            zero = {n: 0 for n in eps}
            f = _y_at(m1, env, None, zero).get(y)
            yb = _y_at(m1, env, None, {**zero, e1: a, e2: b}).get(y)
            ya = _y_at(m2, env, None, {**zero, e1: a, e2: b}).get(y)
            pts.append({"e1": qj(Q(a)), "e2": qj(Q(b)), "th1": qj(Q(th1)), "th2": qj(Q(th2 if e2 else 0)), "f": qj(f),
                        "yb": qj(yb), "a": qj(ya), "nref": (th1, th2) == neutral})
    env = _be([m1, m2], cx.salt, "small", "zero")
    v1, _ = P.run(m1, env)
    v2, _ = P.run(m2, env)
    return m2, {"pts": pts, "frame": P.frame_pairs(v1, v2, {y}), "base": kind}


def do_iivruv(m1, act, cx):
    from pharmpy.modeling import set_iiv_on_ruv

    m2 = set_iiv_on_ruv(m1)
    y = _yname(m1)
    new = _new_rvs(m1, m2)
    eps = _eps_names(m1)
    pts = []
    for eta in (0, 1, -1):
        for sgn in (1, -1):
            env = _be([m1, m2], cx.salt, "small", "zero", {n: eta for n in new})
            f = _y_at(m1, env, None, {n: 0 for n in eps}).get(y)
            eo = {n: sgn * (i + 1) for i, n in enumerate(eps)}
            yb = _y_at(m1, env, None, eo).get(y)
            ya = _y_at(m2, env, None, eo).get(y)
            pts.append({"eta": qj(Q(eta)), "f": qj(f), "yb": qj(yb), "a": qj(ya)})
    env = _be([m1, m2], cx.salt, "small", "zero")
    v1, _ = P.run(m1, env)
    v2, _ = P.run(m2, env)
    return m2, {"pts": pts, "frame": P.frame_pairs(v1, v2, {y})}


def do_timevar(m1, act, cx):
    from pharmpy.modeling import set_time_varying_error_model

    cut = cx.rng.choice([5, 12])
    idv = m1.datainfo.idv_column.name
    m2 = set_time_varying_error_model(m1, cutoff=float(cut), idv=idv)
    y = _yname(m1)
    new = _new_params(m1, m2)
    eps = _eps_names(m1)
    pts = []
    for t in (cut - 1, cut, cut + 2):
        for th in (1, 3):
            env = _be([m1, m2], cx.salt, "small", "zero", {idv: t, **{n: th for n in new}})
            f = _y_at(m1, env, None, {n: 0 for n in eps}).get(y)
            eo = {n: (i + 1) for i, n in enumerate(eps)}
            yb = _y_at(m1, env, None, eo).get(y)
            ya = _y_at(m2, env, None, eo).get(y)
            pts.append({"t": qj(Q(t)), "cut": qj(Q(cut)), "th": qj(Q(th)), "f": qj(f), "yb": qj(yb), "a": qj(ya)})
    env = _be([m1, m2], cx.salt, "small", "zero", {idv: cut + 2})
    v1, _ = P.run(m1, env)
    v2, _ = P.run(m2, env)
    return m2, {"pts": pts, "frame": P.frame_pairs(v1, v2, {y})}


def do_weighted(m1, act, cx):
    from pharmpy.modeling import set_weighted_error_model

    m2 = set_weighted_error_model(m1)
    y = _yname(m1)
    eps = _eps_names(m1)
    pts = []
    for a in (-1, 0, 1, 2):
        env = _be([m1, m2], cx.salt, "small", "zero")
        eo = {n: a for n in eps}
        pts.append({"yb": qj(_y_at(m1, env, None, eo).get(y)), "a": qj(_y_at(m2, env, None, {n: a for n in _eps_names(m2)}).get(y))})
    env = _be([m1, m2], cx.salt, "small", "zero")
    v1, _ = P.run(m1, env)
    v2, _ = P.run(m2, env)
    return m2, {"pts": pts, "frame": P.frame_pairs(v1, v2, {y, "W"})}


def do_joineps(m1, act, cx):
    """create_joint_distribution over all epsilons (correlated residual errors): the model function stays the same"""
    from pharmpy.modeling import create_joint_distribution

    eps = _eps_names(m1)
    m2 = create_joint_distribution(m1, list(eps))
    dists = [d for d in m2.random_variables.epsilons if set(d.names) >= set(eps)]
    if len(eps) < 2 or not dists:
        raise core.MachineryError(f"joineps: the epsilons {eps} are not in one distribution after create_joint_distribution")
    y = _yname(m1)
    pts = []
    for a, b in [(0, 0), (1, 0), (0, 1), (-1, 2)]:
        env = _be([m1, m2], cx.salt, "small", "zero")
        eo = {eps[0]: a, eps[1]: b}
        pts.append({"yb": qj(_y_at(m1, env, None, eo).get(y)), "a": qj(_y_at(m2, env, None, eo).get(y))})
    env = _be([m1, m2], cx.salt, "small", "zero")
    v1, _ = P.run(m1, env)
    v2, _ = P.run(m2, env)
    return m2, {"pts": pts, "frame": P.frame_pairs(v1, v2, {y})}


def _abs_obs(model, env):
    """observables of the absorption part: KA (flow depot -> central), infusion duration, MAT, MDT, transit rates"""
    v, ode = P.run(model, env)
    cs = model.statements.ode_system
    o = {"ka": P.UNDEF, "dur": P.UNDEF, "mat": qj(v.get("MAT")), "mdt": qj(v.get("MDT")), "rates": [], "n": 0}
    if cs is None or ode is None:
        return o, v
    central = cs.central_compartment.name
    for (a, b), val in ode["flows"].items():
        if a == "DEPOT" and b == central:
            o["ka"] = qj(val)
        if a.startswith("TRANSIT"):
            o["rates"].append(qj(val))
    o["n"] = len([n for n in ode["names"] if n.startswith("TRANSIT")])
    for cname, c in ode["comps"].items():
        for d in c["doses"]:
            if d["class"] == "Infusion" and d.get("duration") is not None:
                o["dur"] = qj(d["duration"])
    return o, v


def _do_abs(m1, m2, cx):
    obs, keep = [], []
    for salt in (cx.salt, cx.salt + 1):
        env = _be([m1, m2], salt, "small", "zero")
        o1, v1 = _abs_obs(m1, env)
        o2, v2 = _abs_obs(m2, env)
        obs.append(o2)
        for k in ("mat", "mdt"):
            if P.is_val(o1[k]) and P.is_val(o2[k]):
                keep.append([o1[k], o2[k]])
    env = _be([m1, m2], cx.salt, "small", "zero")
    v1, _ = P.run(m1, env)
    v2, _ = P.run(m2, env)
    # the disposition parameters and everything before the ODE system that survives is unchanged
    ex = {"MAT", "MDT", "KA", "D1", "F", _yname(m1)} | P.downstream(m1, {"MAT", "MDT"}) | P.downstream(m2, {"MAT", "MDT"})
    cs1 = m1.statements.ode_system
    return m2, {"obs": obs, "keep": keep, "frame": P.frame_pairs(v1, v2, ex),
                "depot_before": bool(cs1 is not None and "DEPOT" in cs1.compartment_names)}


def do_abs(m1, act, cx):
    from pharmpy.modeling import (set_first_order_absorption, set_instantaneous_absorption, set_seq_zo_fo_absorption,
                                  set_zero_order_absorption)

    fn = {"FO": set_first_order_absorption, "ZO": set_zero_order_absorption, "SEQ": set_seq_zo_fo_absorption,
          "INST": set_instantaneous_absorption}[act["x"]]
    return _do_abs(m1, fn(m1), cx)


def do_transit(m1, act, cx):
    from pharmpy.modeling import set_transit_compartments

    return _do_abs(m1, set_transit_compartments(m1, int(act["x"])), cx)


def do_elim(m1, act, cx):
    """elimination setters: generator steps (their own contract is C08's)"""
    from pharmpy.modeling import (set_michaelis_menten_elimination, set_mixed_mm_fo_elimination,
                                  set_zero_order_elimination)

    fn = {"MM": set_michaelis_menten_elimination, "ZO": set_zero_order_elimination, "MIX": set_mixed_mm_fo_elimination}[act["x"]]
    return fn(m1), {}


def do_reread(m1, act, cx):
    """write the model code and read it back (a generator step: C02 judges the round trip)"""
    from pharmpy.modeling import read_model_from_string

    m2 = read_model_from_string(m1.code)
    if m2.dataset is None and m1.dataset is not None:
        m2 = m2.replace(dataset=m1.dataset)
    return m2, {}


ACTIONS = {
    "reread": do_reread, "elim": do_elim,
    "addcov": do_addcov, "rmcov": do_rmcov, "allometry": do_allometry, "addiiv": do_addiiv, "rmiiv": do_rmiiv,
    "addiov": do_addiov, "rmiov": do_rmiov, "transform": do_transform, "seterr": do_seterr, "rmerr": do_rmerr,
    "power": do_power, "iivruv": do_iivruv, "timevar": do_timevar, "weighted": do_weighted, "joineps": do_joineps, "abs": do_abs,
    "transit": do_transit,
}


def _flat(model, env):
    """all observables of a model at a point, flattened (for the Remove . Add = id comparison)"""
    v, ode = P.run(model, env)
    out = {"v:" + k: qj(x) for k, x in v.items()}
    if ode:
        for (a, b), val in ode["flows"].items():
            out[f"flow:{a}>{b}"] = qj(val)
        for cname, c in ode["comps"].items():
            out[f"lag:{cname}"] = qj(c["lag"])
            out[f"bio:{cname}"] = qj(c["bio"])
            for i, d in enumerate(c["doses"]):
                out[f"dose:{cname}:{i}"] = qj(d["amount"])
    return out


def undo_pairs(m0, m2, salt):
    out = []
    for s in (salt, salt + 3):
        env = _be([m0, m2], s, "small", "small")
        f0, f2 = _flat(m0, env), _flat(m2, env)
        for k in sorted(set(f0) | set(f2)):
            if k.startswith("v:") and (k not in f0 or k not in f2):
                continue  # helper variables may come and go; the function is what counts
            out.append([f0.get(k, [0, 1]), f2.get(k, [0, 1])])
    return out[:80]


def _err_before(case, i):
    kind, trans = "prop", "none"
    for a in case["hist"][:i]:
        if a["k"] == "seterr":
            kind, trans = a["x"], a["y"]
        if a["k"] == "rmerr":
            kind, trans = "none", "none"
    return kind, trans


def _context(case, i):
    """fields of the case record that known-finding keys may refer to"""
    h = case["hist"]
    prev = h[i - 1] if i >= 1 else {"k": "", "p": "", "c": "", "x": "", "y": ""}
    return {"prev": prev, "prev_token": f"{prev['k']}:{prev['x']}" if i >= 1 else "",
            "after_rmiov": any(a["k"] == "rmiov" for a in h[:i]),
            "after_prop_log": any(a["k"] == "seterr" and a["x"] == "prop" and a["y"] == "log" for a in h[:i]),
            "mat_extended": any(a["p"] == "MAT" and a["k"] in ("addcov", "addiov", "transform", "addiiv") for a in h[:i])}


def _errkind_before(case, i):
    return _err_before(case, i)[0]


def exec_history(arg):
    """Run one TLC history on the real functions.  Returns dict(trace, problems, steps)."""
    case, seed = arg
    cx = Ctx(seed)
    models = [start_model(case["model"])]
    _BASE_OVER.clear()
    _BASE_OVER.update(MODEL_OVER.get(case["model"], {}))
    events, problems = [], []
    for i, act in enumerate(case["hist"]):
        m1 = models[-1]
        a = dict(act)
        if a["k"] == "power":
            a["_err"] = _errkind_before(case, i)
        try:
            m2, ev = ACTIONS[act["k"]](m1, a, cx)
        except Exception as e:  # noqa: BLE001
            name = type(e).__name__
            rec = {"model": case["model"], "hist": case["hist"][: i + 1], "step": act, "outcome": name,
                   "message": str(e)[:200], "err_before": ":".join(_err_before(case, i)), **_context(case, i),
                   "p_assignments_gt1": bool(act["p"]) and P.assigned_names(m1).count(act["p"]) > 1}
            if name in REFUSALS and not _from_canonicalisation(e):
                problems.append(("refused", rec))
            else:
                problems.append(("internal", rec))
            break
        ev["act"] = act
        ev["p_assignments_gt1"] = bool(act["p"]) and P.assigned_names(m1).count(act["p"]) > 1
        ev["dup_identical_assignment"] = _dup_identical(m1, act["p"])
        pr = ev.pop("_problem", None)
        if pr:
            problems.append(("internal", {"model": case["model"], "hist": case["hist"][: i + 1], "step": act,
                                          "p_assignments_gt1": ev["p_assignments_gt1"], **_context(case, i), **pr}))
        ev.setdefault("frame", [])
        ev.setdefault("undo", [])
        if act["k"] in ("rmcov", "rmiiv", "rmiov") and i >= 1:
            ev["undo"] = undo_pairs(models[-2], m2, cx.salt)
        events.append(ev)
        models.append(m2)
    return {"trace": {"model": case["model"], "events": events}, "problems": problems, "seed": seed}


def _dup_identical(model, p):
    """the parameter is assigned twice by literally the same statement (left behind by some absorption setters)"""
    from pharmpy.model import Assignment

    seen = [str(s.expression) for s in model.statements if isinstance(s, Assignment) and str(s.symbol) == p]
    return bool(p) and len(seen) != len(set(seen))


def _from_canonicalisation(e):
    import traceback

    tb = traceback.extract_tb(e.__traceback__)
    return any("_canonicalize" in fr_.name for fr_ in tb) or "is not defined" in str(e)


# ----------------------------------------------------------------------------- TLC runs


def _cfg(tmp, name, models, maxhist, groups, invariants):
    txt = "CONSTANTS\n  Models = {%s}\n  MaxHist = %d\n  Groups = {%s}\nINIT Init\nNEXT Next\n" % (
        ", ".join(f'"{m}"' for m in models), maxhist, ", ".join(f'"{g}"' for g in groups))
    txt += "".join(f"INVARIANT {i}\n" for i in invariants) + "CHECK_DEADLOCK FALSE\n"
    p = tmp / name
    p.write_text(txt)
    return p


THEOREMS = ["NeutralMul", "NeutralAllo", "NeutralEta", "DocOffsets", "FrameAbs", "UndoRestores"]


def tlc_explore(tier, seed, v: core.Verdict):
    """exhaustive exploration of the machine: design theorems + the histories (cases)"""
    tmp = core.scratch("c09cfg")
    runs = [("all2", ["pheno", "mox2"], 2, ["cov", "eta", "err", "abs"]),
            ("eta3", ["pheno", "mox2", "phenoexp"], 3, ["eta"]),
            ("abs3", ["pheno", "mox2"], 3, ["abs"]),
            ("dv2", ["pheno2dv"], 2, ["err"]),
            ("err3", ["pheno"], 3, ["err"])]
    if tier == "thorough":
        runs += [("cov3", ["pheno"], 3, ["cov"]), ("abserr3", ["pheno", "mox2"], 3, ["abs", "err"]), ("exp2", ["phenoexp"], 2, ["cov", "eta", "err"]),
                 ("sim4", ["pheno", "mox2"], 4, ["cov", "eta", "err", "abs"])]
    cases, results = [], {}

    def one(r):
        name, models, mh, groups = r
        cfg = _cfg(tmp, name + ".cfg", models, mh, groups, THEOREMS + ["EmitCase"])
        if name == "sim4":   # histories longer than the exhaustive bound: random walks of the same machine
            results[name] = core.run_tlc(SPEC / "Effects.tla", cfg, workers=4, timeout=1500, coverage=False,
                                         simulate="num=150", depth=5, seed=seed)
            return
        w = {"all2": 6, "cov3": 8}.get(name, 3)
        results[name] = core.run_tlc(SPEC / "Effects.tla", cfg, workers=w, timeout=1500, coverage=False)

    ths = [threading.Thread(target=one, args=(r,)) for r in runs]
    for t in ths:
        t.start()
        time.sleep(0.1)  # core.scratch names are per millisecond
    # the documentation alone contradicts neutrality for additive templates / logit etas: expected counterexample
    doc = core.run_tlc(SPEC / "Effects.tla", SPEC / "EffectsDoc.cfg", workers=2, timeout=600, coverage=True)
    for t in ths:
        t.join()
    shutil.rmtree(tmp, ignore_errors=True)
    states = trans = 0
    for name, res in results.items():
        core.require_ok(res, f"Effects.tla {name}")
        if res.violated:
            raise core.MachineryError(f"Effects.tla {name}: design-level theorem {res.violated} violated:\n" + "\n".join(b.split('<<"CASE"')[0][-1500:] for b in res.trace[-1:]))
        states += res.distinct
        trans += res.generated
        cases += [c for tag, c in res.prints if tag == "CASE"]
    # vacuity guard: every action kind of the machine occurs in an emitted history
    seen = {a["k"] for c in cases for a in c["hist"]}
    missing = [k for k in KINDS if k not in seen]
    if missing:
        raise core.MachineryError(f"Effects.tla: actions never taken (vacuous model): {missing}")
    if doc.error and not doc.violated:
        raise core.MachineryError(f"EffectsDoc: {doc.error}")
    v.add_coverage(states=states + doc.distinct, transitions=trans + doc.generated,
                   tlc_runs={n: {"distinct": r.distinct, "wall_s": round(r.wall, 1)} for n, r in results.items()},
                   design_theorems=THEOREMS,
                   doc_vs_property={"invariant": "NeutralAll", "tlc_result": doc.violated or "holds",
                                    "meaning": "the documented additive templates / exp(+) / logit eta forms are not neutral at the reference: TLC derives the counterexample from the documentation alone"})
    if doc.violated != "NeutralAll":
        v.notes.append(f"EffectsDoc.cfg: expected NeutralAll to be violated by the documented formulas, TLC says {doc.violated}")
    # unique histories
    uniq = {}
    for c in cases:
        uniq[json.dumps([c["model"], c["hist"]], sort_keys=True)] = c
    return list(uniq.values())


BATCH = 1200


def tlc_validate(traces, v: core.Verdict):
    """batches of traces, one JVM each (-workers 1), a few JVMs side by side; tid = index in `traces` (1-based)"""
    d = core.scratch("c09tr")
    out, walls, errs = {}, [], []
    batches = [(k, traces[k: k + BATCH]) for k in range(0, len(traces), BATCH)]
    sem = threading.Semaphore(4)
    lock = threading.Lock()

    def one(k, part):
        with sem:
            f = d / f"traces{k}.json"
            f.write_text(json.dumps(part))
            res = core.run_tlc(SPEC / "EffectsTrace.tla", SPEC / "EffectsTrace.cfg", workers=1, timeout=3000,
                               env={"TRACES": str(f)}, coverage=False)
            with lock:
                if res.error or res.violated:
                    errs.append(f"EffectsTrace batch {k}: {res.error or res.violated}\n{res.out[-1500:]}")
                    return
                for tag, x in res.prints:
                    if tag == "VER":
                        out[k + x["tid"]] = x["ver"]
                walls.append(res.wall)
                v.add_coverage(states=res.distinct, transitions=res.generated)

    ths = []
    for k, part in batches:
        t = threading.Thread(target=one, args=(k, part))
        t.start()
        ths.append(t)
        time.sleep(0.1)
    for t in ths:
        t.join()
    shutil.rmtree(d, ignore_errors=True)
    if errs:
        raise core.MachineryError(errs[0])

    class R:
        wall = sum(walls)

    return out, R


# ----------------------------------------------------------------------------- selection of histories


def _must(c):
    """histories that are always executed: Remove . Add on the parameter whose definition already carries an
    exponential (every eta form), the error-model setters with a dv argument on the two-DV model, and every change of the number of transit compartments n1 -> n2 with n1, n2 > 0,
    directly and through a write / read round trip"""
    h = c["hist"]
    ks = [a["k"] for a in h]
    if c["model"] == "phenoexp" and ks in (["addiiv", "rmiiv"], ["addiiv", "rmiiv", "addiiv"]) and h[0]["p"] == "CL" and h[1]["p"] == "CL":
        return len(h) == 2 or h[2]["p"] == "CL"
    if c["model"] == "pheno2dv":     # every error model on one dependent variable, then on the other / the same one
        return True
    # correlated residual errors (both epsilons in one joint distribution), then every decoration / setter of the error model
    if len(ks) >= 2 and ks[-2] == "joineps" and not c["noop"][-1]:
        return True
    if ks == ["elim", "allometry"]:   # allometry after every elimination setter: the volume must still be scaled
        return True
    if ks in (["transit", "transit"], ["transit", "reread", "transit"], ["reread", "transit", "transit"]):
        ns = [a["x"] for a in h if a["k"] == "transit"]
        return "0" not in ns and ns[0] != ns[1]
    return False


def select(cases, tier, seed):
    must = [c for c in cases if _must(c)]
    cases = [c for c in cases if not _must(c)]
    return must + _select(cases, tier, seed)


def _select(cases, tier, seed):
    rng = random.Random(seed)
    by_len = {}
    for c in cases:
        by_len.setdefault(len(c["hist"]), []).append(c)
    for L in by_len:
        by_len[L].sort(key=lambda c: json.dumps(c, sort_keys=True))
        rng.shuffle(by_len[L])
    budget = {"quick": {1: 400, 2: 130, 3: 45}, "thorough": {1: 400, 2: 3000, 3: 2500, 4: 1500}}[tier]
    out = []
    for L, cs in sorted(by_len.items()):
        n = budget.get(L, 0)
        # prefer histories whose last action is not a documented no-op, and cover every last-action kind
        cs.sort(key=lambda c: c["noop"][-1])
        kinds = {}
        for c in cs:
            kinds.setdefault((c["model"], c["hist"][-1]["k"], c["hist"][-1]["x"], c["hist"][-1]["y"]), []).append(c)
        picked = []
        while len(picked) < n and any(kinds.values()):
            for k in list(kinds):
                if kinds[k] and len(picked) < n:
                    picked.append(kinds[k].pop(0))
        out += picked
    return out


def _warm_up():
    """load the lazily imported parts of pharmpy / sympy once, before the workers are forked"""
    def A(k, p="", c="", x="", y=""):
        return {"k": k, "p": p, "c": c, "x": x, "y": y}

    for mdl, h in [("pheno", [A("addcov", "CL", "APGR", "cat", "*"), A("rmcov", "CL", "APGR"), A("addiov", "CL", "FA1"), A("rmiov")]),
                   ("pheno", [A("rmiiv", "CL"), A("addiiv", "CL", "", "log", "*"), A("transform", "VC", "", "tdist")]),
                   ("pheno", [A("seterr", "", "", "comb", "log"), A("rmerr")]), ("pheno", [A("power")]), ("pheno", [A("weighted")]),
                   ("mox2", [A("allometry", "", "WT"), A("abs", "", "", "SEQ")]), ("mox2", [A("transit", "", "", "3"), A("timevar")])]:
        exec_history(({"model": mdl, "hist": h, "noop": [], "undoes": []}, 1))


OUTCOME = {"formula": "formula_mismatch", "neutral": "not_neutral_at_reference", "frame": "frame_changed",
           "undo": "not_restored"}


def main(tier: str, seed: int) -> int:
    v = core.Verdict("C09", tier, seed)
    v.assumptions = [
        "function model EXP(x) := 2^x, LOG(2^k) := k on both sides; probes where a value leaves Q or TLC's 32-bit range are skipped",
        "fractional powers (allometry exponent, pow theta, boxcox lambda) are decided at the reference point only",
        "start models: pheno (IV bolus) and mox2 (oral, first-order absorption) of the pharmpy test corpus",
    ]
    t0 = time.time()
    box = {}

    def explore():
        try:
            box["cases"] = tlc_explore(tier, seed, v)
        except BaseException as e:  # noqa: BLE001
            box["err"] = e

    th = threading.Thread(target=explore)
    th.start()
    core.use_repo()
    import pharmpy.modeling  # noqa: F401

    for n in ("pheno", "mox2", "phenoexp", "pheno2dv"):
        start_model(n)
    _warm_up()
    th.join()
    if "err" in box:
        raise box["err"]
    cases = box["cases"]
    t_tlc = time.time() - t0
    chosen = select(cases, tier, seed)
    rng = random.Random(seed)
    work = [(c, rng.randrange(1 << 30)) for c in chosen]
    t1 = time.time()
    results = core.pmap(exec_history, work, procs=16, chunk=4)
    t_exec = time.time() - t1
    traces, owners = [], []
    steps = refused = 0
    for (c, s), r in zip(work, results):
        for kind, rec in r["problems"]:
            if kind == "refused":
                refused += 1
            else:
                v.violation(rec, f"{rec['step']['k']} raised {rec['outcome']}: {rec['message']}")
        if r["trace"]["events"]:
            traces.append(r["trace"])
            owners.append((c, s))
            steps += len(r["trace"]["events"])
    vers, res = tlc_validate(traces, v)
    judged = skipped = 0
    stats, readings = {}, {}
    for tid in range(1, len(traces) + 1):
        if tid not in vers:
            raise core.MachineryError(f"EffectsTrace: trace {tid} was not explained by the machine: {json.dumps(owners[tid - 1][0])[:400]}")
        c, s = owners[tid - 1]
        for i, ver in enumerate(vers[tid]):
            act = traces[tid - 1]["events"][i]["act"]
            st = stats.setdefault(act["k"], {"ok": 0, "bad": 0, "skip": 0})
            vals = [ver[f] for f in ("formula", "neutral", "frame", "undo")]
            st["bad" if "bad" in vals else "ok" if "ok" in vals else "skip"] += 1
            if "ok" in vals or "bad" in vals:
                judged += 1
            else:
                skipped += 1
            if act["k"] == "addcov" and "ref" in ver and ver["formula"] == "ok" and act["x"] not in ("cat", "cat2"):
                st_ = traces[tid - 1]["events"][i]["stat"]
                if ver["ref"] in st_["median"]:
                    rd = st_["median_reading"][st_["median"].index(ver["ref"])]
                    readings[rd] = readings.get(rd, 0) + 1
            if ver.get("design") == "bad":
                what = {"rmiiv": "the parameter after remove_iiv is not the parameter before with its etas at zero",
                        "rmiov": "the variables after remove_iov are not the variables before with the IOV etas at zero",
                        "transform": "the transformed eta differs from the transcribed series"}.get(act["k"], "design-layer expectation differs")
                note = f"drift (design layer, not judged): {act['k']}({act['p']}{act['x']}) on {c['model']}: {what}"
                if note not in v.notes:
                    v.notes.append(note)
            for field in ("formula", "neutral", "frame", "undo"):
                if ver[field] == "bad":
                    ev = traces[tid - 1]["events"][i]
                    if _float_artefact(c, s, i, field):
                        v.notes.append(f"model_artefact: {act} {field}")
                        continue
                    rec = {"model": c["model"], "hist": c["hist"][: i + 1], "step": act, "field": field,
                           "outcome": OUTCOME[field], "noop": c["noop"][i], "seed": s,
                           "same_kind_before": act["k"] == "seterr" and _errkind_before(c, i) == act["x"], **_context(c, i),
                           "depot_before": ev.get("depot_before"), "p_assignments_gt1": ev.get("p_assignments_gt1"),
                           "dup_identical_assignment": ev.get("dup_identical_assignment"),
                           "event": {k: ev[k] for k in ev if k not in ("frame", "undo")}}
                    v.violation(rec, f"{act['k']}({act['p']},{act['c']},{act['x']},{act['y']}) on {c['model']} after {[a['k'] for a in c['hist'][:i]]}: {OUTCOME[field]}")
    nontrivial = {json.dumps(c["hist"], sort_keys=True) for c, _ in owners if not all(c["noop"])}
    v.add_coverage(
        cases_emitted_by_tlc=len(cases), histories_executed=len(work), evaluations=steps, distinct_nontrivial=len(nontrivial),
        traces_validated_against_impl=len(vers), events_judged=judged, events_skipped_undefined=skipped,
        documented_refusals=refused, per_action=stats, centre_reading_explaining_the_event=readings,
        rule="every history of the machine within the tier's bounds is a case; executed: all last-action kinds round-robin up to the tier budget (VERIF_SEED); non-trivial = not only documented no-ops",
        samples=[{"model": c["model"], "hist": c["hist"]} for c, _ in owners[:3]],
        exhaustive=len(work) >= len(cases), wall_tlc_explore_s=round(t_tlc, 1), wall_exec_s=round(t_exec, 1), wall_tlc_validate_s=round(res.wall, 1),
    )
    return v.finish(min_traces=100 if tier == "quick" else 1000)


def _float_artefact(case, seed, i, field):
    """Artefact guard: the exact disagreement must also show with the real exp/log.  Re-executes the history and
    compares before/after in floating point for the neutrality / frame / undo fields (pure equalities); a formula
    disagreement is re-evaluated with math.exp in _float_formula.  Can only suppress."""
    try:
        return _float_check(case, seed, i, field)
    except Exception:  # noqa: BLE001
        return False


def _float_check(case, seed, i, field):
    import math

    cx = Ctx(seed)
    models = [start_model(case["model"])]
    ev = None
    for j, act in enumerate(case["hist"][: i + 1]):
        a = dict(act)
        if a["k"] == "power":
            a["_err"] = _errkind_before(case, j)
        m2, ev = ACTIONS[act["k"]](models[-1], a, cx)
        models.append(m2)
    act = case["hist"][i]
    m1, m2 = models[-2], models[-1]
    if act["k"] == "addcov" and field in ("formula", "neutral"):
        p, c = act["p"], act["c"]
        new = ev["thetas"]
        worst = 0.0
        for pt in ev["pts"]:
            cv = Fraction(*pt["c"])
            th = [float(Fraction(*t)) for t in pt["th"]]
            env = _be([m1, m2], cx.salt, "small", "zero", {**dict(zip(new, [Fraction(*t) for t in pt["th"]])), c: cv})
            ef = P.env_to_float(env)
            b = P.run_float(m1, ef).get(p)
            a_ = P.run_float(m2, ef).get(p)
            best = None
            for ref in ev["stat"]["mode" if act["x"] in ("cat", "cat2") else "median"]:
                r = float(Fraction(*ref))
                x = float(cv)
                if field == "neutral":
                    if x != r:
                        continue
                    exp = b
                else:
                    eff = act["x"]
                    if eff == "lin":
                        e = 1 + th[0] * (x - r)
                    elif eff == "exp":
                        e = math.exp(th[0] * (x - r))
                    elif eff == "pow":
                        e = (x / r) ** th[0]
                    elif eff == "piece_lin":
                        e = 1 + (th[0] if x <= r else th[1]) * (x - r)
                    else:
                        return False  # categorical templates contain no transcendental function: no artefact possible
                    exp = b * e if act["y"] == "*" else b + e
                d = abs(a_ - exp) / max(1.0, abs(exp))
                best = d if best is None else min(best, d)
            if best is not None:
                worst = max(worst, best)
        return worst < 1e-6
    if field in ("neutral",) and act["k"] == "addiiv":
        eta = ev["eta_name"]
        env = _be([m1, m2], cx.salt, "small", "zero", {eta: 0})
        ef = P.env_to_float(env)
        return P.close(P.run_float(m1, ef).get(act["p"]), P.run_float(m2, ef).get(act["p"]))
    return False


def replay(path: str) -> int:
    core.use_repo()
    data = json.loads(open(path).read())
    case = data["case"]
    r = exec_history(({"model": case["model"], "hist": case["hist"]}, case.get("seed", 0)))
    v = core.Verdict("C09", "replay", case.get("seed", 0))
    for kind, rec in r["problems"]:
        print(kind, json.dumps(rec)[:600])
    if r["trace"]["events"]:
        vers, _ = tlc_validate([r["trace"]], v)
        for i, ver in enumerate(vers.get(1, [])):
            print(json.dumps(r["trace"]["events"][i]["act"]), ver)
    print(json.dumps(data, indent=1)[:2500])
    return 0
