"""C10 - Statement dataflow analyses are sound.

spec -> code : spec/stmts/Statements.tla is a small-step machine that appends one statement to a straight-line
               program and executes it (state <<pc, prog, env, ode, dep, vals>>); TLC explores every bounded program
               (and a seed-chosen random subtree of longer ones), proves the design theorems T0..T7 about the transcribed
               algorithms of pharmpy on each, and prints a sample of the programs with the REFERENCE results
               (values of all symbols, dependency bounds, admissible removal sets, reassigned / substituted programs,
               used leaves).  This driver builds every emitted program as a real `Statements` (sympy expressions,
               Piecewise for guards, a real one-compartment CompartmentalSystem for the ODE statement), calls
               full_expression / dependencies / find_assignment(_index) / reassign / subs /
               remove_symbol_definitions for every symbol (and every admissible statement/symbol-set pair) and
               remove_unused_parameters_and_rvs on a generic Model built around the program, and compares with the
               reference (verdict) and with the transcriptions (drift, noted only).
"""
from __future__ import annotations

import json
import random
import shutil
import threading
import time

from . import core

SPEC = core.SPEC / "stmts"
TRUE_LEAVES = {"p1", "p2", "e1", "q1", "x1", "amt"}
ADMITTED = {
    # documented refusals
    "dependencies": (KeyError,),
    "full_expression": (ValueError,),
}

CONSTS = {
    # exhaustive run; thinned run = a seed-chosen random subtree of longer programs over four symbols;
    # chain run = exhaustive def-use chain family (one atom per right hand side, only defined symbols are read)
    "quick": (
        dict(NSyms=3, MaxLen=3, MaxUses=2, MaxGuards=1, WithODE="TRUE", MaxFeat=3, MaxAdm=5, MinEmit=1, MinCands=0, MaxRmSet=1, SampleMod=96, Thin=1, FullDepth=0, ChainMode="FALSE"),
        dict(NSyms=4, MaxLen=6, MaxUses=2, MaxGuards=2, WithODE="TRUE", MaxFeat=9, MaxAdm=4, MinEmit=5, MinCands=0, MaxRmSet=2, SampleMod=3, Thin=160, FullDepth=1, ChainMode="FALSE"),
        dict(NSyms=4, MaxLen=5, MaxUses=1, MaxGuards=0, WithODE="FALSE", MaxFeat=9, MaxAdm=5, MinEmit=4, MinCands=3, MaxRmSet=1, SampleMod=1, Thin=1, FullDepth=0, ChainMode="TRUE"),
    ),
    "thorough": (
        dict(NSyms=3, MaxLen=3, MaxUses=2, MaxGuards=1, WithODE="TRUE", MaxFeat=5, MaxAdm=5, MinEmit=1, MinCands=0, MaxRmSet=2, SampleMod=8, Thin=1, FullDepth=0, ChainMode="FALSE"),
        dict(NSyms=4, MaxLen=8, MaxUses=2, MaxGuards=3, WithODE="TRUE", MaxFeat=12, MaxAdm=5, MinEmit=6, MinCands=0, MaxRmSet=1, SampleMod=6, Thin=96, FullDepth=1, ChainMode="FALSE"),
        dict(NSyms=4, MaxLen=6, MaxUses=1, MaxGuards=0, WithODE="FALSE", MaxFeat=9, MaxAdm=6, MinEmit=4, MinCands=0, MaxRmSet=2, SampleMod=16, Thin=1, FullDepth=0, ChainMode="TRUE"),
    ),
}
INVARIANTS = ["T0_Machine", "T1_FullExpr", "T2_DepSound", "T3_DepBounds", "T4_Remove", "T5_Reassign", "T6_Subs", "T7_Used", "EmitCase"]


def _cfg(path, consts, seed):
    lines = ["CONSTANTS"] + [f"  {k} = {v}" for k, v in consts.items()]
    lines += [f"  SampleRes = {seed % consts['SampleMod']}", f"  ThinRes = {seed % consts['Thin']}"]
    lines += ["INIT Init", "NEXT Next"] + [f"INVARIANT {i}" for i in INVARIANTS] + ["CHECK_DEADLOCK FALSE"]
    path.write_text("\n".join(lines) + "\n")
    return path


def _tlc_cases(tier: str, seed: int, v: core.Verdict):
    ex_c, sim_c, ch_c = CONSTS[tier]
    d = core.scratch("c10")
    out: dict = {}

    def run(tag, fn):
        try:
            out[tag] = fn()
        except Exception as e:  # noqa: BLE001
            out[tag] = e

    # vacuity guard (-coverage: every named action must be taken): the small subtree run in quick, an extra tiny run otherwise
    to = 3000 if tier == "quick" else 7200
    jobs = [
        # (b) the exhaustive design-level run (no coverage instrumentation: twice as fast)
        ("ex", lambda: core.run_tlc(SPEC / "Statements.tla", _cfg(d / "ex.cfg", ex_c, seed), workers=8, timeout=to, coverage=False, heap="4g")),
        # (c) longer programs over four symbols: exhaustive search of a random (VERIF_SEED) subtree
        # (quick: with -coverage, this run is the vacuity guard -- every named action must be taken)
        ("sim", lambda: core.run_tlc(SPEC / "Statements.tla", _cfg(d / "sim.cfg", sim_c, seed), workers=6, timeout=to, coverage=tier == "quick", heap="4g")),
        ("cov", lambda: core.run_tlc(SPEC / "Statements.tla", _cfg(d / "cov.cfg", dict(ex_c, NSyms=2, MaxLen=2, MinEmit=99), 0), workers=2, timeout=to,
                                     coverage=True, heap="2g") if tier != "quick" else None),
        # (d) the def-use chain family (long dependency chains, readers before / between / after the edited statement)
        ("chain", lambda: core.run_tlc(SPEC / "Statements.tla", _cfg(d / "chain.cfg", ch_c, seed), workers=4, timeout=to, coverage=False, heap="4g")),
    ]
    ths = [threading.Thread(target=run, args=j) for j in jobs]
    for t in ths:
        t.start()
        time.sleep(0.4)  # core.scratch names the TLC metadir by pid + millisecond: never start two runs in the same one
    [t.join() for t in ths]
    shutil.rmtree(d, ignore_errors=True)
    if out.get("cov") is None:
        out["cov"] = out["sim"]
    for tag, _ in jobs:
        if isinstance(out[tag], Exception):
            raise core.MachineryError(f"TLC run {tag}: {out[tag]}")
        res = out[tag]
        core.require_ok(res, f"Statements.tla ({tag})")
        if res.violated:
            raise core.MachineryError(f"Statements.tla ({tag}): design theorem {res.violated} violated:\n" + "\n".join(res.trace[-1:])[:1500])
    core.require_actions(out["cov"], ["DoAssign", "DoGuarded", "DoOde"], "Statements.tla")
    core.tlc_stats_into(v, out["ex"])
    v.add_coverage(states=out["sim"].distinct, transitions=out["sim"].generated)
    v.add_coverage(states=out["chain"].distinct, transitions=out["chain"].generated)
    v.add_coverage(
        tlc_constants={"exhaustive": ex_c, "thinned_subtree": sim_c, "chain_family": ch_c},
        tlc_chain_programs=out["chain"].distinct,
        tlc_exhaustive_programs=out["ex"].distinct,
        tlc_subtree_programs=out["sim"].distinct,
        tlc_wall_s={k: round(out[k].wall, 1) for k in out if not (k == "cov" and out[k] is out["sim"])},
        design_theorems_checked=INVARIANTS[:-1],
    )
    ex = [c for tag, c in out["ex"].prints if tag == "CASE"]
    sim = [c for tag, c in out["sim"].prints if tag == "CASE"] + [c for tag, c in out["chain"].prints if tag == "CASE"]
    if not ex or not sim:
        raise core.MachineryError(f"Statements.tla emitted no cases (exhaustive {len(ex)}, simulate {len(sim)})")
    # simulation revisits programs: keep distinct ones
    seen, uniq = set(), []
    for c in sim:
        key = json.dumps(c["prog"], sort_keys=True)
        if key not in seen:
            seen.add(key)
            uniq.append(c)
    return ex, uniq


# ----------------------------------------------------------------------------- rendering / projection


class _Env:
    """sympy / pharmpy objects shared by the replay functions (created after pharmpy has been imported)."""

    def __init__(self):
        import sympy
        from pharmpy.basic import Expr
        from pharmpy.model import Assignment, Bolus, Compartment, CompartmentalSystem, CompartmentalSystemBuilder, Statements, output

        self.sympy, self.Expr = sympy, Expr
        self.Assignment, self.Statements = Assignment, Statements
        self.CompartmentalSystem = CompartmentalSystem
        self.x1 = sympy.Symbol("x1")
        self.t = sympy.Symbol("t")
        self.amount = sympy.Function("A_CENTRAL")(self.t)
        self.cache: dict = {}

        def mk_ode(rate, inp):
            """CENTRAL (bolus amt, elimination `rate`); when `inp` is not 0 a second compartment EFFECT WITHOUT a dose,
            with zero-order input `inp`, flowing into CENTRAL with the rate constant ke0"""
            cb = CompartmentalSystemBuilder()
            c = Compartment.create("CENTRAL", doses=(Bolus.create("amt"),))
            cb.add_compartment(c)
            cb.add_flow(c, output, Expr(rate))
            if inp != 0:
                e = Compartment.create("EFFECT", input=Expr(inp))
                cb.add_compartment(e)
                cb.add_flow(e, c, Expr.symbol("ke0"))
            return CompartmentalSystem(cb)

        self.mk_ode = mk_ode
        self.output = output

    def atom(self, name):
        return self.amount if name == "a1" else self.sympy.Symbol(name)

    def form(self, pairs):
        e = self.sympy.Integer(0)
        for a, n in pairs:
            e = e + (n if a == "one" else n * self.atom(a))
        return e

    def stmt(self, st):
        key = json.dumps(st, sort_keys=True)
        if key in self.cache:
            return self.cache[key]
        if st["k"] == "ode":
            s = self.mk_ode(self.form(st["t"]), self.form(st["f"]))
        else:
            e = self.form(st["t"])
            if st["g"]:
                e = self.sympy.Piecewise((e, self.x1 > 0), (self.form(st["f"]), True))
            s = self.Assignment.create(st["lhs"], self.Expr(e))
        self.cache[key] = s
        return s

    # --- projection of real objects back to the abstract syntax
    def lin(self, e):
        """sympy expression -> sorted [[atom, n], ...] ; raises ValueError if it is not a linear form over the atoms"""
        sp = self.sympy
        out = []
        for term, c in sp.expand(e).as_coefficients_dict().items():
            if c == 0:
                continue
            if not (c.is_Integer and c > 0):
                raise ValueError(f"coefficient {c}")
            if term == 1:
                out.append(["one", int(c)])
            elif term == self.amount:
                out.append(["a1", int(c)])
            elif term.is_Symbol:
                out.append([term.name, int(c)])
            else:
                raise ValueError(f"non-linear term {term}")
        return sorted(out)

    def value(self, expr):
        e = self.sympy.sympify(expr)
        return {"t": self.lin(e.subs(self.x1, 1)), "f": self.lin(e.subs(self.x1, -1))}

    def proj_stmt(self, s):
        if isinstance(s, self.CompartmentalSystem):
            central = s.find_compartment("CENTRAL")
            r = self.lin(self.sympy.sympify(s.get_flow(central, self.output)))
            doses = [str(d.amount) for d in central.doses]
            eff = s.find_compartment("EFFECT")
            inp = [] if eff is None else self.lin(self.sympy.sympify(eff.input))
            if eff is not None and (eff.doses or str(s.get_flow(eff, central)) != "ke0"):
                raise ValueError("EFFECT compartment changed")
            return {"k": "ode", "lhs": "a1", "g": False, "t": r, "f": inp, "dose": doses}
        e = self.sympy.sympify(s.expression)
        v = self.value(e)
        return {"k": "asg", "lhs": str(s.symbol), "g": bool(e.has(self.sympy.Piecewise)), "t": v["t"], "f": v["f"]}

    def proj_prog(self, sts):
        return [self.proj_stmt(s) for s in sts]


def _norm_prog(p, ode_dose="amt"):
    out = []
    for st in p:
        d = {"k": st["k"], "lhs": st["lhs"], "g": bool(st["g"]), "t": sorted([a, n] for a, n in st["t"]), "f": sorted([a, n] for a, n in st["f"])}
        if st["k"] == "ode":
            d["dose"] = [ode_dose]
        out.append(d)
    return out


def _norm_val(v):
    return {"t": sorted([a, n] for a, n in v["t"]), "f": sorted([a, n] for a, n in v["f"])}


def _text(prog):
    def f(pairs):
        return " + ".join((str(n) if a == "one" else (a if n == 1 else f"{n}*{a}")) for a, n in pairs) or "0"

    out = []
    for st in prog:
        if st["k"] == "ode":
            out.append(f"ODE(rate={f(st['t'])}, dose=amt" + (f", dose-less EFFECT with input {f(st['f'])}" if st["f"] else "") + ") -> a1")
        elif st["g"]:
            out.append(f"{st['lhs']} = ({f(st['t'])} if x1>0 else {f(st['f'])})")
        else:
            out.append(f"{st['lhs']} = {f(st['t'])}")
    return out


_ENV = None


def _env():
    global _ENV
    if _ENV is None:
        _ENV = _Env()
    return _ENV


def _depnames(E, symbs):
    out = set()
    for x in symbs:
        s = str(x)
        if s in ("t", "ke0"):
            continue
        out.add("a1" if s.startswith("A_CENTRAL") else s)
    return out


def check_case(case, seed=0):
    """Replay one TLC case on the real code. Returns (violations, stats, drift)."""
    E = _env()
    viol, drift = [], []
    stats = {"calls": 0, "rm_queries": 0, "rm_enumerated": 0, "rm_unspecified": 0, "dep_queries": 0}
    prog = case["prog"]
    text = _text(prog)
    base = {"program": text, "n": case["n"], "has_ode": case["ode"]}
    real = [E.stmt(st) for st in prog]
    sts = E.Statements(tuple(real))
    ref_prog = _norm_prog(prog)

    def bad(op, outcome, what, **kw):
        rec = dict(base, op=op, outcome=outcome, **kw)
        rec["tlc_case"] = case
        viol.append((rec, f"{op}: {what}  | program: {'; '.join(text)}"))

    def call(op, fn, **kw):
        stats["calls"] += 1
        try:
            return True, fn()
        except ADMITTED.get(op, ()) as e:
            return False, e
        except Exception as e:  # noqa: BLE001  internal error
            bad(op, type(e).__name__, f"{type(e).__name__}: {str(e)[:160]}", **kw)
            return None, e

    # the program itself must project back to what was built (sanity of the rendering)
    try:
        if E.proj_prog(sts) != ref_prog:
            raise core.MachineryError(f"rendering is not faithful: {E.proj_prog(sts)} vs {ref_prog}")
    except ValueError as e:
        raise core.MachineryError(f"rendering is not linear: {e}")

    for sj in case["sym"]:
        s = sj["s"]
        symexpr = E.Expr(E.amount) if s == "a1" else E.Expr.symbol(s)
        # ---- full_expression
        if s != "a1":
            ok, r = call("full_expression", lambda: sts.full_expression(symexpr), sym=s)
            if ok is False and not case["ode"]:
                bad("full_expression", "ValueError", f"refused a program without ODE system: {r}", sym=s)
            elif ok:
                if case["ode"]:
                    pass  # documented to be unsupported; an answer is not judged
                else:
                    try:
                        got = E.value(r)
                    except ValueError as e:
                        got = {"error": str(e)}
                    if got != _norm_val(sj["val"]):
                        bad("full_expression", "wrong_value", f"full_expression({s}) = {r}, sequential execution gives {sj['val']}", sym=s)
            # ---- find_assignment
            ok, idx = call("find_assignment_index", lambda: sts.find_assignment_index(s), sym=s)
            ok2, asg = call("find_assignment", lambda: sts.find_assignment(s), sym=s)
            if ok and ok2:
                exp = sj["find"] - 1 if sj["find"] > 0 else None
                if idx != exp or (asg is not None and (exp is None or asg is not real[exp])) or (asg is None and exp is not None):
                    bad("find_assignment", "wrong_statement", f"find_assignment({s}) -> index {idx}, last assignment is {exp}", sym=s)
        # ---- dependencies
        stats["dep_queries"] += 1
        kw = dict(sym=s, defining_stmt_has_no_edge=bool(sj["noedge"]), defining_index_gt0=sj["def"] > 1, no_reassignment=bool(case["nore"]))
        ok, r = call("dependencies", lambda: sts.dependencies(symexpr), **kw)
        if ok is False:
            if sj["def"] > 0:
                bad("dependencies", "KeyError", f"dependencies({s}) raised KeyError although statement {sj['def']} defines it", **kw)
        elif ok:
            got = _depnames(E, r)
            if sj["def"] == 0:
                bad("dependencies", "answered_undefined", f"dependencies({s}) = {sorted(got)} for a symbol that is never defined (KeyError documented)", **kw)
            else:
                missing = sorted(set(sj["dlo"]) - got)
                if missing:
                    kind = "leaf" if set(missing) & TRUE_LEAVES else "initial_value_of_assigned_symbol"
                    bad("dependencies", "missing_dependency", f"dependencies({s}) = {sorted(got)} lacks {missing} (value {sj['val']})", missing_kind=kind,
                        transcription_predicts_loss=bool(sj["initlost"]), **kw)
                if case["nore"]:
                    extra = sorted((got & TRUE_LEAVES) - set(sj["dup"]))
                    if extra:
                        bad("dependencies", "spurious_dependency", f"dependencies({s}) = {sorted(got)} contains {extra}; no symbol is assigned twice and the value cannot depend on them", **kw)
                if sj["dtr"]["o"] != "set" or got != set(sj["dtr"]["s"]):
                    drift.append(f"dependencies({s}) = {sorted(got)} vs transcription {sj['dtr']} on {'; '.join(text)}")
            # the statement form of the query must agree with the symbol form (first equal statement = last definition)
            i = sj["def"] - 1
            if i >= 0 and all(real[j] != real[i] for j in range(i)):
                ok3, r3 = call("dependencies", lambda: sts.dependencies(real[i]), **dict(kw, by="statement"))
                if ok3 and _depnames(E, r3) != got:
                    bad("dependencies", "statement_form_differs", f"dependencies(statement {i + 1}) = {sorted(_depnames(E, r3))} but dependencies({s}) = {sorted(got)}", **kw)
        elif sj["dtr"]["o"] != type(r).__name__:
            drift.append(f"dependencies({s}) raised {type(r).__name__}, transcription says {sj['dtr']['o']}")

    # ---- reassign
    ra_expr = E.Expr(E.sympy.Symbol("p2") + 1)
    for rj in case["ra"]:
        s = rj["s"]
        ok, r = call("reassign", lambda: sts.reassign(s, ra_expr), sym=s)
        if ok:
            try:
                got = E.proj_prog(r)
            except ValueError as e:
                got = [{"error": str(e)}]
            exp = _norm_prog(rj["p"])
            has_def = any(st["k"] == "asg" and st["lhs"] == s for st in prog)
            appended = ref_prog + _norm_prog([{"k": "asg", "lhs": s, "g": False, "t": [["p2", 1], ["one", 1]], "f": [["p2", 1], ["one", 1]]}])
            if got != exp and not (not has_def and got == appended):
                bad("reassign", "wrong_program", f"reassign({s}, p2 + 1) gives {_text(got) if 'error' not in got[0] else got}, expected {_text(exp)}", sym=s)

    # ---- subs: the documented key forms -- Expr, str ("old-new pairs (can be type str or symbol)") and sympy symbols --
    # must all rename right hand sides AND left hand sides (RefSubs does not know key types)
    for bj in case["sb"]:
        a, b = bj["a"], bj["b"]
        forms = {
            "Expr": {E.Expr.symbol(a): E.Expr.symbol(b)},
            "str": {a: b},
            "sympy": {E.sympy.Symbol(a): E.sympy.Symbol(b)},
        }
        exp = _norm_prog(bj["p"])
        for form, mapping in forms.items():
            if form != "Expr" and a not in ("A",) and (len(prog) + len(a)) % 2:
                continue  # leaf renamings: alternate the extra key forms, symbol renamings: all three
            ok, r = call("subs", lambda: sts.subs(mapping), sub=f"{a}->{b}", key_form=form)
            if ok:
                try:
                    got = E.proj_prog(r)
                except ValueError as e:
                    got = [{"error": str(e)}]
                if got != exp:
                    bad("subs", "wrong_program", f"subs({{{a}: {b}}}) with {form} keys gives {_text(got) if 'error' not in got[0] else got}, expected {_text(exp)}",
                        sub=f"{a}->{b}", key_form=form)
    ok, r = call("subs", lambda: sts.subs({}), sub="{}")
    if ok and (len(r) != len(sts) or any(x != y for x, y in zip(r, sts))):
        bad("subs", "wrong_program", "subs({}) changed the statements", sub="{}")

    # ---- remove_symbol_definitions
    ident = {id(x): i + 1 for i, x in enumerate(real)}
    for q in case["rm"]:
        k, S = q["k"], q["S"]
        stats["rm_queries"] += 1
        kw = dict(k=k, S=S)
        ok, r = call("remove_symbol_definitions", lambda: sts.remove_symbol_definitions([E.Expr.symbol(x) for x in S], real[k - 1]), **kw)
        if not ok:
            continue
        kept = [ident.get(id(x)) for x in r]
        if None in kept or kept != sorted(set(kept)):
            # cached statements are shared between equal statements: fall back to equality alignment
            kept, pos = [], 0
            for x in r:
                while pos < len(real) and real[pos] != x:
                    pos += 1
                if pos == len(real):
                    kept = None
                    break
                kept.append(pos + 1)
                pos += 1
        if kept is None:
            bad("remove_symbol_definitions", "foreign_statement", "the result is not a subsequence of the statements", **kw)
            continue
        R = sorted(set(range(1, len(real) + 1)) - set(kept))
        lhs = [st["lhs"] for st in prog]
        atoms = [{a for a, _ in st["t"]} | {a for a, _ in st["f"]} for st in prog]
        between = any(i not in R and lhs[j - 1] in atoms[i - 1] for j in R for i in range(j + 1, k))
        if q["enum"]:
            stats["rm_enumerated"] += 1
            # equal statements make index sets ambiguous: compare the residual programs
            residual = [ref_prog[i - 1] for i in kept]
            adm = [[ref_prog[i - 1] for i in range(1, len(real) + 1) if i not in A] for A in q["adm"]]
            if residual not in adm:
                bad(
                    "remove_symbol_definitions",
                    "inadmissible_removal",
                    f"remove_symbol_definitions({S}, statement {k}) removed {R}; admissible: {q['adm']} "
                    "(sound = every remaining statement keeps its value, statement k stays, "
                    "complete = a remaining definition of S is still read)",
                    removed=R,
                    reader_between_def_and_stmt=between,
                    equals_transcription=R == sorted(q["tr"]),
                    statement_itself_removed=k in R,
                    **kw,
                )
        elif R == sorted(q["tr"]) and q["trok"]:
            stats["rm_enumerated"] += 1  # TLC proved this very answer admissible
        else:
            stats["rm_unspecified"] += 1
        if R != sorted(q["tr"]):
            drift.append(f"remove_symbol_definitions({S}, {k}) removed {R}, transcription {q['tr']} on {'; '.join(text)}")

    # ---- remove_unused_parameters_and_rvs on a generic model around the program
    _check_unused(E, case, sts, seed, bad, call)
    return viol, stats, drift


def _model_parts(E, joint):
    """parameters / random variables / datainfo of the generic model around a program (built once per process)"""
    key = ("parts", joint)
    if key not in E.cache:
        from pharmpy.model import DataInfo, JointNormalDistribution, NormalDistribution, Parameter, Parameters, RandomVariables

        names = ["p1", "p2", "p3", "om_e1", "om_e2"] + (["om_e12"] if joint else [])
        ps = Parameters.create([Parameter.create(n, 0.5) for n in names] + [Parameter.create("pfix0", 0, fix=True)])
        if joint:
            rvs = RandomVariables.create([JointNormalDistribution.create(["e1", "e2"], "iiv", [0, 0], [["om_e1", "om_e12"], ["om_e12", "om_e2"]])])
        else:
            rvs = RandomVariables.create([NormalDistribution.create("e1", "iiv", 0, "om_e1"), NormalDistribution.create("e2", "iiv", 0, "om_e2")])
        # symbols that are read before they are assigned, the guard leaf and the dose are data columns
        di = DataInfo.create(["x1", "amt", "q1", "t", "ke0", "A", "B", "C", "D"])
        E.cache[key] = (ps, rvs, di)
    return E.cache[key]


def _check_unused(E, case, sts, seed, bad, call):
    from pharmpy.model import Model
    from pharmpy.modeling import remove_unused_parameters_and_rvs

    joint = (seed + case["n"] + len(case["used"])) % 2 == 0
    ps, rvs, di = _model_parts(E, joint)
    ok, m = call(
        "remove_unused_parameters_and_rvs",
        lambda: remove_unused_parameters_and_rvs(Model.create(name="m", parameters=ps, random_variables=rvs, statements=sts, datainfo=di)),
    )
    if not ok:
        return
    used = set(case["used"])
    exp_rvs = ["e1"] if "e1" in used else []
    exp_ps = [p for p in ("p1", "p2") if p in used] + (["om_e1"] if "e1" in used else []) + ["pfix0"]
    got_ps, got_rvs = list(m.parameters.names), list(m.random_variables.names)
    if sorted(got_ps) != sorted(exp_ps) or got_rvs != exp_rvs:
        bad(
            "remove_unused_parameters_and_rvs",
            "wrong_set",
            f"kept parameters {got_ps} rvs {got_rvs}; the statements mention {sorted(used)}: expected {exp_ps} / {exp_rvs}",
            joint=joint,
        )
    if m.statements != sts:
        bad("remove_unused_parameters_and_rvs", "statements_changed", "the statements were changed", joint=joint)


def _replay_chunk(arg):
    cases, seed = arg
    out = []
    for c in cases:
        try:
            out.append(check_case(c, seed))
        except core.MachineryError as e:
            out.append(("machinery", str(e), None))
    return out


MAX_REPORTED = 150


def main(tier: str, seed: int) -> int:
    suppressed = 0
    v = core.Verdict("C10", tier, seed)
    v.assumptions = [
        "programs: lhs = const + sum of <= 2 atoms, optionally Piecewise on the single guard x1 > 0 (else-branch: old value or 1), "
        "at most one ODE statement (one compartment, rate = sum of atoms, bolus amt); values compared exactly as pairs of linear forms",
        "remove_symbol_definitions is called as documented: the given statement no longer uses the symbols, and it is the first "
        "statement equal to itself; the reference admits every removal set that is sound, keeps the statement and is complete",
    ]
    ex, sim = _tlc_cases(tier, seed, v)
    core.use_repo()
    import pharmpy.model  # noqa: F401
    import pharmpy.modeling  # noqa: F401

    rng = random.Random(seed)
    budget = {"quick": (6000, 5000), "thorough": (60000, 40000)}[tier]
    rng.shuffle(ex)
    rng.shuffle(sim)
    work = ex[: budget[0]] + sim[: budget[1]]
    chunks = [(work[i : i + 25], seed) for i in range(0, len(work), 25)]
    results = core.pmap(_replay_chunk, chunks, procs=16, chunk=1)
    tot = {"calls": 0, "rm_queries": 0, "rm_enumerated": 0, "rm_unspecified": 0, "dep_queries": 0}
    ndrift, nontrivial = 0, 0
    flat = [r for ch in results for r in ch]
    for c, r in zip(work, flat):
        if r[0] == "machinery":
            raise core.MachineryError(r[1])
        viol, stats, drift = r
        for rec, what in viol:
            # replay files carry the whole TLC case: write at most MAX_REPORTED of them, count the rest
            if len(v.violations) < MAX_REPORTED or core.match_known(v.prop, rec, v.known) is not None:
                v.violation(rec, what)
            else:
                suppressed += 1
        for k in tot:
            tot[k] += stats[k]
        ndrift += len(drift)
        for dn in drift[:1]:
            if len(v.notes) < 20:
                v.notes.append("drift: " + dn)
        if c["n"] >= 2 and not c["nore"]:
            nontrivial += 1
    v.add_coverage(
        cases_emitted_by_tlc=len(ex) + len(sim),
        cases_replayed=len(work),
        exhaustive_cases=len(ex[: budget[0]]),
        subtree_cases=len(sim[: budget[1]]),
        evaluations=tot["calls"],
        distinct_nontrivial=nontrivial,
        traces_validated_against_impl=len(work),
        dependency_queries=tot["dep_queries"],
        removal_queries=tot["rm_queries"],
        removal_queries_decided=tot["rm_enumerated"],
        removal_queries_unspecified=tot["rm_unspecified"],
        drift_observations=ndrift,
        rule="every program TLC reaches within the constants satisfies the design theorems; a hash-sampled 1/SampleMod of the exhaustive programs "
        "(residue = VERIF_SEED) and of the longer programs in the VERIF_SEED-chosen subtree is a case; non-trivial = length >= 2 with a reassigned symbol",
        samples=[{"program": _text(c["prog"]), "values": {s["s"]: s["val"] for s in c["sym"]}} for c in work[:3]],
        exhaustive=False,
    )
    if suppressed:
        v.notes.append(f"{suppressed} further violations not written as replay files (cap {MAX_REPORTED})")
        print(f"  ... and {suppressed} further violations beyond the first {MAX_REPORTED}")
    return v.finish(min_traces=500)


def replay(path: str) -> int:
    core.use_repo()
    data = json.loads(open(path).read())
    case = data["case"]
    print("recorded:", data["what"])
    print("program :", "; ".join(case.get("program", [])))
    viol, _, _ = check_case(case["tlc_case"])
    hits = [(r, w) for r, w in viol if r["op"] == case["op"] and r.get("sym") == case.get("sym") and r.get("k") == case.get("k") and r.get("S") == case.get("S")]
    for r, w in hits:
        print("REPRODUCED:", w[:600])
    if not hits:
        print("not reproduced on this tree")
    return 1 if hits else 0
