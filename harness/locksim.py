"""Deterministic simulator that runs the REAL text of pharmpy/internals/fs/lock.py (C15).

The source file from the working tree is executed once per *simulated process* with `threading`, `fcntl`
and `os` replaced by shims, so that the code's own Condition / RLock / Lock / get_ident / os.open /
os.close / fcntl.lockf calls land in a simulated kernel shared by the processes.  Virtual threads are real
Python threads gated by a baton: exactly one runs at a time and every *acquire-like* primitive is a
scheduling point announced before it executes:

    lock   Lock.acquire / Lock.__enter__            enabled iff non-blocking or the lock is free
    rlock  Condition.acquire (its RLock)             enabled iff non-blocking or free / owned by the caller
    wake   return from Condition.wait                enabled iff notified and the RLock is free
    lockf  fcntl.lockf(SH|EX)                        always a step: grant / EAGAIN / EDEADLK / go to sleep
    kwait  asleep inside lockf                       enabled iff the kernel can grant
    close  os.close(fd)                               always (it drops every lock of the process on the file)
    body   user code before each operation            always

Releases, notify, open/close and unlock/downgrade never block and are not scheduling points (they are
right-movers: executing them together with the preceding segment loses no behaviour).  A *segment* is
what a thread does from one scheduling point to the next; PathLock.tla has one action per segment.
"""
from __future__ import annotations

import builtins
import os as _real_os
import sys
import threading
import types
from pathlib import Path

LOCK_SH, LOCK_EX, LOCK_NB, LOCK_UN = 1, 2, 4, 8


class SimAbort(BaseException):
    pass


class VThread:
    def __init__(self, sim, tid, proc, fn):
        self.sim, self.tid, self.proc, self.fn = sim, tid, proc, fn
        self.go = threading.Event()
        self.pending = ("start", None, {})
        self.done = False
        self.error = None
        self.thread = threading.Thread(target=self._run, daemon=True, name=f"vt{tid}")

    def _run(self):
        self.sim.tls.vt = self
        self.go.wait()
        self.go.clear()
        try:
            if not self.sim.aborting:
                self.fn(self)
        except SimAbort:
            pass
        except BaseException as e:  # noqa: BLE001 - recorded, reported by the driver
            self.error = e
        finally:
            self.done = True
            self.pending = ("done", None, {})
            self.sim.back.set()


class SimLock:
    def __init__(self, sim, proc, label="lock"):
        self.sim, self.proc, self.label = sim, proc, label
        self.owner = None

    def acquire(self, blocking=True, timeout=-1):
        vt = self.sim.me()
        if self.sim.aborting:
            return True
        self.sim.yield_point("lock", self, blocking=blocking)
        if self.owner is None:
            self.owner = vt.tid
            return True
        assert not blocking, "scheduler resumed a blocked Lock.acquire"
        return False

    def release(self):
        if self.sim.aborting:
            return
        self.owner = None

    def locked(self):
        return self.owner is not None

    __enter__ = lambda self: self.acquire()  # noqa: E731

    def __exit__(self, *a):
        self.release()


class SimRLock:
    def __init__(self, sim, proc):
        self.sim, self.proc = sim, proc
        self.owner, self.depth = None, 0

    def acquire(self, blocking=True, timeout=-1):
        vt = self.sim.me()
        if self.sim.aborting:
            return True
        self.sim.yield_point("rlock", self, blocking=blocking)
        if self.owner in (None, vt.tid):
            self.owner = vt.tid
            self.depth += 1
            return True
        assert not blocking, "scheduler resumed a blocked RLock.acquire"
        return False

    def release(self):
        if self.sim.aborting:
            return
        vt = self.sim.me()
        if self.owner != vt.tid:
            raise RuntimeError("cannot release un-acquired lock")
        self.depth -= 1
        if self.depth == 0:
            self.owner = None

    __enter__ = lambda self: self.acquire()  # noqa: E731

    def __exit__(self, *a):
        self.release()


class SimCondition:
    def __init__(self, sim, proc, lock=None):
        self.sim, self.proc = sim, proc
        self.lock = lock if lock is not None else SimRLock(sim, proc)
        self.waiters = []  # tids in wait()
        self.notified = set()

    def acquire(self, *a, **k):
        return self.lock.acquire(*a, **k)

    def release(self):
        return self.lock.release()

    def __enter__(self):
        return self.lock.acquire()

    def __exit__(self, *a):
        self.lock.release()

    def wait(self, timeout=None):
        if self.sim.aborting:
            return True
        vt = self.sim.me()
        lk = self.lock
        if lk.owner != vt.tid:
            raise RuntimeError("cannot wait on un-acquired lock")
        saved = lk.depth if isinstance(lk, SimRLock) else 1
        lk.owner = None
        if isinstance(lk, SimRLock):
            lk.depth = 0
        self.waiters.append(vt.tid)
        self.sim.yield_point("wake", self)
        # resumed: notified and lock free
        if self.sim.aborting:
            return True
        self.notified.discard(vt.tid)
        lk.owner = vt.tid
        if isinstance(lk, SimRLock):
            lk.depth = saved
        return True

    def wait_for(self, predicate, timeout=None):
        while not predicate():
            self.wait()
        return True

    def notify(self, n=1):
        if self.sim.aborting:
            return
        if self.lock.owner != self.sim.me().tid:
            raise RuntimeError("cannot notify on un-acquired lock")
        for tid in self.waiters[:n]:
            self.notified.add(tid)
        del self.waiters[:n]

    def notify_all(self):
        self.notify(len(self.waiters))

    notifyAll = notify_all


class Kernel:
    """POSIX record locks on whole files (fcntl/lockf semantics), shared by all simulated processes."""

    def __init__(self):
        self.locks = {}  # path -> {proc: "SH"|"EX"}
        self.sleeping = {}  # tid -> (proc, path, mode)

    def mode(self, path, proc):
        return self.locks.get(path, {}).get(proc, "none")

    def grantable(self, path, proc, mode):
        for q, m in self.locks.get(path, {}).items():
            if q != proc and (mode == "EX" or m == "EX"):
                return False
        return True

    def blockers(self, path, proc, mode):
        return {q for q, m in self.locks.get(path, {}).items() if q != proc and (mode == "EX" or m == "EX")}

    def would_deadlock(self, path, proc, mode):
        seen, todo = set(), list(self.blockers(path, proc, mode))
        while todo:
            q = todo.pop()
            if q == proc:
                return True
            if q in seen:
                continue
            seen.add(q)
            for (p2, path2, mode2) in self.sleeping.values():
                if p2 == q:
                    todo.extend(self.blockers(path2, q, mode2))
        return False

    def set(self, path, proc, mode):
        self.locks.setdefault(path, {})[proc] = mode

    def unlock(self, path, proc):
        self.locks.get(path, {}).pop(proc, None)

    def snapshot(self):
        return {p: dict(sorted(d.items())) for p, d in sorted(self.locks.items()) if d}


class SimProcess:
    """One simulated process: its own copy of the lock module, its own fd table."""

    def __init__(self, sim, pid, code):
        self.sim, self.pid = sim, pid
        self.fds = {}  # fd -> path
        self.next_fd = 3
        thr = types.SimpleNamespace(
            Condition=lambda lock=None: SimCondition(sim, pid, lock),
            Lock=lambda: SimLock(sim, pid),
            RLock=lambda: SimRLock(sim, pid),
            get_ident=lambda: sim.me().tid,
        )
        fcn = types.SimpleNamespace(LOCK_SH=LOCK_SH, LOCK_EX=LOCK_EX, LOCK_NB=LOCK_NB, LOCK_UN=LOCK_UN, lockf=self.lockf)
        osm = types.SimpleNamespace(
            name="posix", O_RDWR=_real_os.O_RDWR, O_RDONLY=_real_os.O_RDONLY, O_WRONLY=_real_os.O_WRONLY,
            O_CREAT=_real_os.O_CREAT, path=_real_os.path, open=self.open, close=self.close, getpid=lambda: pid,
            fspath=_real_os.fspath, sep=_real_os.sep,
        )
        shims = {"threading": thr, "fcntl": fcn, "os": osm}
        real_import = builtins.__import__

        def imp(name, globals=None, locals=None, fromlist=(), level=0):
            if level == 0 and name in shims:
                return shims[name]
            return real_import(name, globals, locals, fromlist, level)

        b = dict(vars(builtins))
        b["__import__"] = imp
        self.module = types.ModuleType(f"locksim_proc{pid}")
        self.module.__dict__["__builtins__"] = b
        exec(code, self.module.__dict__)

    # --- os
    def open(self, path, flags, mode=0o777):
        if self.sim.aborting:
            return -1
        # the kernel knows FILES, not spellings: two spellings of one file are the same file
        ident = _real_os.path.normpath(path)
        if ident not in self.sim.files:
            raise FileNotFoundError(2, "No such file or directory", path)
        fd = self.next_fd
        self.next_fd += 1
        self.fds[fd] = ident
        return fd

    def close(self, fd):
        if self.sim.aborting:
            return
        self.sim.yield_point("close", fd)
        path = self.fds.pop(fd)
        # POSIX: closing ANY descriptor of a file drops all of the process's record locks on it
        self.sim.kernel.unlock(path, self.pid)

    # --- fcntl
    def lockf(self, fd, op, *a):
        sim = self.sim
        if sim.aborting:
            return
        path = self.fds[fd]
        k = sim.kernel
        if op & LOCK_UN:
            k.unlock(path, self.pid)
            return
        mode = "EX" if op & LOCK_EX else "SH"
        if k.mode(path, self.pid) == "EX" and mode == "SH":
            k.set(path, self.pid, "SH")  # downgrade never blocks: not a scheduling point
            return
        sim.yield_point("lockf", (path, mode), nb=bool(op & LOCK_NB))
        if k.grantable(path, self.pid, mode):
            k.set(path, self.pid, mode)
            return
        if op & LOCK_NB:
            raise BlockingIOError(11, "Resource temporarily unavailable")
        if k.would_deadlock(path, self.pid, mode):
            raise OSError(35, "Resource deadlock avoided")
        vt = sim.me()
        k.sleeping[vt.tid] = (self.pid, path, mode)
        try:
            sim.yield_point("kwait", (path, mode))
        finally:
            k.sleeping.pop(vt.tid, None)
        if sim.aborting:
            return
        assert k.grantable(path, self.pid, mode)
        k.set(path, self.pid, mode)


class Sim:
    def __init__(self, repo_src: Path, nprocs: int, files):
        src = Path(repo_src) / "pharmpy" / "internals" / "fs" / "lock.py"
        self.code = compile(src.read_text(), str(src), "exec")
        self.kernel = Kernel()
        self.files = set(files)
        self.tls = threading.local()
        self.back = threading.Event()
        self.aborting = False
        self.procs = {q: SimProcess(self, q, self.code) for q in range(1, nprocs + 1)}
        self.threads: dict[int, VThread] = {}
        self.events = []
        self.blocked_seen = set()

    def me(self) -> VThread:
        return self.tls.vt

    def add_thread(self, tid, proc, fn):
        vt = VThread(self, tid, proc, fn)
        self.threads[tid] = vt
        vt.thread.start()
        return vt

    # ---- called by virtual threads
    def yield_point(self, kind, obj, **args):
        vt = self.me()
        if self.aborting:
            raise SimAbort()
        vt.pending = (kind, obj, args)
        vt.unwinding = sys.exc_info()[1] is not None
        self.back.set()
        vt.go.wait()
        vt.go.clear()
        if self.aborting:
            raise SimAbort()

    # ---- scheduler side
    def is_enabled(self, tid) -> bool:
        vt = self.threads[tid]
        if vt.done:
            return False
        kind, obj, args = vt.pending
        if kind in ("start", "body", "lockf", "close"):
            return True
        if kind == "lock":
            return (not args["blocking"]) or obj.owner is None
        if kind == "rlock":
            return (not args["blocking"]) or obj.owner in (None, tid)
        if kind == "wake":
            return tid in obj.notified and obj.lock.owner is None
        if kind == "kwait":
            return self.kernel.grantable(obj[0], vt.proc, obj[1])
        return False

    def enabled(self):
        return [t for t in sorted(self.threads) if self.is_enabled(t)]

    def unfinished(self):
        return [t for t in sorted(self.threads) if not self.threads[t].done]

    def step(self, tid):
        vt = self.threads[tid]
        assert self.is_enabled(tid), f"thread {tid} is not enabled"
        self.back.clear()
        vt.go.set()
        if not self.back.wait(timeout=30):
            raise RuntimeError(f"virtual thread {tid} did not reach a scheduling point within 30 s")

    def pending_kind(self, tid):
        vt = self.threads[tid]
        return vt.pending[0]

    def shutdown(self):
        self.aborting = True
        for vt in self.threads.values():
            if not vt.done:
                vt.go.set()
        for vt in self.threads.values():
            vt.thread.join(timeout=5)

    # ---- projection of the real objects (for conformance with PathLock.tla)
    def projection(self):
        out = {"klock": self.kernel.snapshot(), "procs": {}}
        for q, pr in self.procs.items():
            m = pr.module
            tl = {}
            for key, (obj, rc) in m._thread_level_lock_ref._refs.items():
                c = obj._condition
                tl[key] = {
                    "ref": rc,
                    "acq": {int(k): v for k, v in sorted(obj._acquired_by.items()) if v},
                    "rlo": c.lock.owner,
                    "rld": c.lock.depth,
                    "waiters": sorted(c.waiters),
                    "notified": sorted(c.notified),
                }
            fd = {key: rc for key, (_obj, rc) in m._fd_ref._refs.items()}
            pl = {}
            for fdn, (obj, rc) in m._process_level_lock_ref._refs.items():
                pl[pr.fds.get(fdn, f"fd{fdn}")] = {
                    "ref": rc,
                    "mutex": obj._lock.owner,
                    "sh": {int(k): v for k, v in sorted(obj._shared_by.items()) if v},
                    "ex": {int(k): v for k, v in sorted(obj._exclusively_held_by.items()) if v},
                }
            out["procs"][q] = {"tl": tl, "fd": fd, "pl": pl, "open_fds": sorted(pr.fds.values())}
        return out

    def quiescent_residue(self):
        """What is left in pools / fd tables / kernel (must be empty when every thread finished)."""
        res = []
        for q, pr in self.procs.items():
            m = pr.module
            if m._thread_level_lock_ref._refs:
                res.append(f"p{q}:thread-lock pool {list(m._thread_level_lock_ref._refs)}")
            if m._fd_ref._refs:
                res.append(f"p{q}:fd pool {list(m._fd_ref._refs)}")
            if m._process_level_lock_ref._refs:
                res.append(f"p{q}:process-lock pool {list(m._process_level_lock_ref._refs)}")
            if pr.fds:
                res.append(f"p{q}:open fds {sorted(pr.fds.values())}")
        if self.kernel.snapshot():
            res.append(f"kernel locks {self.kernel.snapshot()}")
        return res
