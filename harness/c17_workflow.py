"""C17 - Workflows execute as their task graph specifies.

spec -> code : TLC enumerates every builder history of Workflow.tla (bounded), emits one case per
               frozen / refused state with the expected result TERM; the driver replays the builder
               operations on the real WorkflowBuilder, compares the projection (node order, edges),
               executes with the real dispatcher and compares the returned term.
code -> spec : every real execution logs Start/Finish events (sequence numbers taken under a lock);
               TLC validates each trace against WorkflowExec (Start only after predecessors finished,
               at most once; arguments = predecessors in node order; everything ran).
"""
from __future__ import annotations

import json
import random
import tempfile
import threading
import time

from . import core

SPEC = core.SPEC / "workflow"

SAFE_STATICS = [42, "abc", (1, 2), {"k": 1}, None, [1, 2], "x-y", 0.5, "t1", ("a", "b")]
# values dask's graph specification treats specially (DESIGN C17): known findings on the unchanged tree
HAZARD_STATICS = {
    "dask_key_string": "results",
    "callable_head_tuple": (str.upper, "x"),
    "list_with_dask_key": ["results", "a"],
}


def _tlc_cases(tier: str, v: core.Verdict):
    consts = {"quick": (5, 3), "thorough": (5, 4)}[tier]
    cfg = core.scratch("c17") / "WorkflowEmit.cfg"
    txt = (SPEC / "WorkflowEmit.cfg").read_text()
    txt = txt.replace("MaxTasks = 4", f"MaxTasks = {consts[0]}").replace("MaxOps = 3", f"MaxOps = {consts[1]}")
    cfg.write_text(txt)
    res = core.run_tlc(SPEC / "Workflow.tla", cfg, workers=16, timeout=3000)
    core.require_ok(res, "Workflow.tla exhaustive")
    if res.violated:
        raise core.MachineryError(f"Workflow.tla: design-level invariant {res.violated} violated:\n" + "\n".join(res.trace[-3:]))
    core.require_actions(res, ["DoAdd", "DoReplace", "DoInsert", ("DoPlus", "Plus"), "Execute", "DoStart", "DoFinish"], "Workflow.tla")
    core.tlc_stats_into(v, res)
    v.add_coverage(tlc_constants={"MaxTasks": consts[0], "MaxOps": consts[1], "Statics": [0, 1]}, tlc_depth=res.depth, tlc_wall_s=round(res.wall, 1))
    import shutil

    shutil.rmtree(cfg.parent, ignore_errors=True)
    cases = [c for tag, c in res.prints if tag == "CASE"]
    if not cases:
        raise core.MachineryError("Workflow.tla emitted no cases")
    return cases


# ----------------------------------------------------------------------------- replay into the implementation


class Recorder:
    def __init__(self):
        self.lock = threading.Lock()
        self.events = []

    def log(self, ev):
        with self.lock:
            self.events.append(ev)


def _mk_fn(tid: int, takes_ctx: bool, rec: Recorder, rng_seed: int, ctxbox: dict):
    rnd = random.Random(rng_seed * 1000003 + tid)
    delay = rnd.choice([0, 0, 0.0005, 0.001, 0.002])

    def body(got_ctx, args):
        rec.log({"e": "S", "t": tid})
        if delay:
            time.sleep(delay)
        out = ("T", tid, got_ctx, *args)
        preds = [a[1] for a in args if isinstance(a, tuple) and len(a) >= 3 and a[0] == "T"]
        rec.log({"e": "F", "t": tid, "preds": preds})
        return out

    if takes_ctx:

        def fn(context, *args):
            return body(context is ctxbox.get("ctx"), args)

    else:

        def fn(*args):
            return body(False, args)

    fn.__name__ = f"fn{tid}"
    return fn


_MODEL = []


def _a_model():
    if not _MODEL:
        from pharmpy.model import Model

        _MODEL.append(Model.create(name="static_input_model"))
    return _MODEL[0]


def _tid(task) -> int:
    return int(task.name[1:])


def _shape(shape, first):
    n = {"single": 1, "chain2": 2, "par2": 2, "fork2": 3, "join2": 3}[shape]
    ids = list(range(first, first + n))
    e = {"single": [], "chain2": [(0, 1)], "par2": [], "fork2": [(0, 1), (0, 2)], "join2": [(0, 2), (1, 2)]}[shape]
    return ids, [(ids[a], ids[b]) for a, b in e]


def _seqlist(x):
    """TLC's ToJson renders a set / sequence as a list; an empty function (<<>>) also as []."""
    return list(x) if isinstance(x, (list, tuple)) else []


def replay_case(arg):
    case, seed, static_choice = arg
    from pharmpy.workflows import LocalDirectoryContext, Task, Workflow, WorkflowBuilder, execute_workflow
    import pharmpy.workflows.dispatchers as disp

    disp.conf.dask_dispatcher = "threaded"
    rng = random.Random(seed)
    if static_choice == ("safe", "@MODEL"):
        # a pharmpy Model as static input: execute_workflow treats Model inputs specially, the task graph must not care
        static_choice = ("safe", _a_model())
    rec = Recorder()
    ctxbox: dict = {}
    tasks: dict[int, object] = {}
    statics: dict[int, tuple] = {}
    ctxflag: dict[int, bool] = {}
    kind, sval = static_choice
    record = {"hist": case["hist"], "static_kind": kind, "stage": None, "outcome": None}

    # look-alike mode: source tasks that are identical in every attribute (same name, same function object,
    # equal static inputs) are still DISTINCT tasks of the workflow (the spec identifies tasks by identity)
    lookalike = seed % 5 == 0
    shared_fn: dict = {}
    alike: dict[int, int] = {}
    tidmap: dict[int, int] = {}
    calls = {"n": 0}

    def tid_of(task):
        return tidmap.get(id(task), None) or _tid(task)

    def new_task(tid, st, cx, source=False):
        statics[tid] = (sval,) if st == 1 else ()
        ctxflag[tid] = cx
        if lookalike and source and not cx:
            grp = -(st + 1)
            if grp not in shared_fn:
                def fn(*args, _g=grp):
                    calls["n"] += 1
                    return ("T", _g, False, *args)

                shared_fn[grp] = fn
            alike[tid] = grp
            t = Task(f"src{st}", shared_fn[grp], *statics[tid])
        else:
            t = Task(f"t{tid}", _mk_fn(tid, cx, rec, seed, ctxbox), *statics[tid])
        tasks[tid] = t
        tidmap[id(t)] = tid
        return t

    def other_wf(shape, first):
        ids, es = _shape(shape, first)
        ob = WorkflowBuilder(name="other")
        for i in ids:
            ob.add_task(new_task(i, 0, False))
        for a, b in es:
            # add_task with predecessors on an existing node only adds the edge
            ob.add_task(tasks[b], predecessors=tasks[a])
        return Workflow(ob)

    wb = WorkflowBuilder(name="wf")
    hist = case["hist"]
    try:
        for op in hist:
            record["stage"] = op["op"]
            if op["op"] == "add":
                t = new_task(op["id"], op["st"], op["ctx"], source=not _seqlist(op["preds"]))
                preds = [tasks[p] for p in _seqlist(op["preds"])]
                rng.shuffle(preds)
                if not preds:
                    wb.add_task(t)
                elif len(preds) == 1 and rng.random() < 0.5:
                    wb.add_task(t, predecessors=preds[0])
                else:
                    wb.add_task(t, predecessors=preds)
            elif op["op"] == "replace":
                old = tasks[op["old"]]
                t = new_task(op["id"], op["st"], ctxflag[op["old"]])
                wb.replace_task(old, t)
                alike.pop(op["old"], None)
            elif op["op"] in ("insert", "insert_refused"):
                owf = other_wf(op["shape"], op["first"])
                preds = [tasks[p] for p in _seqlist(op["preds"])]
                p = None if not preds else (preds[0] if len(preds) == 1 and rng.random() < 0.5 else preds)
                if op.get("empty"):
                    p = []  # explicit empty list: unconnected insertion (not None = current outputs)
                try:
                    wb.insert_workflow(owf, predecessors=p)
                    if op["op"] == "insert_refused":
                        record["outcome"] = "accepted"
                        return ("violation", record, "insert_workflow accepted an N:M connection the documentation refuses", None)
                except ValueError:
                    if op["op"] == "insert":
                        record["outcome"] = "ValueError"
                        return ("violation", record, "insert_workflow refused a 1:1 / N:1 / 1:N connection", None)
                    return ("ok", record, None, None)
            elif op["op"] == "plus":
                wb = wb + other_wf(op["shape"], op["first"])
            elif op["op"] in ("execute", "execute_refused"):
                got_nodes = [tid_of(t) for t in wb.tasks]
                if got_nodes != _seqlist(op["bnodes"]):
                    record["outcome"] = "node_order"
                    return ("violation", record, f"builder node order {got_nodes} != spec {op['bnodes']}", None)
                # the builder's graph: exactly the declared tasks and edges (also when execution is then refused)
                got_edges = sorted((tid_of(a), tid_of(b)) for a, b in wb._g.edges())
                exp_edges = sorted((a, b) for a, b in case["edges"])
                if got_edges != exp_edges or sorted(got_nodes) != sorted(case["nodes"]):
                    record["outcome"] = "graph"
                    return ("violation", record, f"builder tasks/edges {got_nodes} {got_edges} != declared {case['nodes']} {exp_edges}", None)
                wf = Workflow(wb)
                # graph queries of the common base class, on the builder and on the frozen workflow, against the
                # specification's Queries / Sinks / Sources (Workflow.tla)
                if "queries" in case:
                    bn = _seqlist(op["bnodes"])
                    exp_in = [n for n in bn if n in set(_seqlist(case["sources"]))]
                    exp_out = [n for n in bn if n in set(_seqlist(case["sinks"]))]
                    for label, g in (("builder", wb), ("workflow", wf)):
                        got_in = [tid_of(t) for t in g.input_tasks]
                        got_out = [tid_of(t) for t in g.output_tasks]
                        bad = None
                        if got_in != exp_in:
                            bad = f"{label}.input_tasks {got_in} != specification {exp_in}"
                        elif got_out != exp_out:
                            bad = f"{label}.output_tasks {got_out} != specification {exp_out}"
                        elif len(g) != len(bn):
                            bad = f"len({label}) {len(g)} != {len(bn)}"
                        else:
                            for q in _seqlist(case["queries"]):
                                t = tasks[q["t"]]
                                for key, fn in (("p", g.get_predecessors), ("s", g.get_successors), ("u", g.get_upstream_tasks)):
                                    got = sorted({tid_of(x) for x in fn(t)})
                                    if got != sorted(_seqlist(q[key])):
                                        bad = f"{label}.{fn.__name__}({q['t']}) {got} != specification {sorted(_seqlist(q[key]))}"
                                        break
                                if bad:
                                    break
                        if bad:
                            record["outcome"] = "query"
                            return ("violation", record, bad, None)
                with tempfile.TemporaryDirectory(prefix="c17-") as tmp:
                    ctx = LocalDirectoryContext("ctx", tmp)
                    ctxbox["ctx"] = ctx
                    try:
                        res = execute_workflow(wf, context=ctx)
                    except ValueError as e:
                        if op["op"] == "execute_refused" and "one output task" in str(e):
                            return ("ok", record, None, None)
                        raise
                if op["op"] == "execute_refused":
                    record["outcome"] = "accepted"
                    return ("violation", record, "a workflow without a single output task was executed", None)
                # frozen projection (pre-dispatch): tasks and edges exactly as declared
                got_edges = sorted((tid_of(a), tid_of(b)) for a, b in wf._g.edges())
                exp_edges = sorted((a, b) for a, b in case["edges"])
                if got_edges != exp_edges or sorted(got_nodes) != sorted(case["nodes"]):
                    record["outcome"] = "graph"
                    return ("violation", record, f"tasks/edges {got_nodes} {got_edges} != declared {case['nodes']} {exp_edges}", None)

                def conv(term):
                    t = term["fn"]
                    return ("T", alike.get(t, t), bool(term["ctx"]), *statics[t], *[conv(a) for a in _seqlist(term["args"])])

                expected = conv(case["expected"])
                trace = {"nodes": case["nodes"], "edges": [list(e) for e in exp_edges], "events": rec.events}
                if alike:
                    # the shared function cannot tell which look-alike it runs for: no event trace, but every one of them
                    # must have been called exactly once
                    trace = None
                    if calls["n"] != len(alike):
                        record["outcome"] = "lookalike_calls"
                        return ("violation", record, f"{len(alike)} look-alike source tasks, their function was called {calls['n']} time(s)", None)
                if res != expected:
                    record["outcome"] = "result"
                    return ("violation", record, f"execute_workflow returned {res!r}, specification term is {expected!r}", trace)
                return ("ok", record, None, trace)
    except Exception as e:  # internal error of pharmpy (or of dask given this input)
        record["outcome"] = type(e).__name__
        return ("violation", record, f"{type(e).__name__}: {str(e)[:200]}", None)
    return ("ok", record, None, None)


def _validate_traces(traces, v: core.Verdict, records):
    if not traces:
        return
    d = core.scratch("c17tr")
    f = d / "traces.json"
    f.write_text(json.dumps(traces))
    res = core.run_tlc(SPEC / "WorkflowTrace.tla", SPEC / "WorkflowTrace.cfg", workers=1, timeout=1800, env={"TRACES": str(f)}, coverage=False)
    import shutil

    shutil.rmtree(d, ignore_errors=True)
    core.require_ok(res, "WorkflowTrace.tla")
    accepted = {x for tag, x in res.prints if tag == "ACC"}
    v.add_coverage(states=res.distinct, transitions=res.generated)
    rejected = [i for i in range(1, len(traces) + 1) if i not in accepted]
    if res.violated and res.violated not in ("Safe",):
        raise core.MachineryError(f"WorkflowTrace: unexpected {res.violated}")
    for i in rejected:
        rec = dict(records[i - 1])
        rec["outcome"] = "trace_rejected"
        rec["trace"] = traces[i - 1]
        v.violation(rec, "execution trace of the real dispatcher is not a behaviour of WorkflowExec (start before predecessors finished / run twice / wrong argument order / task not run)")
    return len(accepted)


def _run(tier, seed, v: core.Verdict, cases, hazards=True, limit=None):
    core.use_repo()
    import pharmpy.workflows  # noqa: F401  (import before forking)

    rng = random.Random(seed)
    ok_cases = [c for c in cases if c["outcome"] == "ok"]
    ref_cases = [c for c in cases if c["outcome"] != "ok"]
    n_ok = limit or {"quick": 12000, "thorough": 200000}[tier]
    n_ref = {"quick": 2000, "thorough": 20000}[tier]
    rng.shuffle(ok_cases)
    rng.shuffle(ref_cases)
    work = []
    for c in ok_cases[:n_ok]:
        # every third case with static inputs gets a Model as the static value
        has_st = any(op.get("st") == 1 for op in c["hist"])
        val = "@MODEL" if has_st and rng.random() < 0.34 else rng.choice(SAFE_STATICS)
        work.append((c, rng.randrange(1 << 30), ("safe", val)))
    for c in ref_cases[:n_ref]:
        work.append((c, rng.randrange(1 << 30), ("safe", rng.choice(SAFE_STATICS))))
    if hazards:
        with_static = [c for c in ok_cases if any(op.get("st") == 1 for op in c["hist"])]
        for kind, val in HAZARD_STATICS.items():
            for c in with_static[: (3 if tier == "quick" else 30)]:
                work.append((c, rng.randrange(1 << 30), (kind, val)))
    results = core.pmap(replay_case, work, procs=16, chunk=8)
    traces, recs = [], []
    nontrivial = set()
    for (status, record, what, trace), (c, _, _) in zip(results, work):
        if status == "violation":
            if trace is not None:
                record["trace"] = trace
            v.violation(record, what)
        if trace is not None and status == "ok":
            traces.append(trace)
            recs.append(record)
        if len(c["nodes"]) >= 2:
            nontrivial.add(json.dumps(c["hist"], sort_keys=True))
    acc = _validate_traces(traces, v, recs) or 0
    v.add_coverage(
        cases_emitted_by_tlc=len(cases),
        cases_replayed=len(work),
        distinct_nontrivial=len(nontrivial),
        evaluations=len(work),
        traces_validated_against_impl=acc,
        real_executions=len(traces),
        rule="every builder history TLC reaches within the constants is a case; non-trivial = at least 2 tasks; sampled by VERIF_SEED when more than the tier budget",
        samples=[{"hist": c["hist"], "expected": c["expected"]} for c in ok_cases[:3]],
        exhaustive=len(work) >= len(cases),
    )


def main(tier: str, seed: int) -> int:
    v = core.Verdict("C17", tier, seed)
    v.assumptions = [
        "threaded dask dispatcher (the distributed dispatcher is exercised only in its in-process form by the thorough tier)",
        "task functions from a pure term-building family; 'order in which tasks entered the workflow' read as node order, a replaced task entering anew",
    ]
    cases = _tlc_cases(tier, v)
    _run(tier, seed, v, cases)
    return v.finish(min_traces=50)


def replay(path: str) -> int:
    core.use_repo()
    data = json.loads(open(path).read())
    print(json.dumps(data, indent=1)[:3000])
    return 0
