"""C16 helper: observe and interrupt the file-system operations of the real pharmpy code.

* `install()` adds ONE process-wide audit hook (sys.addaudithook cannot be removed) and wraps
  builtins.open / io.open so that the `close` of every file opened for writing under the watched
  root is an event of its own (close is not an audit event).
* `arm(root, crash_at=None)` starts counting events whose path lies under `root`;
  with `crash_at=k` the k-th event calls os._exit(137) BEFORE the operation is performed
  (real process death: no finally blocks, no flush of user-space buffers).
* events are `(kind, relative path, detail)`.
* `on_event(kind, rel, detail)` is called BEFORE each operation (after the crash test): used to hold one
  process at a chosen operation while another one runs (two-process schedules).
"""
from __future__ import annotations

import builtins
import io
import os
import sys

AUDITED = {
    "open", "os.mkdir", "os.remove", "os.rename", "os.symlink", "os.utime", "os.listdir", "os.scandir",
    "shutil.copyfile", "os.truncate", "os.rmdir", "os.link", "os.chmod", "shutil.rmtree", "shutil.move",
}

_S = {"installed": False, "root": None, "count": 0, "crash_at": None, "events": None, "sink": None, "on_event": None}
_real_open = builtins.open
_real_io_open = io.open


def _path_of(a):
    if isinstance(a, (str, bytes, os.PathLike)):
        try:
            p = os.fspath(a)
        except Exception:
            return None
        if isinstance(p, bytes):
            p = p.decode("utf8", "replace")
        return p
    return None


def _event(kind, path, detail):
    """Called BEFORE the operation happens."""
    root = _S["root"]
    if root is None or path is None:
        return
    if not os.path.isabs(path):
        path = os.path.abspath(path)
    if not (path == root or path.startswith(root + os.sep)):
        return
    _S["count"] += 1
    rel = path[len(root):]
    if _S["crash_at"] is not None and _S["count"] >= _S["crash_at"]:
        os._exit(137)
    if _S["events"] is not None:
        _S["events"].append([kind, rel, detail])
    cb = _S["on_event"]
    if cb is not None:
        cb(kind, rel, detail)  # schedule control of two-process runs: may block until the other process has moved


def _hook(ev, args):
    if _S["root"] is None or ev not in AUDITED:
        return
    try:
        if ev == "os.symlink":
            # (src, dst, dir_fd): the link that is created is dst
            _event(ev, _path_of(args[1]), _path_of(args[0]))
        elif ev == "open":
            mode, flags = args[1], args[2]
            if mode is None:
                acc = flags & os.O_ACCMODE
                m = "fd:" + ("r" if acc == os.O_RDONLY else "w" if acc == os.O_WRONLY else "rw")
                if flags & os.O_CREAT:
                    m += "+creat"
                if flags & os.O_EXCL:
                    m += "+excl"
            else:
                m = str(mode)
            _event(ev, _path_of(args[0]), m)
        elif ev == "os.rename":
            _event(ev, _path_of(args[0]), _path_of(args[1]))
        else:
            _event(ev, _path_of(args[0]), None)
    except SystemExit:
        raise
    except Exception:
        pass


def _wrap(f, file, mode):
    if _S["root"] is None:
        return f
    if not isinstance(mode, str) or not any(c in mode for c in "wax+"):
        return f
    p = _path_of(file)
    if p is None:
        return f
    p = os.path.abspath(p)
    root = _S["root"]
    if not p.startswith(root + os.sep):
        return f
    try:
        size0 = 0 if "w" in mode else os.path.getsize(p)
    except OSError:
        size0 = 0
    orig_close = f.close
    state = {"closed": False}

    def close():
        if not state["closed"]:
            state["closed"] = True
            _event("close", p, size0)
        return orig_close()

    try:
        f.close = close
    except Exception:
        pass
    return f


def _open(file, mode="r", *a, **k):
    return _wrap(_real_open(file, mode, *a, **k), file, mode)


def _io_open(file, mode="r", *a, **k):
    return _wrap(_real_io_open(file, mode, *a, **k), file, mode)


def install():
    if _S["installed"]:
        return
    _S["installed"] = True
    sys.addaudithook(_hook)
    builtins.open = _open
    io.open = _io_open


def arm(root: str, crash_at: int | None = None, record: bool = True, on_event=None):
    _S["on_event"] = on_event
    _S["root"] = os.path.abspath(root)
    _S["count"] = 0
    _S["crash_at"] = crash_at
    _S["events"] = [] if record else None
    return _S["events"]


def disarm():
    ev = _S["events"]
    _S["root"] = None
    _S["crash_at"] = None
    _S["events"] = None
    _S["on_event"] = None
    return ev


def count() -> int:
    return _S["count"]


def mark() -> int:
    """index into the event list (for per-operation slices)"""
    return len(_S["events"]) if _S["events"] is not None else _S["count"]
