"""./check <property id> [--tier quick|thorough] [--replay file] [--selftest]"""
import argparse
import importlib
import os
import sys
import traceback

MODULES = {
    "C01": "harness.c01_read", "C02": "harness.c02_codegen", "C03": "harness.c03_roundtrip",
    "C04": "harness.c04_params", "C05": "harness.c05_compsys", "C06": "harness.c06_immutable",
    "C07": "harness.c07_preserve", "C08": "harness.c08_features", "C09": "harness.c09_effects",
    "C10": "harness.c10_statements", "C11": "harness.c11_rvs", "C12": "harness.c12_keys",
    "C13": "harness.c13_dataset", "C14": "harness.c14_events", "C15": "harness.c15_lock",
    "C16": "harness.c16_modeldb", "C17": "harness.c17_workflow", "C18": "harness.c18_mfl",
    "C19": "harness.c19_rank", "C20": "harness.c20_tables",
}


def main(argv=None):
    ap = argparse.ArgumentParser(prog="check")
    ap.add_argument("prop")
    ap.add_argument("--tier", default=os.environ.get("VERIF_TIER") or "quick", choices=["quick", "thorough"])
    ap.add_argument("--replay", default=None)
    ap.add_argument("--selftest", action="store_true")
    a = ap.parse_args(argv)
    from harness import core

    if a.prop not in MODULES:
        print(f"unknown property {a.prop}", file=sys.stderr)
        return 2
    try:
        mod = importlib.import_module(MODULES[a.prop])
        seed = core.seed_from_env()
        if a.selftest:
            return mod.selftest(seed)
        if a.replay:
            return mod.replay(a.replay)
        return mod.main(a.tier, seed)
    except core.MachineryError as e:
        print(f"MACHINERY: {a.prop}: {e}", file=sys.stderr)
        return 2
    except Exception:
        traceback.print_exc()
        print(f"MACHINERY: {a.prop}: unexpected harness exception", file=sys.stderr)
        return 2


if __name__ == "__main__":
    sys.exit(main())
