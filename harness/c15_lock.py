"""C15 - Path locks give reader-writer exclusion without deadlock in every schedule.

design layer   spec/lock/PathLock.tla   one action per segment of lock.py (see locksim.py), checked
                                         exhaustively by TLC against the property-layer predicates
property layer spec/lock/PathLockAbs.tla the promises of path_lock; PathLockTrace.tla validates traces

binding
  spec -> code  TLC behaviours of PathLock.tla (one witness per distinct terminal state + simulated runs)
                are replayed step by step on the REAL lock.py under locksim; enabled sets, the segment
                kind, the outcomes and the final projection must agree (disagreement = drift, reported);
  code -> spec  every execution (replayed, schedule-hinted or random) logs property-level events with the
                simulated kernel table; TLC validates each trace against PathLockAbs (the verdict).
"""
from __future__ import annotations

import json
import random
import shutil

from . import core
from .locksim import Sim, SimAbort

SPEC = core.SPEC / "lock"
PATHS = ["/lk/a", "/lk/b"]
# other spellings of the same files: the lock is per (normalised) path, whatever the caller writes
SPELLINGS = {"/lk/a": ["/lk/a", "/lk/./a", "/lk//a", "/lk/x/../a"], "/lk/b": ["/lk/b", "/lk/./b", "/lk/y/../b"]}


# ----------------------------------------------------------------------------- running programs on the real code


def _match_rel(ops, i):
    depth = 0
    for j in range(i + 1, len(ops)):
        if ops[j]["k"] == "acq":
            depth += 1
        elif depth == 0:
            return j
        else:
            depth -= 1
    return len(ops)


class Execution:
    """One run of a set of thread programs on the real lock module under a given scheduler."""

    def __init__(self, programs: dict, procof: dict, spell_seed: int = 0):
        core.use_repo()
        self.programs, self.procof = programs, procof
        self.spell_seed = spell_seed
        self.sim = Sim(core.REPO / "src", max(procof.values()), PATHS)
        self.events = []
        self.cur_req = {}
        self.phase = {t: "idle" for t in programs}
        self.blocked_logged = set()
        self.outcomes = {t: [] for t in programs}
        for t in sorted(programs):
            self.sim.add_thread(t, procof[t], self._make_runner(t))

    def spell(self, t, i, p):
        """The caller's spelling of path p for operation i of thread t (deterministic in spell_seed; 0 = canonical)."""
        if not self.spell_seed:
            return p
        alts = SPELLINGS.get(p, [p])
        return alts[(self.spell_seed * 7919 + t * 104729 + i * 1299709) % len(alts)]

    def _k(self):
        return [[p, q, m] for p, d in self.sim.kernel.snapshot().items() for q, m in d.items()]

    def log(self, e, t, **kw):
        self.events.append({"e": e, "t": t, **kw, "k": self._k()})

    def _make_runner(self, t):
        ops = self.programs[t]

        def classify(mod, exc):
            if isinstance(exc, mod.AcquiringThreadLevelLockWouldBlockError):
                return "wbT"
            if isinstance(exc, mod.AcquiringProcessLevelLockWouldBlockError):
                return "wbP"
            if isinstance(exc, mod.RecursiveDeadlockError):
                return "rec"
            if isinstance(exc, OSError) and exc.errno == 35:
                return "edeadlk"
            return None

        def run_ops(vt, i):
            mod = self.sim.procs[vt.proc].module
            while i < len(ops):
                op = ops[i]
                # user code: every operation (request or release) is preceded by a scheduling point
                self.sim.yield_point("body", None)
                if op["k"] == "rel":
                    return i
                self.cur_req[t] = (i, op)
                self.phase[t] = "acquiring"
                self.log("Req", t, p=op["p"], sh=op["sh"], bl=op["bl"], re=op["re"])
                entered = False
                spelled = self.spell(t, i, op["p"])
                try:
                    with mod.path_lock(spelled, shared=op["sh"], blocking=op["bl"], reentrant=op["re"]):
                        entered = True
                        self.phase[t] = "holding"
                        self.outcomes[t].append("granted")
                        self.log("Enter", t)
                        j = run_ops(vt, i + 1)
                        self.log("Exit", t)
                        self.phase[t] = "releasing"
                    self.phase[t] = "idle"
                    i = j + 1
                except SimAbort:
                    raise
                except BaseException as exc:  # noqa: BLE001
                    kind = None if entered else classify(mod, exc)
                    if kind is None:
                        raise
                    self.outcomes[t].append(kind)
                    self.log("Refuse", t, kind=kind)
                    self.phase[t] = "idle"
                    i = _match_rel(ops, i) + 1
            return i

        def runner(vt):
            run_ops(vt, 0)
            self.log("Done", t)

        return runner

    def prestart(self):
        """advance every thread from thread start to the user-code point before its first operation"""
        for t in sorted(self.programs):
            if self.sim.pending_kind(t) == "start":
                self.sim.step(t)

    def note_quiet(self):
        sim = self.sim
        en = sim.enabled()
        if en and all(sim.pending_kind(t) == "body" for t in en):
            blocked = [t for t in sim.unfinished() if t not in en and self.phase[t] == "acquiring"]
            if blocked:
                key = (tuple(blocked), tuple(sorted((t, self.cur_req[t][0]) for t in blocked)), len(self.events))
                self.events.append({"e": "Quiet", "blocked": blocked, "k": self._k()})

    def note_blocked(self):
        sim = self.sim
        for t in sim.unfinished():
            if self.phase[t] == "acquiring" and not sim.is_enabled(t):
                kind, obj, _a = sim.threads[t].pending
                if kind in ("lock", "rlock"):
                    # waiting for a mutex whose holder is runnable is transient mutual exclusion, not waiting for
                    # a lock holder: it only counts when the holder itself cannot run
                    owner = getattr(obj, "owner", None)
                    if owner is None or owner not in sim.threads or sim.is_enabled(owner):
                        continue
                key = (t, self.cur_req[t][0], sim.pending_kind(t))
                if key not in self.blocked_logged:
                    self.blocked_logged.add(key)
                    self.log("Blocked", t, prim=sim.pending_kind(t), unw=bool(getattr(sim.threads[t], "unwinding", False)))

    def run(self, chooser, max_steps=2000):
        """chooser(step_no, enabled list, execution) -> tid.  Returns the schedule actually taken."""
        sim = self.sim
        schedule = []
        try:
            self.prestart()
            n = 0
            while True:
                en = sim.enabled()
                if not en:
                    break
                t = chooser(n, en, self)
                sim.step(t)
                schedule.append(t)
                self.note_blocked()
                self.note_quiet()
                n += 1
                if n > max_steps:
                    raise core.MachineryError("execution did not terminate within max_steps")
            stuck = sim.unfinished()
            errors = {t: repr(vt.error) for t, vt in sim.threads.items() if vt.error is not None}
            stuck = [t for t in stuck]
            residue = sim.quiescent_residue() if not stuck else []
            self.events.append({"e": "Terminal", "stuck": stuck, "residue": len(residue), "residue_detail": residue,
                                "pending": {str(t): sim.pending_kind(t) for t in stuck}})
            self.errors = errors
            self.final = sim.projection()
        finally:
            sim.shutdown()
        return schedule

    def trace(self):
        n = max(self.programs)
        return {"procof": [self.procof.get(t, 0) for t in range(1, n + 1)], "events": self.events}


def validate_traces(traces, v: core.Verdict | None = None):
    """TLC (PathLockTrace.tla): returns the set of accepted trace numbers (1-based)."""
    if not traces:
        return set()
    d = core.scratch("c15tr")
    try:
        acc = set()
        B = 4000
        for off in range(0, len(traces), B):
            f = d / "traces.json"
            f.write_text(json.dumps(traces[off:off + B]))
            res = core.run_tlc(SPEC / "PathLockTrace.tla", SPEC / "PathLockTrace.cfg", workers=1, timeout=3000, env={"TRACES": str(f)}, coverage=False)
            core.require_ok(res, "PathLockTrace.tla")
            if res.violated:
                raise core.MachineryError(f"PathLockTrace: unexpected {res.violated}")
            acc |= {off + x for tag, x in res.prints if tag == "ACC"}
            if v is not None:
                v.add_coverage(states=res.distinct, transitions=res.generated)
        return acc
    finally:
        shutil.rmtree(d, ignore_errors=True)


def failing_events(traces):
    """For rejected traces: index of the first event no action of PathLockAbs explains (one TLC batch over all prefixes)."""
    pre, owner = [], []
    for ti, trace in enumerate(traces):
        evs = trace["events"]
        for n in range(1, len(evs) + 1):
            pre.append({"procof": trace["procof"], "events": evs[:n]})
            owner.append((ti, n))
    acc = validate_traces(pre)
    best = [0] * len(traces)
    for i, (ti, n) in enumerate(owner, 1):
        if i in acc and n > best[ti]:
            best[ti] = n
    # prefixes are accepted monotonically: best = length of the longest accepted prefix
    return best


def failing_event(trace):
    return failing_events([trace])[0]


# ----------------------------------------------------------------------------- programs


def acq(p, sh, bl=True, re=False):
    return {"k": "acq", "p": p, "sh": sh, "bl": bl, "re": re}


REL = {"k": "rel"}


def random_program(rng, max_req, paths):
    def flags():
        return dict(p=rng.choice(paths), sh=rng.random() < 0.55, bl=rng.random() < 0.75, re=rng.random() < 0.5)

    n = rng.randint(1, max_req)
    ops, open_ = [], 0
    for _ in range(n):
        while open_ and rng.random() < 0.45:
            ops.append(REL)
            open_ -= 1
        ops.append(acq(**flags()))
        open_ += 1
    ops.extend([REL] * open_)
    return ops


def random_chooser(rng):
    return lambda n, en, ex: rng.choice(en)


def pct_chooser(rng, nthreads, depth=3, est_len=60):
    """PCT-style: random priorities with a few priority change points."""
    prio = {t: rng.random() + 1 for t in range(1, nthreads + 1)}
    change = {rng.randrange(est_len): rng.random() for _ in range(depth - 1)}

    def ch(n, en, ex):
        if n in change:
            t = max(en, key=lambda x: prio[x])
            prio[t] = change[n] * 0.5
        return max(en, key=lambda x: prio[x])

    return ch


def dfs_program(arg):
    """Systematic exploration of the schedules of one program tuple on the real code: stateless DFS with a
    pre-emption bound (switching away from a thread that could continue costs one pre-emption; switching when the
    running thread is blocked or finished is free).  Returns one result per executed schedule."""
    programs, procof, bound, max_runs = arg[:4]
    spell_seed = arg[4] if len(arg) > 4 else 0
    results = []
    stack = [[]]
    seen = set()
    while stack and len(results) < max_runs:
        prefix = stack.pop()
        ex = Execution(programs, procof, spell_seed=spell_seed)
        record = []  # (enabled, chosen, current-before)
        cur = [None]

        def chooser(n, en, ex_):
            if n < len(prefix) and prefix[n] in en:
                t = prefix[n]
            elif cur[0] in en:
                t = cur[0]
            else:
                t = en[0]
            record.append((list(en), t, cur[0]))
            cur[0] = t
            return t

        sched = ex.run(chooser)
        key = tuple(sched)
        if key in seen:
            continue
        seen.add(key)
        results.append({"programs": programs, "procof": procof, "schedule": sched, "trace": ex.trace(), "errors": ex.errors,
                        "outcomes": ex.outcomes, "spell_seed": spell_seed})
        # pre-emptions used along the executed schedule
        used = 0
        pre = []
        for en, t, c in record:
            pre.append(used)
            if c is not None and c in en and t != c:
                used += 1
        for i in range(len(record) - 1, len(prefix) - 1, -1):
            en, t, c = record[i]
            for alt in en:
                if alt == t:
                    continue
                cost = 1 if (c is not None and c in en and alt != c) else 0
                if pre[i] + cost <= bound:
                    stack.append(sched[:i] + [alt])
    return results


def run_one(arg):
    programs, procof, mode, seed = arg
    rng = random.Random(seed)
    ex = Execution(programs, procof, spell_seed=(seed if seed % 3 else 0))
    chooser = random_chooser(rng) if mode == "random" else pct_chooser(rng, len(programs))
    sched = ex.run(chooser)
    return {"programs": programs, "procof": procof, "schedule": sched, "trace": ex.trace(), "errors": ex.errors,
            "outcomes": ex.outcomes, "spell_seed": ex.spell_seed}


def _case_record(r, idx=None):
    tr = r["trace"]
    term = tr["events"][-1]
    rec = {
        "spell_seed": r.get("spell_seed", 0),
        "programs": {str(k): v for k, v in r["programs"].items()},
        "procof": {str(k): v for k, v in r["procof"].items()},
        "schedule": r["schedule"],
        "stuck": term.get("stuck"),
        "pending": term.get("pending"),
        "errors": r.get("errors"),
    }
    return rec


def judge(results, v: core.Verdict):
    """Validate all traces with TLC and turn rejections / internal errors into violations."""
    traces = [r["trace"] for r in results]
    acc = validate_traces(traces, v)
    rejected = [i for i in range(1, len(results) + 1) if i not in acc and not results[i - 1]["errors"]]
    DIAG = 40
    where = dict(zip(rejected[:DIAG], failing_events([results[i - 1]["trace"] for i in rejected[:DIAG]])))
    for i, r in enumerate(results, 1):
        rec = _case_record(r)
        if r["errors"]:
            rec["outcome"] = "internal_error"
            v.violation(rec, f"a virtual thread died with an internal error: {r['errors']}")
            continue
        if i in acc:
            continue
        if i in where:
            n = where[i]
            ev = dict(r["trace"]["events"][n])
            rec["failing_event_index"] = n
            rec["failing_event"] = ev
            rec["outcome"] = "trace_rejected:" + ev["e"]
            rec["shape"] = shape_of(r, ev)
            v.violation(rec, f"trace of the real lock.py rejected by PathLockAbs at event {n}: {ev}")
        else:
            rec["outcome"] = "trace_rejected"
            v.violation(rec, "trace of the real lock.py rejected by PathLockAbs (not diagnosed: more than 40 rejections in this batch; use --replay)")
    return len(acc)


def shape_of(r, ev):
    """Coarse classification of a rejected terminal state, used for known-finding keys."""
    if ev["e"] != "Terminal":
        return ev["e"]
    progs = r["programs"]
    stuck = ev.get("stuck", [])
    pend = ev.get("pending", {})
    upgr = []
    for t in stuck:
        # stuck in cond.wait while upgrading a shared hold of the same path to exclusive (thread level)
        ops = progs[t] if t in progs else progs[str(t)]
        held = []
        for op in ops:
            if op["k"] == "acq":
                held.append(op)
        upgr.append(pend.get(str(t)) == "wake")
    if stuck and all(upgr):
        return "stuck_in_condition_wait"
    return "terminal"


# ----------------------------------------------------------------------------- main


def main(tier: str, seed: int) -> int:
    v = core.Verdict("C15", tier, seed)
    v.assumptions = [
        "POSIX fcntl record-lock semantics as modelled in locksim.Kernel (locks per process and file, close of any descriptor drops them, EDEADLK on cross-process cycles)",
        "path normalisation outside the bound (keys are already normalised); Windows branch not modelled",
    ]
    from . import c15_design

    c15_design.run(tier, seed, v)
    rng = random.Random(seed)
    work = []
    n_rand = {"quick": 1500, "thorough": 40000}[tier]
    for i in range(n_rand):
        nthreads = rng.choice([2, 3, 3])
        nprocs = rng.choice([1, 2])
        procof = {t: (1 if nprocs == 1 else rng.choice([1, 2])) for t in range(1, nthreads + 1)}
        if nprocs == 2 and len(set(procof.values())) == 1:
            procof[nthreads] = 2
        paths = PATHS[: rng.choice([1, 1, 2])]
        programs = {t: random_program(rng, rng.choice([1, 2, 2, 3]), paths) for t in procof}
        work.append((programs, procof, rng.choice(["random", "pct"]), rng.randrange(1 << 30)))
    results = core.pmap(run_one, work, procs=16, chunk=16)
    # systematic part: pre-emption-bounded DFS over the schedules of small programs
    core_programs = []
    P = PATHS[0]
    singles = [acq(P, sh, bl, re) for sh in (True, False) for bl in (True, False) for re in (False,)]
    for a in singles:
        for b in singles:
            for procof in ({1: 1, 2: 1}, {1: 1, 2: 2}):
                core_programs.append(({1: [a, REL], 2: [b, REL]}, procof))
    ups = [[acq(P, True, True, r1), acq(P, sh2, bl2, True), REL, REL] for r1 in (False, True) for sh2 in (True, False) for bl2 in (True, False)]
    for u in ups:
        for b in (acq(P, True), acq(P, False)):
            for procof in ({1: 1, 2: 1}, {1: 1, 2: 2}):
                core_programs.append(({1: u, 2: [b, REL]}, procof))
    seq2 = [acq(P, True), REL, acq(P, False), REL]
    core_programs.append(({1: seq2, 2: seq2, 3: [acq(P, True), REL]}, {1: 1, 2: 1, 3: 2}))
    rng.shuffle(core_programs)
    n_core = {"quick": 40, "thorough": len(core_programs)}[tier]
    bound, max_runs = {"quick": (2, 400), "thorough": (3, 6000)}[tier]
    # every second program is run with non-canonical spellings of the path (same file, other text)
    dfs_res = core.pmap(dfs_program, [(pr, po, bound, max_runs, (rng.randrange(1, 1 << 20) if k % 2 else 0)) for k, (pr, po) in enumerate(core_programs[:n_core])], procs=16, chunk=1)
    flat = [r for rs in dfs_res for r in rs]
    v.add_coverage(dfs_programs=n_core, dfs_schedules=len(flat), dfs_preemption_bound=bound)
    results = results + flat
    acc = judge(results, v)
    v.add_coverage(
        random_executions=len(results),
        traces_validated_against_impl=acc,
        evaluations=len(results),
        rule="random programs (<=3 threads, <=2 processes, <=3 nested/sequential requests, all flag combinations, <=2 paths) under random and PCT schedulers at segment granularity; plus the TLC-generated behaviours replayed by c15_design",
    )
    v.coverage.setdefault("samples", []).append({"programs": work[0][0], "procof": work[0][1], "schedule": results[0]["schedule"][:40]})
    return v.finish(min_traces=100)


def replay(path: str) -> int:
    data = json.loads(open(path).read())
    case = data["case"]
    programs = {int(k): v for k, v in case["programs"].items()}
    procof = {int(k): v for k, v in case["procof"].items()}
    sched = list(case["schedule"])
    ex = Execution(programs, procof, spell_seed=case.get("spell_seed", 0))

    def chooser(n, en, ex_):
        t = sched[n] if n < len(sched) and sched[n] in en else en[0]
        return t

    ex.run(chooser)
    for e in ex.events:
        print(json.dumps(e))
    acc = validate_traces([ex.trace()])
    print("accepted by PathLockAbs" if acc else f"REJECTED at event {failing_event(ex.trace())}")
    return 0 if acc else 1
