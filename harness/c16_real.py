"""C16 helper: run workloads on the REAL pharmpy model database / context, kill the process at a chosen
file-system operation, and observe the surviving directory with fresh objects.

Everything here only *drives* and *projects*; the verdict is TLC's (ModelDBTrace.tla / ModelDBAbs.tla).
Operations and events use the field names of the specification:
    {"e": "Store", "m": model id, "n": name, "d": description}      {"e": "Retrieve", "m"}
    {"e": "ResolveName", "n"}   {"e": "RetrieveName", "n"}   {"e": "ReadAnn", "n"}
    {"e": "Log", "g": message}  {"e": "ReadLog"}
Texts are ids of a benign alphabet (strings: crash traces) or token lists (fidelity traces).
"""
from __future__ import annotations

import json
import os
import re
import shutil
import time
import traceback

from . import c16_fsaudit as A

PHENO = "tests/testdata/nonmem/pheno_real.mod"
DATA_OF = {"m1": "d1", "m2": "d1", "m3": "d2"}
PARAM_OF = {"m1": "p1", "m2": "p2", "m3": "p1"}
TEXT = {
    "na": "run_a", "nb": "run_b", "nc": "run_c", "fm1": "fu_m1", "fm2": "fu_m2", "fm3": "fu_m3",
    "cm1": "cc_m1", "cm2": "cc_m2", "cm3": "cc_m3",
    "dA": "descr A", "dB": "descr B", "dC": "descr C", "dF": "descr F",
    "gA": "message A", "gB": "message, B", "gC": 'message "C"', "gF": "message F",
}
TOKENS = {"DQ": '"', "COMMA": ",", "NL": "\n", "CR": "\r", "SP": " ", "NA": "NA", "NUM": "1e5", "A": "a", "SEMI": ";"}
NOC = {"model": "none", "data": "none", "hash": "none", "res": "none", "rlog": [], "name": "none", "desc": "none"}
LOG_LEN = {"m1": 11, "m2": 14, "m3": 1}  # entries of the log inside the stored modelfit results (LogLenOfDef in ModelDBAbs.tla)
FRESH_LOG_LEN = (0, 1, 10, 11, 14)      # fidelity cases cycle through these

_W = {}  # world: models, keys, results (built once in the parent, inherited by forks)

# documented refusals / lookups are named, anything else is "error:<Type>"
REFUSALS = {"PendingTransactionError": "pending", "KeyError": "notfound", "ValueError": "refused"}


def world(repo):
    if _W:
        return _W
    import pandas as pd
    from pharmpy.model import Model
    from pharmpy.modeling import set_initial_estimates
    from pharmpy.workflows import ModelfitResults
    from pharmpy.workflows.hashing import ModelHash

    base = Model.parse_model(os.path.join(str(repo), PHENO))
    m1 = base.replace(name="m1", description="descr A")
    p0 = m1.parameters.names[0]
    m2 = set_initial_estimates(m1, {p0: 0.005}).replace(name="m2")  # same dataset, other model
    df = m1.dataset.copy()
    df.loc[df.index[0], "WGT"] = 9.9
    m3 = m1.replace(dataset=df, name="m3")  # same model code, other dataset (same columns)
    _W["models"] = {"m1": m1, "m2": m2, "m3": m3}
    _W["keys"] = {k: str(ModelHash(v)) for k, v in _W["models"].items()}
    _W["dhash"] = {k: ModelHash(v).dataset_hash for k, v in _W["models"].items()}
    from pharmpy.workflows import Log
    from pharmpy.workflows.log import LogEntry
    import datetime

    def mklog(tag, n):
        t0 = datetime.datetime(2024, 1, 1, 12, 0, 0)
        return Log(tuple(LogEntry(category="WARNING" if i % 3 else "ERROR", message=f"{tag}: entry {i} of the results log",
                                  time=t0 + datetime.timedelta(seconds=i)) for i in range(n)))

    # m1 and m3 have the same code, parameters and datainfo and differ ONLY in dataset values; their results differ
    _W["res"] = {
        k: ModelfitResults(ofv=100.0 + i, parameter_estimates=pd.Series({p0: 0.25 * (i + 1)}), warnings=[], log=mklog(k, LOG_LEN[k]))
        for i, k in enumerate(("m1", "m2", "m3"))
    }
    _W["res_fresh"] = {n: ModelfitResults(ofv=100.0, parameter_estimates=pd.Series({p0: 0.25}), warnings=[], log=mklog("m1", n))
                       for n in FRESH_LOG_LEN}
    _W["p0"] = p0
    _W["fresh"] = 0
    # no assertion on the keys: colliding keys are a defect of the code under test, to be judged by the check
    return _W


def text_of(x):
    """ids of the benign alphabet -> concrete strings; a list is a token sequence (fidelity cases)."""
    if isinstance(x, list):
        return "".join(TOKENS[t] for t in x)
    return TEXT.get(x, str(x))


def tokenize(s):
    """inverse of text_of for token sequences; ["OTHER", repr] when s is not a concatenation of tokens"""
    if not isinstance(s, str):
        return ["OTHER", repr(s)[:40]]
    out, i = [], 0
    order = sorted(TOKENS.items(), key=lambda kv: -len(kv[1]))
    while i < len(s):
        for k, v in order:
            if s.startswith(v, i):
                out.append(k)
                i += len(v)
                break
        else:
            return ["OTHER", repr(s)[:40]]
    return out


def text_id(s, as_tokens):
    if as_tokens:
        return tokenize(s)
    if isinstance(s, str):
        for k, v in TEXT.items():
            if v == s:
                return k
    return "other:" + (s if isinstance(s, str) and len(s) < 40 else repr(s)[:40])


def outcome_of(exc):
    n = type(exc).__name__
    return REFUSALS.get(n, "error:" + n)


# ----------------------------------------------------------------------------- operations on the real objects


def open_ctx(root):
    from pharmpy.workflows import LocalDirectoryContext

    ctx = LocalDirectoryContext("ctx", root)
    ctx.broadcast_message = lambda *a, **k: None
    return ctx


def project_entry(me, tok):
    """small JSON value describing a retrieved ModelEntry in terms of the workload's models"""
    from pharmpy.workflows.hashing import ModelHash

    w = _W
    model = me.model
    which = "other"
    for k, m in (("p1", w["models"]["m1"]), ("p2", w["models"]["m2"])):
        try:
            if model.parameters == m.parameters and model.random_variables == m.random_variables and model.statements == m.statements:
                which = k
                break
        except Exception:
            pass
    data = "other"
    try:
        ds = model.dataset
        if ds is None:
            from pharmpy.modeling import load_dataset

            ds = load_dataset(model).dataset
        for k, d in (("d1", w["models"]["m1"].dataset), ("d2", w["models"]["m3"].dataset)):
            if ds is not None and ds.equals(d):
                data = k
    except Exception as e:
        data = "error:" + type(e).__name__
    try:
        h = str(ModelHash(model))
    except Exception as e:
        h = "error:" + type(e).__name__
    hk = [k for k, v in w["keys"].items() if v == h]
    if not hk and which == "other" and data in ("d1", "d2"):
        # fidelity cases use fresh variants of m1 (another initial estimate): compare with the variant stored last
        fv = w.get("fresh_model")
        try:
            if fv is not None and str(ModelHash(fv)) == h and model.parameters == fv.parameters and model.statements == fv.statements:
                hk, which = ["m1"], "p1"
        except Exception:
            pass
    res = "none"
    r = me.modelfit_results
    if r is not None:
        res = "other"
        for k, rr in w["res"].items():
            try:
                if r.ofv == rr.ofv and list(r.parameter_estimates.values) == list(rr.parameter_estimates.values):
                    res = k
            except Exception:
                pass
    # the log that belongs to the stored results: position of every retrieved (category, message) in the stored log
    rlog = []
    try:
        lg = me.log if me.log is not None else (r.log if r is not None else None)
        stored = w.get("stored_log")
        if stored is None and res in w["res"]:
            stored = w["res"][res].log
        ref = [(e.category, e.message) for e in stored] if stored is not None else []
        for e in (lg if lg is not None else ()):
            rlog.append(ref.index((e.category, e.message)) + 1 if (e.category, e.message) in ref else 0)
        if r is not None and r.log is not None and lg is not None and [(e.category, e.message) for e in r.log] != [(e.category, e.message) for e in lg]:
            rlog.append(0)  # ModelEntry.log and ModelfitResults.log of one retrieved entry must agree
    except Exception:
        rlog = [0]
    return {"model": which, "data": data, "hash": hk[0] if hk else "other", "res": res, "rlog": rlog,
            "name": text_id(model.name, tok), "desc": text_id(model.description, tok)}


def _detail(e):
    tb = traceback.extract_tb(e.__traceback__)
    where = ""
    for fr in reversed(tb):
        if "pharmpy" in fr.filename:
            where = f"{os.path.basename(fr.filename)}:{fr.name}"
            break
    return {"msg": str(e)[:160], "where": where, "type": type(e).__name__}


def do_op(ctx, op, tok=False, fresh=0):
    """perform one abstract operation on the real objects; returns the event (op + out + projected result)"""
    from pharmpy.workflows import ModelEntry
    from pharmpy.workflows.hashing import ModelHash

    w = _W
    kind = op["e"]
    ev = dict(op)
    try:
        if kind == "Store":
            base = w["models"][op["m"]]
            if fresh:
                # a new key per fidelity case (otherwise the model file of the first case would be re-used)
                from pharmpy.modeling import set_initial_estimates

                base = set_initial_estimates(base, {w["p0"]: 0.0041 + 1e-6 * fresh})
                w["fresh_model"] = base
            ev.setdefault("troublesome", bool(tok))
            results = w["res"][op["m"]]
            if fresh:
                results = w["res_fresh"][FRESH_LOG_LEN[fresh % len(FRESH_LOG_LEN)]]
                w["stored_log"] = results.log
            ev["nlog"] = len(results.log)
            ev["stage"] = "build"
            m = base.replace(name=text_of(op["n"]), description=text_of(op["d"]))
            ev["stage"] = "store"
            ctx.store_model_entry(ModelEntry.create(m, modelfit_results=results))
            ev.pop("stage")
        elif kind == "Retrieve":
            ev["c"] = NOC
            me = ctx.model_database.retrieve_model_entry(ModelHash(w["keys"][op["m"]]))
            ev["c"] = project_entry(me, tok)
        elif kind == "RetrieveName":
            ev["c"] = NOC
            me = ctx.retrieve_model_entry(text_of(op["n"]))
            ev["c"] = project_entry(me, tok)
        elif kind == "ResolveName":
            ev["key"] = "none"
            k = str(ctx.retrieve_key(text_of(op["n"])))
            hk = [m for m, v in w["keys"].items() if v == k]
            fv = w.get("fresh_model")
            if not hk and fv is not None and str(ModelHash(fv)) == k:
                hk = ["m1"]
            ev["key"] = hk[0] if hk else "other"
        elif kind == "ReadAnn":
            ev["d"] = "none" if not tok else ["NONE"]
            ev["d"] = text_id(ctx.retrieve_annotation(text_of(op["n"])), tok)
        elif kind == "Log":
            ctx.log_info(text_of(op["g"]))
        elif kind == "ReadLog":
            ev["lines"] = []
            df = ctx.retrieve_log()
            ev["lines"] = [text_id(x, tok) for x in df["message"].tolist()]
        else:
            raise RuntimeError("unknown op " + kind)
        ev["out"] = "ok"
    except BaseException as e:  # noqa: BLE001 - the outcome is data
        if isinstance(e, (KeyboardInterrupt, SystemExit)):
            raise
        ev["out"] = outcome_of(e)
        if kind == "Store" and ev["out"] == "notfound":
            ev["out"] = "error:KeyError"  # a lookup error inside a store is an internal error
        if kind in ("Log", "ReadLog", "ReadAnn") and ev["out"] in ("pending", "refused"):
            ev["out"] = "error:" + type(e).__name__
        if kind == "ReadLog" and ev["out"] == "notfound":
            ev["out"] = "error:KeyError"
        ev["detail"] = _detail(e)
    return ev


# ----------------------------------------------------------------------------- child: run a workload, maybe die


def label_events(events, opkind):
    """map audited events of ONE operation to the step names of ModelDB.tla (conformance: drift only)"""
    out = []
    seen_pending = False
    reader = opkind in ("Retrieve", "RetrieveName", "ResolveName")
    for kind, rel, detail in events:
        base = os.path.basename(rel)
        parent = os.path.basename(os.path.dirname(rel))
        lab = "?" + kind + ":" + base
        if "/.modeldb/" not in rel + "/":
            if base in ("", "ctx", "subcontexts", "models") and kind == "os.mkdir":
                lab = "InitDirs"
            elif parent == "models" and kind == "os.symlink":
                lab = "Symlink"
            elif base == "annotations":
                if kind in ("os.utime",) or (kind == "open" and str(detail).startswith("fd:")):
                    lab = "InitDirs"
                elif kind == "open":
                    lab = "AnnReadAll" if detail == "r" else "AnnTruncate"
                elif kind == "close":
                    lab = "AnnWrite"
            elif base == "annotations.tmp":
                lab = {"open": "AnnOpenTmp", "close": "AnnCloseTmp", "os.rename": "AnnRename"}.get(kind, lab)
            elif base == "annotations.lock":
                lab = "AnnLockEx" if detail == "fd:rw" else "AnnTouchLock"
            elif base == "log.lock":
                lab = "LogLockEx" if detail == "fd:rw" else "LogTouchLock"
                if opkind == "Open":  # _init_log creates log.csv under the log lock
                    lab = "Init" + lab
            elif base == "log.tmp":
                lab = {"open": "OpenLogTmp", "close": "CloseLogTmp", "os.rename": "RenameLog"}.get(kind, lab)
            elif base == "log.csv":
                if kind == "open":
                    lab = {"w": "OpenLogHeader", "a": "LogOpenAppend", "r": "ReadLog"}.get(detail, lab)
                elif kind == "close":
                    lab = "WriteLogHeader" if opkind == "Open" else "LogWrite"
            elif base == "common_options":
                lab = "InitCommon"
        else:
            if base == ".modeldb":
                lab = "InitDirs"
            elif base == ".lock":
                if detail == "fd:rw":
                    lab = "LockSh" if reader else "LockEx"
                else:
                    lab = "RTouchLock" if reader else "TouchLock"
            elif base == "PENDING":
                lab = "UnlinkPending" if kind == "os.remove" else "TouchPending"
                seen_pending = True
            elif "/.datasets" in rel:
                if kind == "os.mkdir":
                    lab = "MkHashDir"
                elif kind in ("os.listdir", "os.scandir"):
                    lab = "ScanDatasetNumbers" if base == ".datasets" else "ListHashDir"
                elif "/.hash/" in rel:
                    lab = "TouchIndex"
                elif base.endswith(".csv"):
                    lab = {"open": "OpenCsv" if detail == "w" else "ReadEntry", "close": "CloseCsv"}.get(kind, lab)
                elif base.endswith(".datainfo"):
                    if kind == "close":
                        lab = "CloseDatainfo"
                    elif detail == "w":
                        lab = "OpenDatainfo"
                    else:
                        lab = "ReadDatainfo" if opkind == "Store" else "ReadEntry"
            elif base.startswith("model."):
                lab = {"open": "OpenModel" if detail == "w" else "ReadEntry", "close": "CloseModel"}.get(kind, lab)
            elif base == "results.json":
                lab = {"open": "OpenResults" if detail == "w" else "ReadEntry", "close": "CloseResults"}.get(kind, lab)
            elif kind == "os.mkdir":
                if not seen_pending:
                    lab = "RMkKeyDirs" if reader else "MkKeyDirs"
                else:
                    lab = "MkMetaDir" if base == ".pharmpy" else "MkModelDir"
        out.append(lab)
    return out


def _status(fd, rec):
    rec["t"] = time.time()
    os.write(fd, (json.dumps(rec) + "\n").encode())


def _wait_file(path, needle=None, timeout=300.0):
    """poll until `path` exists (and contains `needle`); returns False on time-out"""
    t0 = time.time()
    while time.time() - t0 < timeout:
        try:
            if needle is None:
                if os.path.exists(path):
                    return True
            else:
                with A._real_open(path) as f:
                    if needle in f.read():
                        return True
        except OSError:
            pass
        time.sleep(0.01)
    return False


OPEN_DONE = '"i": 0, "ph": "e"'


def spawn_child(root, ops, crash_at, status_path, pause=None, wait_for=None):
    """fork; the child runs Open + ops under the audit hook and dies at event `crash_at` (None: runs to the end).
    pause = [{"label": step name, "opi": operation index (0 = Open), "paused": marker path, "go": flag path}, ...]: hold points in
            the order they are met: the child stops BEFORE the first audited event of that design-layer step of that operation
            until the flag file exists (two-process schedules dictated by a TLC counterexample);
    wait_for = status file of another child: Open starts only after that child's Open has returned."""
    pid = os.fork()
    if pid != 0:
        return pid
    rc = 3
    try:
        fd = os.open(status_path, os.O_WRONLY | os.O_CREAT | os.O_TRUNC, 0o644)
        if wait_for is not None:
            _wait_file(wait_for, OPEN_DONE)
        A.install()
        state = {"kind": "Open", "opi": 0, "events": [], "hp": 0}

        def on_event(kind, rel, detail):
            if state["hp"] >= len(pause):
                return
            state["events"].append([kind, rel, detail])
            h = pause[state["hp"]]
            labs = label_events(state["events"], state["kind"])
            if state["opi"] == h["opi"] and labs[-1] == h["label"] and (len(labs) == 1 or labs[-2] != labs[-1]):
                state["hp"] += 1
                os.close(os.open(h["paused"], os.O_WRONLY | os.O_CREAT, 0o644))
                _wait_file(h["go"])

        A.arm(root, crash_at=crash_at, record=crash_at is None, on_event=on_event if pause else None)
        _status(fd, {"i": 0, "ph": "b", "n": A.count()})
        try:
            ctx = open_ctx(root)
            _status(fd, {"i": 0, "ph": "e", "n": A.count(), "ev": {"e": "Reopen", "out": "ok"}})
        except BaseException as e:  # noqa: BLE001
            _status(fd, {"i": 0, "ph": "e", "n": A.count(), "ev": {"e": "Reopen", "out": outcome_of(e), "detail": _detail(e)}})
            ctx = None
        if ctx is not None:
            for i, op in enumerate(ops, start=1):
                state["kind"], state["opi"], state["events"] = op["e"], i, []
                _status(fd, {"i": i, "ph": "b", "n": A.count()})
                ev = do_op(ctx, op)
                _status(fd, {"i": i, "ph": "e", "n": A.count(), "ev": ev})
        evs = A.disarm()
        if evs is not None:
            _status(fd, {"events": evs})
        rc = 0
    except BaseException:  # noqa: BLE001
        traceback.print_exc()
        rc = 3
    finally:
        os._exit(rc)


def reap_child(pid, status_path, timeout=None):
    """wait for a child; with a time-out the child is killed when it does not end (exit code -9)"""
    if timeout is None:
        _, st = os.waitpid(pid, 0)
        code = os.waitstatus_to_exitcode(st)
    else:
        t0, code = time.time(), None
        while time.time() - t0 < timeout:
            r, st = os.waitpid(pid, os.WNOHANG)
            if r != 0:
                code = os.waitstatus_to_exitcode(st)
                break
            time.sleep(0.02)
        if code is None:
            os.kill(pid, 9)
            os.waitpid(pid, 0)
            code = -9
    recs = []
    try:
        with A._real_open(status_path) as f:
            for line in f:
                try:
                    recs.append(json.loads(line))
                except ValueError:
                    pass
    except OSError:
        pass
    return code, recs


def read_status(status_path):
    recs = []
    try:
        with A._real_open(status_path) as f:
            for line in f:
                try:
                    recs.append(json.loads(line))
                except ValueError:
                    pass
    except OSError:
        pass
    return recs


def run_child(root, ops, crash_at, status_path):
    """Returns (exit code, status records: op begin/end with event counts; the recorded events when not crashing)."""
    return reap_child(spawn_child(root, ops, crash_at, status_path), status_path)


_TS = re.compile(rb"\d{4}-\d\d-\d\d \d\d:\d\d:\d\d\.\d+")


def tree_digest(root):
    """content digest of a directory tree (paths, link targets, file bytes): equal digest = equal post-crash state"""
    import hashlib

    h = hashlib.sha256()
    for dp, dn, fn in os.walk(root):
        dn.sort()
        rel = os.path.relpath(dp, root)
        h.update(b"D" + rel.encode() + b"\0")
        for f in sorted(fn) + [d for d in dn if os.path.islink(os.path.join(dp, d))]:
            p = os.path.join(dp, f)
            if os.path.islink(p):
                h.update(b"L" + f.encode() + b">" + os.readlink(p).encode() + b"\0")
                continue
            h.update(b"F" + f.encode() + b"\0")
            with A._real_open(p, "rb") as fh:
                data = fh.read()
            if f == "log.csv":
                data = _TS.sub(b"T", data)  # time stamps differ between runs
            h.update(hashlib.sha256(data).digest())
    return h.hexdigest()


def tear(root, rel, size0, variant):
    """torn final write: the file closed last keeps only its first half / nothing of what was written"""
    p = root + rel
    cur = os.path.getsize(p)
    new = size0 if variant == "t0" else size0 + (cur - size0) // 2
    os.truncate(p, new)
    return cur, new


# ----------------------------------------------------------------------------- parent: observe a post-crash tree


def observe(root, names, followups, crashed_model):
    """fresh objects on the surviving tree; returns the list of observation events.

    look1 (right after the crash): log, name -> key, annotations of every name, and the entry of the interrupted
    model;  follow-up operations (stores of the other models, a log
    message);  look2 (fresh objects again): everything - every key, every name through the public retrieval."""
    evs = []

    def add(ev, phase):
        ev["phase"] = phase
        evs.append(ev)
        return ev

    try:
        ctx = open_ctx(root)
        add({"e": "Reopen", "out": "ok"}, "reopen")
    except BaseException as e:  # noqa: BLE001
        add({"e": "Reopen", "out": outcome_of(e), "detail": _detail(e)}, "reopen")
        return evs

    def look(c, ns, phase, models, full_names):
        add(do_op(c, {"e": "ReadLog"}), phase)
        for n in ns:
            add(do_op(c, {"e": "ResolveName", "n": n}), phase)
            add(do_op(c, {"e": "ReadAnn", "n": n}), phase)
            if n in full_names:
                add(do_op(c, {"e": "RetrieveName", "n": n}), phase)
        for m in models:
            add(do_op(c, {"e": "Retrieve", "m": m}), phase)

    first = [crashed_model] if crashed_model is not None else []
    look(ctx, names, "look1", first, ())
    fu_names = []
    for op in followups:
        add(do_op(ctx, op), "followup")
        if op["e"] == "Store" and op["n"] not in names and op["n"] not in fu_names:
            fu_names.append(op["n"])
    # fresh objects again: nothing may depend on in-memory state of the follow-up writer
    try:
        ctx2 = open_ctx(root)
        add({"e": "Reopen", "out": "ok"}, "reopen2")
    except BaseException as e:  # noqa: BLE001
        add({"e": "Reopen", "out": outcome_of(e), "detail": _detail(e)}, "reopen2")
        return evs
    look(ctx2, list(names) + fu_names, "look2", ("m1", "m2", "m3"), list(names)[-2:])
    if crashed_model is not None:
        # the interrupted model itself: any documented outcome is admitted, but no partial entry may appear
        add(do_op(ctx2, {"e": "Store", "m": crashed_model, "n": "f" + crashed_model, "d": "dF"}), "restore")
        add(do_op(ctx2, {"e": "Retrieve", "m": crashed_model}), "restore")
    return evs


def copy_tree(src, dst):
    shutil.copytree(src, dst, symlinks=True)
