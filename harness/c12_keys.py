"""C12 - Serialisation round-trips and model hashes identify models across processes.

spec (spec/features/Keys.tla): key[sigma] partial function content class -> digest, filled by Key(proc, seed, history,
     label, sigma, k); invariants Functional / Independent / Injective (on parameters, rvs, statements, execution steps,
     data) and TripsEqual for RoundTrip events.  TLC explores the reference model (digest = canonical content) in a bounded
     instance and shows with Fault = order | seed | name | drop | trip that each invariant has teeth.
code -> spec (KeysTrace.tla): the driver builds models by many histories (single edits, the same two edits in both orders,
     do/undo pairs, CompartmentalSystemBuilder operations in different orders, label edits, data edits, trips through
     to_dict / generic code / pickle), assigns content classes with pharmpy's own == (+ dataset equality), has
     str(ModelHash(model)) computed in this process and in three fresh interpreters (PYTHONHASHSEED 0, 1, random; the
     children also rebuild a sample of the histories themselves), records round trips of every visited model and
     component, and TLC validates the event trace.
"""
from __future__ import annotations

import itertools
import json
import os
import pickle
import random
import shutil
import subprocess
import sys
import threading
import time
from pathlib import Path

from . import core
from . import c06_monitor as M

SPEC = core.SPEC / "features"
_TIER = "quick"
BASES = {"quick": ["pheno", "mox2"], "thorough": ["pheno", "mox2", "pheno+fo+p1", "mox2+joint+comb"]}


# ----------------------------------------------------------------------------- recipes


def _steps_for(I: M.Info, key: str):
    """token -> step for one base (arguments fixed from the base model, so that both orders get the same edits)."""
    th0, th1 = I.th(0), I.th(1)
    t0, t1 = I.init(th0), I.init(th1)
    unused = next((c for c in ("FA2", "ACE", "DIG", "DIU") if c in I.cols), I.cols[-1])
    f = lambda name, **kw: {"f": name, "kw": kw}  # noqa: E731
    T = {
        "FIX0": f("fix_parameters", parameter_names=[th0]),
        "FIX1": f("fix_parameters", parameter_names=[th1]),
        "INIT0": f("set_initial_estimates", inits={th0: t0 * 1.1}),
        "INIT1": f("set_initial_estimates", inits={th1: t1 * 0.9}),
        "LOW0": f("set_lower_bounds", bounds={th0: t0 / 2}),
        "UP1": f("set_upper_bounds", bounds={th1: t1 * 3}),
        "EST+": f("add_estimation_step", method="IMP"),
        "EVAL": f("set_evaluation_step"),
        "UNC": f("add_parameter_uncertainty_step", parameter_uncertainty_method="RMAT"),
        "PRED": f("add_predictions", pred=["CIPREDI"]),
        "DERIV": f("add_derivative", with_respect_to=I.eta()),
        "COV": f("add_covariate_effect", parameter=I.ip(), covariate=I.covs[0], effect="exp"),
        "P+": f("add_peripheral_compartment"),
        "LAG": f("add_lag_time"),
        "BIO": f("add_bioavailability"),
        "ABS": f("set_first_order_absorption") if "DEPOT" not in I.comps else f("set_zero_order_absorption"),
        "MM": f("set_michaelis_menten_elimination"),
        "PROP": f("set_proportional_error_model"),
        "COMB": f("set_combined_error_model"),
        "IIVRUV": f("set_iiv_on_ruv"),
        "JOINT": f("create_joint_distribution"),
        "RMIIV": f("remove_iiv", to_remove=[I.eta()]),
        "BOXCOX": f("transform_etas_boxcox", list_of_etas=[I.eta()]),
        "FILTER": f("filter_dataset", expr="ID < 30"),
        "DROPCOL": f("drop_columns", column_names=[unused]),
        "TAD": f("add_time_after_dose"),
        "NAME": f("set_name", new_name="other_name"),
        "DESC": f("set_description", new_description="another description"),
        "PATH": {"op": "@path"},
    }
    undo = {
        "LAG": f("remove_lag_time"),
        "P+": f("remove_peripheral_compartment"),
        "BIO": f("remove_bioavailability"),
        "FIX0": f("unfix_parameters", parameter_names=[th0]),
        "JOINT": f("split_joint_distribution"),
        "EST+": f("remove_estimation_step", idx=1),
        "UNC": f("remove_parameter_uncertainty_step"),
        "NAME": f("set_name", new_name=I.m.name),
        "TR2": f("set_transit_compartments", n=0),
    }
    T2 = dict(T)
    T2["TR2"] = f("set_transit_compartments", n=2)
    if "DEPOT" not in I.comps:
        undo["ABS"] = f("set_instantaneous_absorption")
    return T, T2, undo


LABEL_TOKENS = ("NAME", "DESC", "PATH")
DATA_OPS = ("@cell", "@dtype", "@rowdrop", "@index")
TRIP_OPS = ("@dict", "@code", "@pickle")


def make_recipes(tier: str, seed: int, infos: dict):
    rng = random.Random(seed)
    recipes = []
    for key in BASES[tier]:
        T, T2, undo = _steps_for(infos[key], key)
        add = lambda name, steps: recipes.append({"base": key, "hist": f"{key}:{name}", "steps": steps})  # noqa: E731
        add("", [])
        add("reread", [{"op": "@reread"}])
        for t, st in T.items():
            add(t, [st])
        toks = sorted(T)
        pairs = list(itertools.combinations(toks, 2))
        rng.shuffle(pairs)
        npairs = {"quick": 32, "thorough": 240}[tier]
        for a, b in pairs[:npairs]:
            add(f"{a},{b}", [T[a], T[b]])
            add(f"{b},{a}", [T[b], T[a]])
        for t, u in undo.items():
            add(f"{t},~{t}", [T2[t], u])
            if tier == "thorough" or rng.random() < 0.5:
                other = rng.choice([x for x in toks if x != t and x not in LABEL_TOKENS])
                add(f"{other},{t},~{t}", [T[other], T2[t], u])
                add(f"{other}", [T[other]])
        add("P+,P+,~P+,~P+", [T["P+"], T["P+"], undo["P+"], undo["P+"]])
        for i in range(4):
            add(f"@cs{i}", [{"op": "@cs", "i": i}])
            add(f"P+,@cs{i}", [T["P+"], {"op": "@cs", "i": i}])
        for order in ("BI", "IB", "RBI", "IRB"):
            # a dosing compartment with several doses, stored in different orders (Bolus / Infusion(duration) / Infusion(rate))
            add(f"@doses{order}", [{"op": "@doses", "order": order}])
        add("P+,@dosesBI", [T["P+"], {"op": "@doses", "order": "BI"}])
        add("P+,@dosesIB", [T["P+"], {"op": "@doses", "order": "IB"}])
        for op in DATA_OPS:
            add(op, [{"op": op}])
        for op in TRIP_OPS:
            add(op, [{"op": op}])
            add(f"COV,{op}", [T["COV"], {"op": op}])
            add(f"P+,EST+,{op}", [T["P+"], T["EST+"], {"op": op}])
        add("NAME,DESC,PATH", [T["NAME"], T["DESC"], T["PATH"]])
        add("COV,NAME", [T["COV"], T["NAME"]])
    # a model using every function the NM-TRAN expression reader produces: serialisation of expressions
    for name, steps in (("", []), ("@dict", [{"op": "@dict"}]), ("@code", [{"op": "@code"}]), ("@pickle", [{"op": "@pickle"}]),
                        ("NAME", [{"f": "set_name", "kw": {"new_name": "other_name"}}])):
        recipes.append({"base": "syn_funcs", "hist": f"syn_funcs:{name}", "steps": steps})
    seen, out = set(), []
    for r in recipes:
        if r["hist"] not in seen:
            seen.add(r["hist"])
            out.append(r)
    return out


def _permuted_system(cs, i: int):
    """The same compartmental system built through CompartmentalSystemBuilder with another order of operations."""
    from pharmpy.model import CompartmentalSystem, CompartmentalSystemBuilder, output

    comps = [c for c in cs._g.nodes if c is not output]
    edges = [(u, v, r) for u, v, r in cs._g.edges.data("rate")]
    if i & 1:
        comps = list(reversed(comps))
    if i & 2:
        edges = list(reversed(edges))
    cb = CompartmentalSystemBuilder()
    for c in comps:
        cb.add_compartment(c)
    for u, v, r in edges:
        cb.add_flow(u, v, r)
    return CompartmentalSystem(cb, t=cs.t)


def apply_step(m, st, key=None):
    import pharmpy.modeling as pm
    from pharmpy.model import Model, Statements

    if "f" in st:
        return getattr(pm, st["f"])(m, **st["kw"])
    op = st["op"]
    if op == "@reread":
        return M.build_base(key)
    if op == "@path":
        return m.replace(datainfo=m.datainfo.replace(path=Path("/nonexistent/elsewhere/data.csv")))
    if op == "@cs":
        cs = m.statements.ode_system
        new = _permuted_system(cs, st["i"])
        sts = Statements(tuple(m.statements.before_odes) + (new,) + tuple(m.statements.after_odes))
        return m.replace(statements=sts)
    if op == "@doses":
        from pharmpy.model import Bolus, CompartmentalSystem, CompartmentalSystemBuilder, Infusion

        kinds = {"B": Bolus.create("AMT", admid=1), "I": Infusion.create("AMT", admid=2, duration="D1"),
                 "R": Infusion.create("AMT", admid=3, rate="R1")}
        doses = tuple(kinds[c] for c in st["order"])
        cs = m.statements.ode_system
        cb = CompartmentalSystemBuilder(cs)
        comp = cs.dosing_compartments[0]
        for d in comp.doses:
            comp = cb.remove_dose(comp, d.admid) or cb.find_compartment(comp.name)
        comp = cb.find_compartment(comp.name)
        cb.add_dose(comp, doses)
        new = CompartmentalSystem(cb, t=cs.t)
        sts = Statements(tuple(m.statements.before_odes) + (new,) + tuple(m.statements.after_odes))
        return m.replace(statements=sts)
    if op == "@dict":
        return Model.from_dict(m.to_dict()).replace(dataset=m.dataset)
    if op == "@code":
        from pharmpy.model.external.generic import parse_model

        g = pm.convert_model(m, "generic")
        return parse_model(g.code).replace(dataset=m.dataset)
    if op == "@pickle":
        return pickle.loads(pickle.dumps(m))
    df = m.dataset.copy()
    dv = m.datainfo.dv_column.name
    if op == "@cell":
        j = list(df.columns).index(dv)
        df.iloc[5, j] = float(df.iloc[5, j]) + 1.0
    elif op == "@dtype":
        df[dv] = df[dv].astype("float32")
    elif op == "@rowdrop":
        df = df.iloc[:-1]
    elif op == "@index":
        df.index = df.index + 1
    else:
        raise KeyError(op)
    return m.replace(dataset=df)


_BASE_CACHE: dict = {}


def build_recipe(rec):
    # one base object per worker process (models are immutable values; the mutating functions of C06 are not used
    # here); the recipe "reread" supplies an independently read object
    if rec["base"] not in _BASE_CACHE:
        _BASE_CACHE[rec["base"]] = M.build_base(rec["base"])
    m = _BASE_CACHE[rec["base"]]
    for st in rec["steps"]:
        m = apply_step(m, st, rec["base"])
    return m


# ----------------------------------------------------------------------------- round trips (in the forked workers)


def _norm(x):
    """tuples -> lists (both are JSON arrays); everything else unchanged."""
    if isinstance(x, (list, tuple)):
        return [_norm(y) for y in x]
    if isinstance(x, dict):
        return {k: _norm(v) for k, v in x.items()}
    return x


def all_diffs(a, b, path="", classes=(), out=None, limit=12):
    """[(path, classes of the enclosing dictionaries, short description)] of the differences of two dictionary forms."""
    if out is None:
        out = []
    if len(out) >= limit:
        return out
    if isinstance(a, dict) and isinstance(b, dict):
        c = classes + (a["class"],) if isinstance(a.get("class", None), str) else classes
        for k in list(a) + [k for k in b if k not in a]:
            if k not in a or k not in b:
                out.append((f"{path}/{k}", c, "missing key"))
            elif k == "expression" and a.get("class") == "Assignment" and isinstance(a[k], str) and a[k] != b[k]:
                out.append((f"{path}/{k}", c, "value funcs=" + ",".join(srepr_functions(a[k]))))
            else:
                all_diffs(a[k], b[k], f"{path}/{k}", c, out, limit)
        return out
    if isinstance(a, (list, tuple)) and isinstance(b, (list, tuple)):
        if type(a) is not type(b):
            out.append((path, classes, f"{type(a).__name__} vs {type(b).__name__}"))
            if list(a) == list(b):
                return out
        if len(a) != len(b):
            out.append((path, classes, f"length {len(a)} vs {len(b)}"))
            return out
        for x, y in zip(a, b):
            all_diffs(x, y, f"{path}/#", classes, out, limit)
        return out
    if isinstance(a, (int, float)) and isinstance(b, (int, float)) and not isinstance(a, bool) and not isinstance(b, bool):
        if not (a == b or (a != a and b != b)):
            out.append((path, classes, f"{a!r} vs {b!r}"))
        return out
    if type(a) is not type(b) or a != b:
        out.append((path, classes, f"{type(a).__name__} {str(a)[:30]!r} vs {type(b).__name__} {str(b)[:30]!r}"))
    return out


_SREPR_PLAIN = {"Symbol", "Integer", "Float", "Rational", "Add", "Mul", "Pow", "Tuple", "Function"}


def srepr_functions(text: str) -> list:
    """Names of the functions / node types (other than plain arithmetic) in a serialised expression."""
    import re

    return sorted(set(re.findall(r"([A-Za-z_][A-Za-z_0-9]*)\(", text)) - _SREPR_PLAIN)


def diff_records(a, b):
    """The differences as small JSON records, one per distinct (field, enclosing class, kind)."""
    try:
        ds = all_diffs(a, b)
    except Exception as e:
        return [{"field": "?", "in": None, "detail": type(e).__name__}]
    seen, out = set(), []
    for path, classes, detail in ds:
        field = next((x for x in reversed(path.split("/")) if x and x != "#"), "")
        funcs = None
        if detail.startswith("value funcs="):
            funcs = [f for f in detail[len("value funcs="):].split(",") if f]
            detail = "x vs y"
        kind = detail if " vs " in detail and detail.split(" vs ")[0] in ("tuple", "list") else ("value" if " vs " in detail else detail)
        rec = {"field": field, "in": classes[-1] if classes else None, "in_ode": "CompartmentalSystem" in classes, "detail": kind}
        if funcs is not None:
            rec["funcs"] = funcs
        k = json.dumps(rec, sort_keys=True)
        if k not in seen:
            seen.add(k)
            rec["path"] = path
            out.append(rec)
    return out


def attr_diffs(x, back):
    """When the dictionary forms agree but the objects do not: which attributes (for a model / collection: which
    members) are unequal, drilled down to the innermost object that has differing attributes."""
    out = []
    try:
        from pharmpy.model import Model

        if isinstance(x, Model):
            for n in ("parameters", "random_variables", "statements", "execution_steps", "datainfo", "dependent_variables",
                      "observation_transformation", "value_type"):
                a, b = getattr(x, n), getattr(back, n)
                if not (a == b):
                    sub = attr_diffs(a, b) if hasattr(a, "__dict__") else []
                    out += sub or [{"field": n, "in": "Model", "in_ode": False, "detail": "attribute"}]
            return out
        if hasattr(x, "__len__") and hasattr(x, "__iter__") and not isinstance(x, (str, dict)) and len(x) == len(back):
            for a, b in zip(x, back):
                if hasattr(a, "__dict__") and not (a == b):
                    out += attr_diffs(a, b)
            if out:
                return out
        for k, v in vars(x).items():
            if k == "_hash":
                continue
            w = vars(back).get(k)
            try:
                same = (v == w) is True or bool(v == w)
            except Exception:
                same = False
            if not same:
                out.append({"field": k.lstrip("_"), "in": type(x).__name__, "in_ode": False, "detail": "attribute"})
    except Exception as e:
        out.append({"field": "?", "in": type(x).__name__, "in_ode": False, "detail": type(e).__name__})
    seen, res = set(), []
    for r in out:
        k = json.dumps(r, sort_keys=True)
        if k not in seen:
            seen.add(k)
            res.append(r)
    return res


def both_diffs(da, db, x, back):
    """Differences of the dictionary forms plus the unequal attributes they do not account for."""
    ds = diff_records(da, db)
    fields = {d["field"] for d in ds}
    return ds + [a for a in attr_diffs(x, back) if a["field"] not in fields]


class _Skip(Exception):
    pass


_RT_DONE: dict = {}


def _trip(x, what: str, events: list, model_level=False, skip_plain_dict=False):
    if id(x) in _RT_DONE:
        return
    _RT_DONE[id(x)] = x
    T = type(x)
    from pharmpy.model import Model

    if isinstance(x, Model):
        T = Model  # the dictionary form is that of the generic model class

    def ev(via, cout, **info):
        e = {"ev": "rt", "via": via, "cin": 1, "cout": cout, "what": what}
        e["info"] = info
        events.append(e)

    def same(back):
        try:
            r = back == x
            return 1 if r is True or (r is not NotImplemented and bool(r)) else 2, None
        except Exception as e:
            return 0, f"== raised {type(e).__name__}: {str(e)[:80]}"

    try:
        d = x.to_dict()
    except Exception as e:
        ev("dict", 0, stage="to_dict", exception=type(e).__name__, message=str(e)[:100])
        return
    # to_dict -> from_dict (quick tier: for whole models / statement lists the trip through JSON text below subsumes it,
    # and every component is tripped on its own)
    try:
        if skip_plain_dict:
            raise _Skip()
        back = T.from_dict(d)
        c, err = same(back)
        info = {}
        if c != 1:
            info = {"stage": "compare", "exception": err, "diffs": both_diffs(_norm(d), _norm(back.to_dict()), x, back) if c == 2 else []}
        ev("dict", c, **info)
    except _Skip:
        pass
    except Exception as e:
        ev("dict", 0, stage="from_dict", exception=type(e).__name__, message=str(e)[:100])
    # through JSON text
    try:
        txt = json.dumps(d)
    except Exception as e:
        ev("json", 0, stage="dumps", exception=type(e).__name__, message=str(e)[:100])
        return
    loaded = json.loads(txt)
    nd = _norm(d)
    if loaded != nd:
        ev("json", 2, stage="plain", diffs=diff_records(nd, loaded))
    else:
        try:
            back = T.from_dict(loaded)
            c, err = same(back)
            info = {}
            if c != 1:
                info = {"stage": "compare", "exception": err, "diffs": both_diffs(d, back.to_dict(), x, back) if c == 2 else []}
            ev("json", c, **info)
        except Exception as e:
            ev("json", 0, stage="from_dict", exception=type(e).__name__, message=str(e)[:100])


def round_trips(m) -> list:
    """RoundTrip events for the model and every component reachable from it."""
    import pharmpy.modeling as pm
    from pharmpy.basic import Expr
    from pharmpy.model.external.generic import parse_model

    events: list = []
    _trip(m, "Model", events, skip_plain_dict=_TIER == "quick")
    _trip(m.parameters, "Parameters", events)
    for p in list(m.parameters)[:3]:
        _trip(p, "Parameter", events)
    _trip(m.random_variables, "RandomVariables", events)
    for d in m.random_variables:
        _trip(d, type(d).__name__, events)
    _trip(m.statements, "Statements", events, skip_plain_dict=_TIER == "quick")
    for s in m.statements:
        tn = type(s).__name__
        _trip(s, tn, events)
        if tn == "CompartmentalSystem":
            for c in s._g.nodes:
                if type(c).__name__ == "Compartment":
                    _trip(c, "Compartment", events)
                    for dose in c.doses:
                        _trip(dose, type(dose).__name__, events)
        elif id(s.expression) not in _RT_DONE:
            _RT_DONE[id(s.expression)] = s.expression
            try:
                back = Expr.deserialize(s.expression.serialize())
                c = 1 if back == s.expression else 2
                events.append({"ev": "rt", "via": "dict", "cin": 1, "cout": c, "what": "Expr", "info": {} if c == 1 else {
                    "stage": "compare", "detail": str(s.expression)[:60],
                    "diffs": [{"field": "expression", "in": "Expr", "in_ode": False, "detail": "value", "funcs": srepr_functions(s.expression.serialize())}]}})
            except Exception as e:
                try:
                    fs = srepr_functions(s.expression.serialize())
                except Exception:
                    fs = []
                events.append({"ev": "rt", "via": "dict", "cin": 1, "cout": 0, "what": "Expr", "info": {
                    "stage": "serialize", "exception": type(e).__name__, "message": str(e)[:80],
                    "diffs": [{"field": "expression", "in": "Expr", "in_ode": False, "detail": "raised", "funcs": fs}]}})
    _trip(m.datainfo, "DataInfo", events)
    for c in m.datainfo:
        _trip(c, "ColumnInfo", events)
    _trip(m.execution_steps, "ExecutionSteps", events)
    for s in m.execution_steps:
        _trip(s, type(s).__name__, events)
    # generic model code
    try:
        g = pm.convert_model(m, "generic")
        code = g.code
        back = parse_model(code)
        try:
            c = 1 if back == m else 2
            info = {}
            if c == 2:
                which = [n for n in ("parameters", "random_variables", "statements", "dependent_variables", "observation_transformation",
                                     "execution_steps", "datainfo", "value_type") if getattr(back, n) != getattr(m, n)]
                info = {"stage": "compare", "components": which, "diffs": both_diffs(g.to_dict(), back.to_dict(), m, back)}
        except Exception as e:
            c, info = 0, {"stage": "compare", "exception": type(e).__name__, "message": str(e)[:100]}
        events.append({"ev": "rt", "via": "code", "cin": 1, "cout": c, "what": "Model", "info": info})
    except Exception as e:
        events.append({"ev": "rt", "via": "code", "cin": 1, "cout": 0, "what": "Model",
                       "info": {"stage": "code", "exception": type(e).__name__, "message": str(e)[:100]}})
    return events


def results_trips(notes: list) -> list:
    """Results JSON: ModelfitResults read from the corpus (where they can be read) and one built through the constructor."""
    import numpy as np
    import pandas as pd

    from pharmpy.tools import read_modelfit_results
    from pharmpy.workflows.results import ModelfitResults, read_results

    objs = []
    for key, rel in M.CORPUS.items():
        try:
            objs.append((key, read_modelfit_results(core.REPO / rel)))
        except Exception as e:  # reading NONMEM output is C20's subject, not a serialisation round trip
            notes.append(f"results of {key} could not be read ({type(e).__name__}: {str(e)[:60]}): no Results JSON trip for it")
    pe = pd.Series({"TVCL": 1.5, "IIV_CL": 0.1}, name="estimates")
    objs.append(("constructed", ModelfitResults(ofv=-12.5, parameter_estimates=pe, covariance_matrix=pd.DataFrame(np.eye(2) * 0.01, index=pe.index, columns=pe.index),
                                                minimization_successful=True, warnings=[])))
    events = []
    for key, res in objs:
        try:
            j = res.to_json()
            back = read_results(j)
            j2 = back.to_json()
            ok = j2 == j and (back.ofv == res.ofv) and back.parameter_estimates.equals(res.parameter_estimates)
            info = {}
            if not ok:
                info = {"stage": "compare", "diffs": diff_records(json.loads(j), json.loads(j2))}
            events.append({"ev": "rt", "via": "results", "cin": 1, "cout": 1 if ok else 2, "what": "ModelfitResults", "info": info, "hist": key})
        except Exception as e:
            events.append({"ev": "rt", "via": "results", "cin": 1, "cout": 0, "what": "ModelfitResults", "hist": key,
                           "info": {"stage": "json", "exception": type(e).__name__, "message": str(e)[:100]}})
    return events


def build_task(rec):
    t0 = time.process_time()
    try:
        m = build_recipe(rec)
    except Exception as e:
        return {"hist": rec["hist"], "err": f"{type(e).__name__}: {str(e)[:120]}"}
    trip = any(st.get("op") in TRIP_OPS for st in rec["steps"])
    trip_ok = None
    rt = []
    try:
        if trip:
            # the object that came back is only a model of the same content if it equals the one that went in
            orig = build_recipe(dict(rec, steps=rec["steps"][:-1]))
            try:
                trip_ok = (m == orig) is True
            except Exception:
                trip_ok = False
        else:
            rt = round_trips(m)
    except Exception as e:
        raise core.MachineryError(f"round trips of {rec['hist']}: {type(e).__name__}: {e}")
    for o in (m, m.parameters, m.statements):
        try:
            hash(o)  # as after any comparison / use as dictionary key: the cached hashes travel with the pickle
        except Exception:
            pass
    from pharmpy.workflows.hashing import ModelHash

    try:
        k = str(ModelHash(m))
    except Exception as e:
        k = "raised:" + type(e).__name__
    try:
        pk = pickle.dumps(m)
    except Exception as e:  # the model cannot travel to another process at all
        fs = sorted({f for st in m.statements if hasattr(st, "expression") for f in srepr_functions(st.expression.serialize())})
        rt.append({"ev": "rt", "via": "pickle", "cin": 1, "cout": 0, "what": "Model", "info": {
            "stage": "dumps", "exception": type(e).__name__, "message": str(e)[:100],
            "diffs": [{"field": "expression", "in": "Model", "in_ode": False, "detail": "raised", "funcs": fs}]}})
        return {"hist": rec["hist"], "rt": rt, "key": k, "unpicklable": True, "cpu": round(time.process_time() - t0, 2)}
    return {"hist": rec["hist"], "pickle": pk, "rt": rt, "key": k, "trip_ok": trip_ok, "cpu": round(time.process_time() - t0, 2)}


def purge_hash_caches(m):
    """Forget the hashes cached in another process (what a __getstate__ without _hash would do): the cached value of a
    str-based hash is only meaningful under the PYTHONHASHSEED of the process that computed it (finding C12-F5)."""
    from pharmpy.internals.immutable import frozenmapping

    objs = [m, m.parameters, *m.parameters, m.random_variables, m.statements, *m.statements, m.datainfo, m.execution_steps]
    for o in objs:
        d = getattr(o, "__dict__", None)
        if d is None:
            continue
        d.pop("_hash", None)
        for v in d.values():
            if isinstance(v, frozenmapping):
                v._hash = None
    return m


def pickle_trip_events(pickles, hists):
    """In a hashing interpreter: a model pickled by the parent (whose hashes were computed there) against the same pickle
    with the cached hashes forgotten.  RoundTrip(via = "pickle")."""
    events = []
    for b, h in zip(pickles, hists):
        try:
            m = pickle.loads(b)
            clean = purge_hash_caches(pickle.loads(b))
            bad = [n for n in ("parameters", "random_variables", "statements", "datainfo", "execution_steps") if not (getattr(m, n) == getattr(clean, n))]
            ok = (m == clean) is True and not bad
            try:
                hm, hc = hash(m.parameters), hash(clean.parameters)
            except Exception:
                hm = hc = None
            ok = ok and hm == hc
            events.append({"ev": "rt", "via": "pickle", "cin": 1, "cout": 1 if ok else 2, "what": "Model", "hist": h,
                           "info": {} if ok else {"stage": "compare", "components": bad, "hash_equal": hm == hc}})
        except Exception as e:
            events.append({"ev": "rt", "via": "pickle", "cin": 1, "cout": 0, "what": "Model", "hist": h,
                           "info": {"stage": "pickle", "exception": type(e).__name__, "message": str(e)[:100]}})
    return events


# ----------------------------------------------------------------------------- content classes (pharmpy's own ==)


class Classes:
    def __init__(self, eq=None):
        self.reps: dict = {}  # bucket -> [(representative, id)]
        self.n = 0
        self.eq = eq or (lambda a, b: a == b)
        self.errors = 0

    def of(self, obj, bucket):
        lst = self.reps.setdefault(bucket, [])
        for rep, i in lst:
            try:
                if rep is obj or self.eq(rep, obj) is True:
                    return i
            except Exception:
                self.errors += 1
        self.n += 1
        lst.append((obj, self.n))
        return self.n


def _stmts_bucket(sts):
    """Order-insensitive projection of the statements, used only to narrow down the candidates that pharmpy's == then
    decides on (the compartmental system compares by graph content, so nodes and edges are sorted here)."""
    out = []
    for st in sts:
        p = M._stmt_proj(st)
        if p and p[0] == "ODE":
            p = ("ODE", p[1], sorted(map(repr, p[2])), sorted(map(repr, p[3])))
        out.append(repr(p))
    return (len(out), M._sha(out))


def classify(models):
    """sigma per model: m by Model == and equal dataset; p, r, s, e by component ==; d by dataset digest.  The buckets
    only pre-select candidates; membership in a class is always decided by pharmpy's own ==."""
    cp, cr, cs, ce, cm = Classes(), Classes(), Classes(), Classes(), Classes()
    dd: dict = {}
    sig = []
    for m in models:
        d = M.digest_df(m.dataset)
        dd.setdefault(d, len(dd) + 1)
        p = cp.of(m.parameters, M._sha(M._params_proj(m.parameters)))
        r = cr.of(m.random_variables, M._sha(M._rvs_proj(m.random_variables)[0]))
        s = cs.of(m.statements, _stmts_bucket(m.statements))
        e = ce.of(m.execution_steps, M._sha(repr(_norm(m.execution_steps.to_dict()))))
        mm = cm.of(m, (p, r, s, e, dd[d]))
        sig.append({"m": mm, "p": p, "r": r, "s": s, "e": e, "d": dd[d]})
    return sig, sum(c.errors for c in (cp, cr, cs, ce, cm))


def label_of(m, labels: dict):
    lab = (m.name, m.description, str(m.datainfo.path))
    return labels.setdefault(lab, f"L{len(labels) + 1}")


# ----------------------------------------------------------------------------- TLC


def _explore(tier: str, box: dict):
    try:
        d = core.scratch("c12cfg")
        txt = (SPEC / "Keys.cfg").read_text()
        if tier == "quick":
            txt = txt.replace('Vias = {"dict", "json", "code", "results"}', 'Vias = {"dict", "code"}')
        if tier == "thorough":
            txt = txt.replace("MaxObs = 2", "MaxObs = 2").replace("Hists = {h1, h2}", "Hists = {h1, h2, h3}").replace("Labels = {n1, n2}", "Labels = {n1, n2, n3}")
        cfg = d / "Keys.cfg"
        cfg.write_text(txt)
        r = core.run_tlc(SPEC / "Keys.tla", cfg, workers=4, timeout=2400, heap="3g")
        core.require_ok(r, "Keys.cfg")
        if r.violated:
            raise core.MachineryError(f"Keys.cfg: design-level {r.violated} violated\n" + "\n".join(r.trace[-2:]))
        core.require_actions(r, [("DoKey", "Key"), ("DoRoundTrip", "RoundTrip")], "Keys.cfg")
        expect = {"order": {"Functional"}, "seed": {"Functional"}, "conf": {"Functional"}, "name": {"Functional", "Independent"}, "drop": {"Injective"}, "trip": {"TripsEqual"}}
        controls = {}
        for fault, invs in expect.items():
            cb = d / f"bad_{fault}.cfg"
            cb.write_text((SPEC / "Keys.cfg").read_text().replace('Fault = "none"', f'Fault = "{fault}"'))
            rb = core.run_tlc(SPEC / "Keys.tla", cb, workers=2, timeout=600, coverage=False, heap="1g")
            if rb.error or rb.violated not in invs:
                raise core.MachineryError(f"negative control {fault}: expected a violation of {sorted(invs)}, got {rb.violated} {rb.error}")
            controls[fault] = rb.violated
        shutil.rmtree(d, ignore_errors=True)
        box["ok"] = dict(states=r.distinct, transitions=r.generated, depth=r.depth, wall=round(r.wall, 1), controls=controls)
    except BaseException as e:
        box["err"] = e


N_REPLICATES = {"quick": 60, "thorough": 300}


def replicate_dataset(df, dv: str, i: int):
    """Replicate i of a resampling-like sequence: same shape, one DV value unique for the replicate."""
    new = df.copy()
    new.iloc[1 + i % 5, list(new.columns).index(dv)] = 1000.0 + i
    return new


def replicate_keys(base, n: int, keep_alive: bool):
    """What a resampling tool does: create a dataset, attach it, take the key, drop the candidate, next.  With
    keep_alive the candidates are kept (no object is ever re-created at the address of a dropped one)."""
    import gc

    from pharmpy.workflows.hashing import DatasetHash, ModelHash

    dv = base.datainfo.dv_column.name
    out, alive = [], []
    order = range(n) if not keep_alive else reversed(range(n))
    for i in order:
        df = replicate_dataset(base.dataset, dv, i)
        m = base.replace(dataset=df)
        try:
            k, dk = str(ModelHash(m)), str(DatasetHash(df))
        except Exception as e:
            k = dk = "raised:" + type(e).__name__
        out.append((i, k, dk, M.digest_df(df)))
        if keep_alive:
            alive.append((df, m))
        else:
            del df, m
            gc.collect()
    return out


def _children(pickles, hists, rebuild, d: Path):
    """One fresh interpreter per hash seed; returns {proc: result dict}."""
    inp = d / "in.pickle"
    common = {"models": pickles, "hists": hists, "recipes": rebuild, "replicates": N_REPLICATES[_TIER],
              "replicate_base": hists.index(BASES[_TIER][0] + ":")}
    inp.write_bytes(pickle.dumps(common))
    inp0 = d / "in0.pickle"  # same hash seed as the parent: the pickle trip would show nothing
    inp0.write_bytes(pickle.dumps(dict(common, no_pickle_trips=True)))
    # a fourth interpreter with another site configuration (pharmpy.conf): same pickles, keys only
    cdir = d / "conf"
    cdir.mkdir()
    (cdir / "pharmpy.conf").write_text("[pharmpy]\nmissing_data_token=-999\n")
    inp2 = d / "in_conf.pickle"
    inp2.write_bytes(pickle.dumps({"models": pickles, "hists": hists, "recipes": [], "replicates": 0, "no_pickle_trips": True}))
    procs = {}
    for seed in ("0", "1", "random", "conf"):
        env = dict(os.environ)
        env.pop("PHARMPYCONFIGPATH", None)
        env["PYTHONHASHSEED"] = "0" if seed == "conf" else seed
        env["PYTHONPATH"] = str(core.VERIF)
        if seed == "conf":
            env["PHARMPYCONFIGPATH"] = str(cdir)
            env.pop("PHARMPYNOCONFIGFILE", None)
        out = d / f"out_{seed}.pickle"
        p = subprocess.Popen([sys.executable, "-m", "harness.c12_child", str(inp2 if seed == "conf" else inp0 if seed == "0" else inp), str(out)], env=env, cwd=str(core.VERIF),
                             stdout=subprocess.PIPE, stderr=subprocess.PIPE, text=True)
        procs[seed] = (p, out)
    res = {}
    for seed, (p, out) in procs.items():
        try:
            so, se = p.communicate(timeout=3000)
        except subprocess.TimeoutExpired:
            p.kill()
            raise core.MachineryError(f"hash process (seed {seed}) timed out")
        if p.returncode != 0 or not out.exists():
            raise core.MachineryError(f"hash process (seed {seed}) failed: {se[-500:]}")
        res[seed] = pickle.loads(out.read_bytes())
    if res["conf"].get("conf_token") != "-999" or res["0"].get("conf_token") == "-999":
        raise core.MachineryError(f"the alternative configuration was not picked up: {[(k, r.get('conf_token')) for k, r in res.items()]}")
    return res


def _validate(events, v: core.Verdict):
    d = core.scratch("c12tr")
    f = d / "traces.json"
    tl = [{k: e[k] for k in e if k != "info"} for e in events]
    f.write_text(json.dumps([{"events": tl}]))
    res = core.run_tlc(SPEC / "KeysTrace.tla", SPEC / "KeysTrace.cfg", workers=1, timeout=3000, env={"TRACES": str(f)}, coverage=False, heap="3g")
    shutil.rmtree(d, ignore_errors=True)
    core.require_ok(res, "KeysTrace.tla")
    if res.violated:
        raise core.MachineryError(f"KeysTrace: unexpected {res.violated}")
    v.add_coverage(states=res.distinct, transitions=res.generated)
    rej = [x for tag, x in res.prints if tag == "REJ"]
    acc = [x for tag, x in res.prints if tag == "ACC"]
    if not rej and not acc:
        raise core.MachineryError("KeysTrace: run neither accepted nor rejected")
    return rej


# ----------------------------------------------------------------------------- main


def main(tier: str, seed: int) -> int:
    global _TIER
    _TIER = tier
    v = core.Verdict("C12", tier, seed)
    v.assumptions = [
        "content classes are assigned with pharmpy's own == on models and components plus equality of the dataset (values, dtypes, columns, index): "
        "the check never demands more than 'equal models, equal key' and 'different listed component, different key'",
        "models travel to the hashing interpreters as pickles (what pharmpy's own dispatcher does); in addition each interpreter rebuilds a sample of the histories itself; "
        "hashes cached in another process are forgotten before == is used for classification (their effect is judged separately as a pickle round trip)",
        "json.loads(json.dumps(to_dict(x))) == to_dict(x) is read modulo tuple/list (both are JSON arrays); a model that came back from a trip through to_dict / generic code "
        "takes part in the key events only if it equals the model that went in",
    ]
    core.use_repo()
    import pharmpy.modeling as pm  # noqa: F401
    from pharmpy.workflows.hashing import ModelHash  # noqa: F401

    box: dict = {}
    th = threading.Thread(target=_explore, args=(tier, box))
    th.start()
    t0 = time.time()
    syn = M.write_synthetic(core.scratch(f"c12syn{os.getpid()}"))
    infos = {k: M.Info(M.build_base(k)) for k in BASES[tier]}
    recipes = make_recipes(tier, seed, infos)
    built = core.pmap(build_task, recipes, procs=14, chunk=2)
    failed = [b for b in built if "err" in b]
    unpicklable = [b["hist"] for b in built if b.get("unpicklable")]
    ok = [(r, b) for r, b in zip(recipes, built) if "pickle" in b]
    if len(ok) < 50:
        raise core.MachineryError(f"only {len(ok)} histories could be built: {failed[:3]}")
    rng = random.Random(seed)
    sample = [r for r, b in ok if r["steps"] and all("f" in s or s.get("op") in ("@cs", "@path") for s in r["steps"])]
    rng.shuffle(sample)
    rebuild = sample[: {"quick": 16, "thorough": 150}[tier]]
    t_built = time.time() - t0
    d = core.scratch("c12kids")
    kids = _children([b["pickle"] for r, b in ok], [r["hist"] for r, b in ok], rebuild, d)
    shutil.rmtree(d, ignore_errors=True)
    shutil.rmtree(syn, ignore_errors=True)
    t_kids = time.time() - t0 - t_built
    probes = {s: k["probe"] for s, k in kids.items()}
    if len(set(probes.values())) < 2:
        raise core.MachineryError(f"hash seeds had no effect: {probes}")

    # the objects and their classes
    models = [pickle.loads(b["pickle"]) for r, b in ok]
    hists = [r["hist"] for r, b in ok]
    judged = [b["trip_ok"] is not False for r, b in ok]  # trips that did not give back an equal model are judged as round trips only
    rebuilt_models, rebuilt_meta = [], []
    for sd, k in kids.items():
        for rec, (pb, key) in zip(rebuild, k["rebuilt"]):
            if pb is None:
                v.notes.append(f"history {rec['hist']} could not be rebuilt under seed {sd}: {key}")
                continue
            rebuilt_models.append(purge_hash_caches(pickle.loads(pb)))
            rebuilt_meta.append((rec["hist"] + "@built-in-child", f"child-{sd}", sd, key))
    sig, eq_errors = classify(models + rebuilt_models)
    labels: dict = {}
    events = []
    owner = {}  # (hist, label) -> model, for the explanation of a rejected event
    for i, (m, h) in enumerate(zip(models, hists)):
        if not judged[i]:
            continue
        lab = label_of(m, labels)
        owner[(h, lab)] = (m, sig[i])
        base = dict(sig[i], hist=h, label=lab)
        events.append(dict(base, ev="key", proc="parent", seed="0", conf="default", k=ok[i][1]["key"]))
        for sd, k in kids.items():
            events.append(dict(base, ev="key", proc=f"child-{sd}", seed=sd, conf="alt" if sd == "conf" else "default", k=k["keys"][i]))
    for j, (m, (h, proc, sd, key)) in enumerate(zip(rebuilt_models, rebuilt_meta)):
        lab = label_of(m, labels)
        owner[(h, lab)] = (m, sig[len(models) + j])
        events.append(dict(sig[len(models) + j], ev="key", hist=h, label=lab, proc=proc, seed=sd, conf="default", k=key))
    # one model, many datasets, in sequence (what a resampling tool does): in this process with the candidates dropped,
    # in the fresh interpreters with the candidates kept alive
    base0 = models[hists.index(BASES[tier][0] + ":")]
    sig0 = sig[hists.index(BASES[tier][0] + ":")]
    lab0 = label_of(base0, labels)
    seqs = [("parent-seq", "0", replicate_keys(base0, N_REPLICATES[tier], keep_alive=False))]
    seqs += [(f"child-{sd}", sd, k["replicates"]) for sd, k in kids.items()]
    ddig: dict = {}
    nseq = 0
    for proc, sd, reps in seqs:
        for i, k, dk, dg in reps:
            cls = ddig.setdefault(dg, 100000 + len(ddig))
            events.append(dict(sig0, m=cls, d=cls, ev="key", hist=f"{BASES[tier][0]}:@replicate{i}", label=lab0, proc=proc, seed=sd, conf="default", k=k))
            events.append(dict(sig0, m=cls + 500000, p=0, r=0, s=0, e=0, d=cls, ev="key", hist=f"{BASES[tier][0]}:@replicate{i}/DatasetHash",
                               label=lab0, proc=proc, seed=sd, conf="default", k="ds:" + dk))
            nseq += 2
    if len(ddig) != N_REPLICATES[tier]:
        raise core.MachineryError(f"replicate datasets: {len(ddig)} distinct digests for {N_REPLICATES[tier]} replicates")
    rng.shuffle(events)
    nkey = len(events)
    rts = []
    for r, b in zip(recipes, built):
        for e in b.get("rt", []):
            e["hist"] = r["hist"]
            rts.append(e)
    for sd, k in kids.items():
        for e in k["pickle_trips"]:
            e["proc"] = f"child-{sd}"
            e["seed"] = sd
            rts.append(e)
    rts += results_trips(v.notes)
    events += rts
    t_build = time.time() - t0

    rej = _validate(events, v)
    for x in rej:
        e = events[x["l"] - 1]
        if e["ev"] == "key":
            o = x["other"]
            differs = sorted(k for k in ("hist", "label", "proc", "seed", "conf") if str(e[k]) != str(o.get(k)))
            case = {"kind": "key", "outcome": x["why"], "hist": e["hist"], "other_hist": o["hist"], "differs": differs,
                    "proc": e["proc"], "seed": e["seed"]}
            me, other = owner.get((e["hist"], e["label"])), owner.get((o["hist"], o["label"]))
            diffs = []
            if me and other:
                try:
                    diffs = diff_records(_norm(me[0].to_dict()), _norm(other[0].to_dict()))
                except Exception as ex:
                    diffs = [{"field": "?", "in": None, "in_ode": False, "detail": type(ex).__name__}]
                if x["why"] == "different_content_same_key":
                    case["listed_diff"] = [c for c in "prsed" if me[1][c] != other[1][c]]
                    comp = {"p": "parameters", "r": "random_variables", "s": "statements", "e": "execution_steps"}
                    try:
                        really = [c for c in case["listed_diff"] if c == "d" or not (getattr(me[0], comp[c]) == getattr(other[0], comp[c]))]
                    except Exception:
                        really = case["listed_diff"]
                    if not really:  # the pre-selection split one ==-class: not an observation about pharmpy
                        v.notes.append(f"classification artefact ignored: {e['hist']} vs {o['hist']} are == in all listed components")
                        continue
            what = (f"{x['why']}: history {e['hist']} ({e['proc']}, seed {e['seed']}) vs {o['hist']} ({o['proc']}, seed {o['seed']}); "
                    f"observations differ in {differs}")
            # one case per distinct difference of the dictionary forms (so that an additional cause is not hidden)
            for dr in diffs or [{"field": None, "in": None, "in_ode": False, "detail": None}]:
                c2 = dict(case, diff_field=dr["field"], diff_in=dr["in"], diff_in_ode=dr["in_ode"], diff_detail=dr["detail"])
                v.violation(c2, what + f"; dictionary forms differ at {dr.get('path')} ({dr['detail']})")
        else:
            info = e.get("info", {})
            case = {"kind": "rt", "outcome": {0: "roundtrip_failed", 2: "roundtrip_unequal"}.get(e["cout"], "roundtrip"), "via": e["via"], "what": e["what"],
                    "stage": info.get("stage"), "exception": info.get("exception"), "hist": e.get("hist")}
            if e["via"] == "pickle":
                case["seed"] = e.get("seed")
                case["components"] = info.get("components")
            what = (f"round trip of {e['what']} via {e['via']} ({e.get('hist')}): {case['outcome']} at {info.get('stage')} "
                    f"{info.get('exception') or ''} {info.get('message') or ''} {info.get('components') or ''}")
            for dr in info.get("diffs") or [{"field": None, "in": None, "in_ode": False, "detail": None}]:
                c2 = dict(case, diff_field=dr["field"], diff_in=dr["in"], diff_detail=dr["detail"])
                if dr.get("funcs") is not None:
                    c2["diff_funcs"] = dr["funcs"]
                v.violation(c2, what + (f"; differs at {dr.get('path')} ({dr['detail']} {dr.get('funcs') or ''})" if dr["field"] else ""))

    th.join()
    if "err" in box:
        e = box["err"]
        raise e if isinstance(e, core.MachineryError) else core.MachineryError(f"exploration thread: {type(e).__name__}: {e}")
    ex = box["ok"]
    v.add_coverage(states=ex["states"], transitions=ex["transitions"])

    # non-vacuity of the antecedents, measured on the run
    by_m: dict = {}
    for e in events[:nkey]:
        by_m.setdefault(e["m"], []).append(e)
    multi_hist = sum(1 for es in by_m.values() if len({e["hist"].split("@built")[0] for e in es}) > 1)
    multi_label = sum(1 for es in by_m.values() if len({e["label"] for e in es}) > 1)
    multi_seed = sum(1 for es in by_m.values() if len({e["seed"] for e in es}) > 2)
    sigs = {(e["m"], e["p"], e["r"], e["s"], e["e"], e["d"]) for e in events[:nkey]}
    only = {c: 0 for c in "prsed"}
    some = {c: 0 for c in "prsed"}
    for a, b in itertools.combinations(sorted(sigs), 2):
        diff = [c for c, x, y in zip("prsed", a[1:], b[1:]) if x != y]
        for c in diff:
            some[c] += 1
        if len(diff) == 1:
            only[diff[0]] += 1
    if multi_hist < 5 or multi_label < 2 or multi_seed < 5 or min(some.values()) < 1 or min(only[c] for c in "psed") < 1:
        raise core.MachineryError(f"vacuous run: classes reached by several histories {multi_hist}, with several labels {multi_label}, "
                                  f"under several seeds {multi_seed}, component differences {some}, single-component differences {only}")
    v.add_coverage(
        evaluations=nkey,
        distinct_nontrivial=len(by_m),
        traces_validated_against_impl=len(events),
        key_events=nkey, replicate_sequence_events=nseq, roundtrip_events=len(rts),
        roundtrip_by_via={via: sum(1 for e in rts if e["via"] == via) for via in ("dict", "json", "code", "pickle", "results")},
        histories_built=len(ok), histories_failed=len(failed), histories_failed_samples=[f"{b['hist']}: {b['err']}" for b in failed[:5]],
        models_that_cannot_be_pickled=unpicklable[:10], trips_not_judged_as_keys=sum(1 for j in judged if not j),
        histories_rebuilt_in_children=len(rebuilt_models),
        content_classes=len(by_m), classes_reached_by_several_histories=multi_hist, classes_with_several_labels=multi_label,
        classes_hashed_under_three_seeds=multi_seed,
        class_pairs_differing_in_component=some, class_pairs_differing_in_one_component=only, eq_errors_while_classifying=eq_errors,
        hash_seed_probes=probes,
        processes=["parent (PYTHONHASHSEED=%s)" % os.environ.get("PYTHONHASHSEED")] + [f"child PYTHONHASHSEED={s}" for s in kids],
        tlc_exploration=ex,
        build_wall_s=round(t_build, 1), phase_wall_s={'build_histories': round(t_built, 1), 'hash_interpreters': round(t_kids, 1), 'classify_and_events': round(t_build - t_built - t_kids, 1)}, build_cpu_s=round(sum(b.get('cpu', 0) for r, b in ok), 1),
        rule="non-trivial = distinct content classes (pharmpy == and equal dataset) among the models built; every key computation and every round trip is one event of the validated trace",
        samples=[{k: e[k] for k in ("hist", "label", "proc", "seed", "m", "p", "r", "s", "e", "d", "k")} for e in events[:3]] + [{k: e[k] for k in ("via", "what", "cin", "cout", "hist")} for e in rts[:2]],
        exhaustive=False,
    )
    return v.finish(min_traces={"quick": 1000, "thorough": 5000}[tier])


def replay(path: str) -> int:
    core.use_repo()
    import pharmpy.modeling  # noqa: F401

    data = json.loads(open(path).read())
    case = data["case"]
    print(json.dumps(case, indent=1)[:1500])
    print(data.get("what"))
    return 0
