"""Probe helpers shared by the C09 (Effects) and C07 (Preserve) drivers.

Exact evaluation = harness/qeval.py (Evaluator over Q + formal logs).  This module only adds
  * run(model, env): sequential execution of model.statements with an explicit environment
    (so that two models are evaluated at literally the same point and amounts can be overridden),
  * JSON projection of values as [num, den] pairs for TLC ([0,0] = undefined at this probe,
    [1,0] = does not fit TLC's 32-bit integers) - both are "skip, never judge" on the TLC side,
  * a floating point re-evaluation with the real exp/log (artefact guard, can only suppress).
"""
from __future__ import annotations

import math
from fractions import Fraction

from . import qeval
from .qeval import ONE, ZERO, Evaluator, Q, Undef, name_value

LIMIT = 10**9
UNDEF = [0, 0]
OVF = [1, 0]


def fr(x) -> Q:
    """number -> Q (floats through their shortest repr: 1.3 -> 13/10, as qeval does for Float atoms)"""
    if isinstance(x, Q):
        return x
    if isinstance(x, (int, Fraction)):
        return Q(Fraction(x))
    return Q(Fraction(repr(float(x))))


def qj(v):
    """Q | None -> [n, d] for TLC"""
    if v is None or not isinstance(v, Q) or not v.is_rat:
        return list(UNDEF)
    r = v.rat
    if abs(r.numerator) > LIMIT or r.denominator > LIMIT:
        return list(OVF)
    return [int(r.numerator), int(r.denominator)]


def is_val(j):
    return j[1] > 0


def base_env(models, salt=0, etas="small", eps="zero", over=None) -> dict:
    """one probe point for several models (values by symbol name, so shared names agree)"""
    env = {}
    for mdl in models:
        for k, v in qeval.probe_env(mdl, salt, etas, eps).items():
            env.setdefault(k, v)
    if over:
        for k, v in over.items():
            env[k] = fr(v)
    return env


def run(model, env: dict, amounts: dict | None = None, salt=0):
    """Sequentially execute model.statements at the point `env` (not modified).

    Returns (vars, ode): vars[name] = Q | None (None = undefined at this probe), ode = qeval.ode_fingerprint
    or None.  `amounts` overrides the probe value of A_<COMP>(t) by compartment name."""
    from pharmpy.model import Assignment, CompartmentalSystem

    env = dict(env)
    E = Evaluator(env, lambda n: name_value(n, salt))
    out, ode = {}, None
    for s in model.statements:
        if isinstance(s, Assignment):
            name = str(qeval._sp(s.symbol))
            try:
                v = E.ev(s.expression)
            except Undef:
                v = None
            except (OverflowError, ZeroDivisionError, RecursionError):
                v = None
            env[name] = v
            out[name] = v
        elif isinstance(s, CompartmentalSystem):
            ode = qeval.ode_fingerprint(s, E)
            if amounts:
                for cname in s.compartment_names:
                    if cname in amounts:
                        env[str(qeval._sp(s.find_compartment(cname).amount))] = fr(amounts[cname])
    return out, ode


def amount_default(cname: str) -> Q:
    return name_value("amount:" + cname, 7)


def assigned_names(model):
    from pharmpy.model import Assignment

    return [str(qeval._sp(s.symbol)) for s in model.statements if isinstance(s, Assignment)]


def downstream(model, roots) -> set:
    """names whose value may depend on one of `roots` (conservative: sequential scan, re-assignment keeps membership)"""
    from pharmpy.model import Assignment, CompartmentalSystem

    dep = set(roots)
    after_ode = False
    ode_dep = False
    for s in model.statements:
        if isinstance(s, Assignment):
            rhs = {str(x) for x in qeval._sp(s.expression).free_symbols}
            fn = {str(f) for f in qeval._sp(s.expression).atoms() if getattr(f, "is_Function", False) and f.args}
            if rhs & dep or (ode_dep and fn):
                dep.add(str(qeval._sp(s.symbol)))
        elif isinstance(s, CompartmentalSystem):
            after_ode = True
            if {str(x) for x in s.free_symbols} & dep:
                ode_dep = True
    return dep


def upstream(model, roots) -> set:
    """names the final value of one of `roots` may depend on (conservative: reverse scan over the assignments)"""
    from pharmpy.model import Assignment

    need = set(roots)
    for s in reversed(list(model.statements)):
        if isinstance(s, Assignment):
            name = str(qeval._sp(s.symbol))
            if name in need:
                need |= {str(x) for x in qeval._sp(s.expression).free_symbols}
    return need


def frame_pairs(v1: dict, v2: dict, exclude, limit=40):
    out = []
    for n in v1:
        if n in v2 and n not in exclude:
            out.append([qj(v1[n]), qj(v2[n])])
    return out[:limit]


def retarget(model, env, var, target, amounts=None, scale_amount=None):
    """Find an override that makes `var` equal `target` at this point, assuming var is proportional to a
    population parameter (or to a compartment amount).  Returns (env_override, amounts) or None."""
    v0, _ = run(model, env, amounts)
    x0 = v0.get(var)
    if x0 is None or not x0.is_rat or x0.rat == 0:
        return None
    tgt = fr(target)
    if scale_amount is not None:
        a0 = fr((amounts or {}).get(scale_amount, amount_default(scale_amount)))
        am = dict(amounts or {})
        am[scale_amount] = a0 * tgt * x0.inv()
        v1, _ = run(model, env, am)
        if v1.get(var) == tgt:
            return {}, am
        return None
    for p in model.parameters.names:
        if p not in env or env[p] is None or not env[p].is_rat:
            continue
        e2 = dict(env)
        e2[p] = env[p] * tgt * x0.inv()
        v1, _ = run(model, e2, amounts)
        if v1.get(var) == tgt:
            return {p: e2[p]}, amounts
    return None


# --------------------------------------------------------------------------- floating point re-check


def run_float(model, envf: dict, amounts: dict | None = None):
    """Float execution with the real exp/log.  envf: name -> float.  Unknown symbols raise KeyError."""
    import sympy
    from pharmpy.model import Assignment, CompartmentalSystem

    env = dict(envf)
    out = {}
    for s in model.statements:
        if isinstance(s, Assignment):
            e = qeval._sp(s.expression)
            subs = {}
            for f in e.atoms(sympy.core.function.AppliedUndef):
                subs[f] = env[str(f)]
            for sym in e.free_symbols:
                if sym.name in env:
                    subs[sym] = env[sym.name]
            try:
                v = float(e.subs(subs).evalf())
            except Exception:
                v = float("nan")
            name = str(qeval._sp(s.symbol))
            env[name] = v
            out[name] = v
        elif isinstance(s, CompartmentalSystem):
            for cname in s.compartment_names:
                key = str(qeval._sp(s.find_compartment(cname).amount))
                env[key] = float((amounts or {}).get(cname, float(amount_default(cname))))
    return out


def env_to_float(env: dict) -> dict:
    out = {}
    for k, v in env.items():
        if v is None:
            continue
        try:
            out[k] = float(v)
        except Exception:
            pass
    return out


def close(a, b, rel=1e-6):
    if a is None or b is None or math.isnan(a) or math.isnan(b):
        return False
    return abs(a - b) <= rel * max(1.0, abs(a), abs(b))
