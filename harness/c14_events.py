"""C14 - Dataset derivations agree with record-by-record event semantics.

spec -> code : spec/data/EventWalk.tla generates event datasets (exhaustively up to a small length, by
               `-simulate` beyond it), walks them with the reference walker (one action per record, ADDL
               expansion as its own action, nondeterministic where the documentation is silent) and emits
               every finished dataset together with the expected derived columns.  The driver turns each
               dataset into a DataFrame + DataInfo inside a minimal model (pheno with another dataset) and
               compares get_observations, get_doses, get_mdv, get_evid, get_doseid, add_time_after_dose,
               expand_additional_doses, get_admid/add_admid, get_cmt/add_cmt, get_baselines,
               list_time_varying_covariates, get_number_of_observations(_per_individual) with the walker's
               output.  For the column-adding functions the frame condition (all existing columns, values,
               dtypes, row order identical; input model untouched) is part of the verdict.
The expectation is always TLC's; Python renders datasets, projects results and compares.
"""
from __future__ import annotations

import json
import os
import random
import shutil

from . import core

SPEC = core.SPEC / "data"
ACTIONS = ["DoObs", ("DoMissing", "AddMissing"), "DoDose", ("DoSmallDose", "AddSmallDose"), "DoOther", "DoReset", "DoResetDose", "Close", "ExpandOne", "SkipExpand", "StartWalk",
           "Walk", "WalkTie", "StartXWalk", "XWalk", "XWalkTie", "Finish"]
REFUSALS = ("ValueError", "NotImplementedError")   # documented kinds of refusal: counted, never judged


# ----------------------------------------------------------------------------- TLC


def _cfg(tag, **kw):
    txt = (SPEC / "EventWalk.cfg").read_text()
    for k, val in kw.items():
        import re

        txt, n = re.subn(rf"^(\s*{k}\s*=\s*)\d+", rf"\g<1>{val}", txt, flags=re.M)
        if n != 1:
            raise core.MachineryError(f"EventWalk.cfg: constant {k} not found")
    d = core.scratch(tag)
    (d / "EventWalk.cfg").write_text(txt)
    return d


def _check_tlc(res, what):
    core.require_ok(res, what)
    if res.violated:
        raise core.MachineryError(f"{what}: invariant {res.violated} of the reference violated:\n" + "\n".join(res.trace[-2:])[:3000])


def _tlc(what, consts, workers, tag, **kw):
    d = _cfg("c14" + tag, **consts)   # one scratch directory per concurrent job
    try:
        for attempt in (1, 2):  # a JVM that dies at start-up on an overloaded machine is retried once
            res = core.run_tlc(SPEC / "EventWalk.tla", d / "EventWalk.cfg", workers=workers, heap="4g", **kw)
            if not res.error or res.violated or "timed out" in res.error:
                break
    finally:
        shutil.rmtree(d, ignore_errors=True)
    _check_tlc(res, what)
    return res


def tlc_cases(tier, seed, v):
    """exhaustive run (all invariants, all actions) + simulated longer datasets, run side by side; returns the emitted cases"""
    from concurrent.futures import ThreadPoolExecutor

    ex = {"quick": dict(MaxLen=2, Profile=1, EmitMod=3), "thorough": dict(MaxLen=3, Profile=2, EmitMod=150)}[tier]
    sims = {"quick": [(4, 190), (6, 290)], "thorough": [(4, 1600), (6, 3800), (8, 3800)]}[tier]   # (MaxLen, behaviours per worker)
    simw = 5

    def job_ex():
        return _tlc("EventWalk.tla exhaustive", dict(EmitSel=seed % ex["EmitMod"], **ex), 8 if tier == "quick" else 12, "ex", timeout=3400)

    def job_sim(i):
        maxlen, num = sims[i]
        return _tlc(f"EventWalk.tla simulate MaxLen={maxlen}", dict(MaxLen=maxlen, Profile=2, EmitMod=1, EmitSel=0), simw, f"sim{i}", timeout=1700,
                    simulate=f"num={num}", depth=14 * maxlen + 12, seed=seed * 7 + i + 1, coverage=False)

    def job_focus():
        # steady-state focus (Profile 3): every dataset of <= 3 (thorough 4) records over {observation, dose, SS=1 dose, SS=2 dose}
        return _tlc("EventWalk.tla steady-state focus", dict(MaxLen=3 if tier == "quick" else 4, Profile=3, EmitMod=1, EmitSel=0), 4, "focus",
                    timeout=1700, coverage=False)

    with ThreadPoolExecutor(max_workers=4) as pool:
        ffocus = pool.submit(job_focus)
        fex = pool.submit(job_ex)
        fsim = [pool.submit(job_sim, i) for i in range(len(sims))]
        res = fex.result()
        simres = [f.result() for f in fsim]
    core.require_actions(res, ACTIONS, "EventWalk.tla")
    core.tlc_stats_into(v, res)
    cases = [c for t, c in res.prints if t == "CASE"]
    n_ex = len(cases)
    sim_states = 0
    for r2 in simres:
        sim_states += r2.generated
        cases += [c for t, c in r2.prints if t == "CASE"]
    rf = ffocus.result()
    fcases = [c for t, c in rf.prints if t == "CASE"]
    for c in fcases:
        c["focus"] = "ss"
    if not any(o["tc"] == "sskeep" and any(r["ss"] == 2 for r in c["data"]) for c in fcases for o in c["out"]):
        raise core.MachineryError("steady-state focus run emitted no tie with an SS=2 dose")
    n_sim = len(cases) - n_ex
    cases += fcases
    sim_states += rf.distinct
    v.add_coverage(tlc_ss_focus={"distinct_states": rf.distinct, "cases_emitted": len(fcases)})
    v.add_coverage(states=sim_states, transitions=sim_states)
    v.add_coverage(tlc_exhaustive={"constants": ex, "distinct_states": res.distinct, "depth": res.depth, "wall_s": round(res.wall, 1),
                                   "cases_emitted": n_ex},
                   tlc_simulation={"runs": [{"MaxLen": m, "behaviours": n * simw} for m, n in sims], "states": sim_states,
                                   "cases_emitted": n_sim})
    if not cases:
        raise core.MachineryError("EventWalk.tla emitted no cases")
    return cases


def group_cases(cases):
    """one entry per dataset; the branches of the nondeterministic walker become sets of admitted columns"""
    by = {}
    for c in cases:
        # rendering of the exact rational amounts amt/amtden (denominators 1 and 4: exact doubles)
        for seq in (c["data"], c["doses"], c["xdata"]):
            for r in seq:
                if "amtden" in r:
                    den = r.pop("amtden")
                    r["amt"] = r["amt"] / den if den != 1 else r["amt"]
        if "total4" in c:
            c["total"] = c.pop("total4") / 4
        key = json.dumps([sorted(c["cols"]), c["idmode"], c["data"]], sort_keys=True)
        g = by.get(key)
        if g is None:
            g = by[key] = dict(c)
            g["branches_seen"] = 0
            # per record: the set of admitted values (None = left open by the documentation); a nondeterministic
            # tie (WalkTie / XWalkTie) contributes the value of the branch taken and of the other branch
            g["doseid_admit"] = [sorted({None if o["dfree"] else o["doseid"], None if o["dfree"] else o["adoseid"]}, key=str) for o in c["out"]]
            g["tad_admit"] = [sorted({None if f else x, None if af else ax}, key=str)
                              for x, f, ax, af in zip(c["tad"], c["tfree"], c["atad"], c["atfree"])]
            for k in ("tad", "tfree", "tnd", "atad", "atfree"):
                del g[k]
        g["branches_seen"] += 1
    return [by[k] for k in sorted(by)]


# ----------------------------------------------------------------------------- rendering a case as a model

COLTYPES = {"ID": "id", "SUBJ": "id", "TIME": "idv", "AMT": "dose", "RATE": "rate", "EVID": "event", "MDV": "mdv",
            "ADDL": "additional", "II": "ii", "SS": "ss", "CMT": "compartment", "WGT": "covariate", "APGR": "covariate",
            "DV": "dv", "ROW": "unknown"}
_BASES = {}


def base_model(kind):
    """iv: pheno (dose into CENTRAL = compartment 1); ivoral: DEPOT (1, admid 1) and CENTRAL (2, admid 2)"""
    if kind in _BASES:
        return _BASES[kind]
    from pharmpy.modeling import convert_model, load_example_model, set_first_order_absorption
    from pharmpy.model import Bolus, CompartmentalSystem, CompartmentalSystemBuilder
    from pharmpy.basic import Expr

    # generic (format-less) model: update_source is then the identity, so that only pharmpy.modeling.data is exercised
    # (the NONMEM update_source rewrites $INPUT/$DATA and may itself drop a RATE column: C02/C13 territory)
    m = convert_model(load_example_model("pheno"), "generic")
    if kind == "ivoral":
        m = set_first_order_absorption(m)
        ode = m.statements.ode_system
        cb = CompartmentalSystemBuilder(ode)
        central = cb.find_compartment("CENTRAL")
        cb.set_dose(central, Bolus(Expr.symbol("AMT"), admid=2))
        ode = CompartmentalSystem(cb)
        m = m.replace(statements=m.statements.before_odes + ode + m.statements.after_odes)
        names = ode.compartment_names
        doses = {names.index(c.name) + 1: c.doses[0].admid for c in ode.dosing_compartments}
        if doses != {1: 1, 2: 2} or names.index(ode.dosing_compartments[0].name) != 0:
            raise core.MachineryError(f"ivoral base model does not have the expected routes: {doses} {names}")
    _BASES[kind] = m
    return m


_CI = {}


def _colinfo(name, type, datatype):
    """ColumnInfo.create costs ~15 ms (sympy unit): immutable objects, created once per kind"""
    from pharmpy.model import ColumnInfo

    k = (name, type, datatype)
    if k not in _CI:
        _CI[k] = ColumnInfo.create(name, type=type, datatype=datatype)
    return _CI[k]


def render(case, variant):
    import numpy as np
    import pandas as pd
    from pharmpy.model import ColumnInfo, DataInfo

    cols = set(case["cols"])
    idn = variant["idname"]
    recs = case["data"]
    typed = variant["dtypes"] == "typed"
    fl, it = np.float64, (np.int64 if typed else np.float64)
    d = {idn: np.array([r["id"] for r in recs], dtype=np.int64),
         "TIME": np.array([r["time"] for r in recs], dtype=fl),
         "AMT": np.array([r["amt"] for r in recs], dtype=fl)}
    if "RATE" in cols:
        d["RATE"] = np.array([r["rate"] for r in recs], dtype=fl)
    if "EVID" in cols:
        d["EVID"] = np.array([r["evid"] for r in recs], dtype=it)
    if "MDV" in cols:
        d["MDV"] = np.array([r["mdv"] for r in recs], dtype=it)
    if "ADDL" in cols:
        d["ADDL"] = np.array([r["addl"] for r in recs], dtype=it)
        d["II"] = np.array([r["ii"] for r in recs], dtype=fl)
    if "SS" in cols:
        d["SS"] = np.array([r["ss"] for r in recs], dtype=it)
    if "CMT" in cols:
        d["CMT"] = np.array([r["cmt"] for r in recs], dtype=it)
    d["WGT"] = np.array([r["wgt"] for r in recs], dtype=fl)
    d["APGR"] = np.array([r["apgr"] for r in recs], dtype=fl)
    d["DV"] = np.array([r["dv"] for r in recs], dtype=fl)
    d["ROW"] = np.arange(1, len(recs) + 1, dtype=np.int64)
    df = pd.DataFrame(d)
    ci = [_colinfo(c, COLTYPES[c], ColumnInfo.convert_pd_dtype_to_datatype(df.dtypes[c].name)) for c in df.columns]
    di = DataInfo.create(ci)
    model = base_model(variant["base"]).replace(dataset=df, datainfo=di, name="c14")
    return model, df


def snapshot(df):
    return (list(df.columns), [str(t) for t in df.dtypes], df.to_numpy(dtype=object, copy=True).tolist(), list(df.index))


def _num(x):
    x = float(x)
    return int(x) if x == int(x) else x


def _lst(series):
    return [_num(x) for x in series.tolist()]


def _match(real, admit):
    """every entry is one of the values the walker admits for that record (None = left open)"""
    return len(admit) == len(real) and all(None in a or r in a for a, r in zip(admit, real))


# ----------------------------------------------------------------------------- one dataset against the walker


def check_dataset(arg):
    case, variant = arg
    import numpy as np
    import pandas as pd
    from pharmpy.model import DatasetError
    import pharmpy.modeling as pm

    model, dfm = render(case, variant)
    df0 = dfm.copy()  # pristine copy: the model's own frame may get mutated by the functions under test
    snap0 = snapshot(df0)
    di0 = model.datainfo
    cols = set(case["cols"])
    idn = variant["idname"]
    n = len(case["data"])
    out = case["out"]
    contiguous = case["contiguous"]
    ids_sorted = [r["id"] for r in case["data"]] == sorted(r["id"] for r in case["data"])
    nobs_total, ndoses = len(case["obs"]), len(case["doses"])
    flags = {
        "cols": sorted(cols), "idmode": case["idmode"], "idname": idn, "base": variant["base"], "dtypes": variant["dtypes"],
        "contiguous": contiguous, "ids_ascending": ids_sorted, "n": n, "n_obs": nobs_total, "n_doses": ndoses,
        "has_addl_column": "ADDL" in cols, "has_evid_column": "EVID" in cols,
        "time_recurs_after_reset": bool(case["recurs"] or case["xrecurs"]),
        "has_reset": any(r["evid"] >= 3 for r in case["data"]),
        "has_evid4": any(r["evid"] == 4 for r in case["data"]),
        "has_dose_below_one": any(0 < r["amt"] < 1 for r in case["data"]),
        "has_missing_observation_record": any(r["evid"] == 0 and r["mdv"] == 1 for r in case["data"]),
        "nondose_follows_dose_at_same_time": _nondose_follows_dose(case),
    }
    events = []  # (record, what)
    refusals = []
    ncalls = [0]

    def report(func, outcome, what, **extra):
        rec = {"func": func, "outcome": outcome}
        rec.update(flags)
        rec.update(extra)
        rec["case"] = case
        rec["variant"] = variant
        events.append((rec, f"{func}: {what}"))

    def call(func, *a, **kw):
        """returns (ok, value); documented refusals (DatasetError) are reported by the caller when not admitted"""
        ncalls[0] += 1
        try:
            return True, getattr(pm, func)(*a, **kw)
        except DatasetError as e:
            return False, e
        except Exception as e:
            if type(e).__name__ in REFUSALS:
                refusals.append(f"{func}: {type(e).__name__}: {str(e)[:80]}")
            else:  # internal error
                report(func, type(e).__name__, f"{type(e).__name__}: {str(e)[:160]}", error=f"{type(e).__name__}: {str(e)[:70]}")
            return False, None

    def untouched(func):
        if snapshot(model.dataset) != snap0:
            report(func, "input_mutated", f"the argument's dataset was changed: columns now {list(model.dataset.columns)}")
            return False
        if model.datainfo != di0:
            report(func, "input_mutated", "the argument's datainfo was changed")
            return False
        return True

    def fresh():
        """a new model object with its own copy of the frame (after a function mutated its argument)"""
        return model.replace(dataset=df0.copy())

    # ---- record-local derivations
    ok, r = call("get_mdv", model)
    if ok and _lst(r) != [o["mdv"] for o in out]:
        report("get_mdv", "value", f"{_lst(r)} != walker {[o['mdv'] for o in out]}")
    ok, r = call("get_evid", model)
    if ok and _lst(r) != [o["evid"] for o in out]:
        report("get_evid", "value", f"{_lst(r)} != walker {[o['evid'] for o in out]}")
    ok, r = call("get_cmt", model)
    if ok and _lst(r) != [o["cmt"] for o in out]:
        report("get_cmt", "value", f"{_lst(r)} != walker {[o['cmt'] for o in out]}")

    def triples(res, valname):
        if isinstance(res, pd.Series):
            return [(_num(i[0]), _num(i[1]), _num(x)) for i, x in zip(res.index.tolist(), res.tolist())]
        return None

    ok, r = call("get_observations", model)
    if ok:
        exp = [(o["id"], o["time"], o["dv"]) for o in case["obs"]]
        got = triples(r, "dv")
        if got is None:
            report("get_observations", "not_a_series", f"returned {type(r).__name__} {r!r} instead of a Series of {len(exp)} observation(s)")
        elif got != exp:
            report("get_observations", "value", f"{got} != walker {exp}")
    ok, r = call("get_observations", model, keep_index=True)
    if ok and isinstance(r, pd.Series):
        exp = [(i + 1, case["data"][i]["dv"]) for i in range(n) if out[i]["isobs"]]
        got = [(int(i) + 1, _num(x)) for i, x in zip(r.index.tolist(), r.tolist())]
        if got != exp:
            report("get_observations", "value", f"keep_index: {got} != walker {exp}")
    ok, r = call("get_doses", model)
    if ok:
        exp = [(o["id"], o["time"], o["amt"]) for o in case["doses"]]
        got = triples(r, "amt")
        if got is None:
            report("get_doses", "not_a_series", f"returned {type(r).__name__} {r!r} instead of a Series of {len(exp)} dose(s)")
        elif got != exp:
            report("get_doses", "value", f"{got} != walker {exp}")
    elif isinstance(r, DatasetError):
        report("get_doses", "DatasetError", "refused although the dataset has a dose column")
    ok, r = call("get_number_of_observations", model)
    if ok and r != nobs_total:
        report("get_number_of_observations", "value", f"{r} != walker {nobs_total}")
    ok, r = call("get_number_of_observations_per_individual", model)
    if ok:
        got = {int(i): int(x) for i, x in r.items()} if isinstance(r, pd.Series) else None
        exp = {i: c for i, c in case["nobs"]}
        if got is None or any(got.get(i, 0) != c for i, c in exp.items()) or any(i not in exp for i in got):
            report("get_number_of_observations_per_individual", "value", f"{got} != walker {exp}")

    # ---- per-individual derivations
    ok, r = call("get_baselines", model)
    if ok:
        bad = None
        try:
            for i, idx in case["base"]:
                row = r.loc[i]
                for c in df0.columns:
                    if c != idn and float(row[c]) != float(df0[c].iloc[idx - 1]):
                        bad = f"individual {i} column {c}: {row[c]} != record {idx}'s {df0[c].iloc[idx - 1]}"
            if sorted(int(i) for i in r.index) != sorted(i for i, _ in case["base"]):
                bad = f"individuals {list(r.index)} != {[i for i, _ in case['base']]}"
        except Exception as e:
            bad = f"result not indexable by individual: {type(e).__name__}: {e}"
        if bad:
            report("get_baselines", "value", bad)
    ok, r = call("list_time_varying_covariates", model)
    if ok and sorted(r) != sorted(case["tv"]):
        report("list_time_varying_covariates", "value", f"{sorted(r)} != walker {sorted(case['tv'])}")

    if contiguous:
        ok, r = call("get_doseid", model)
        if ok:
            got = _lst(r)
            if not _match(got, case["doseid_admit"]):
                report("get_doseid", "value", f"{got} not admitted by the walker: {case['doseid_admit']}")
        elif isinstance(r, DatasetError):
            report("get_doseid", "DatasetError", "refused although the dataset has a dose column")
        untouched("get_doseid")
        ok, r = call("get_admid", model)
        if ok:
            got = _lst(r)
            exp = [[None if o["afree"] else o["admid"]] for o in out]
            if not _match(got, exp):
                report("get_admid", "value", f"{got} != walker {exp}", mismatch_only_from_evid4_dose=_from_evid4(case, got, exp))
    untouched("getters")

    # ---- column-adding functions: result column + frame condition
    def frame(func, m2, newcol, expected_branches, by_row=False):
        nonlocal model
        mutated = not untouched(func)
        if m2 is None:
            if mutated:
                model = fresh()
            return
        d2 = m2.dataset
        if len(d2) != n:
            report(func, "row_count", f"{len(d2)} records, the input has {n}")
        elif list(d2.columns[: len(df0.columns)]) != list(df0.columns) or list(d2.columns[len(df0.columns):]) != [newcol]:
            report(func, "columns", f"columns {list(d2.columns)}; expected the input's {list(df0.columns)} + [{newcol}]")
        else:
            old = d2[list(df0.columns)]
            same_order = old.to_numpy(dtype=float).tolist() == df0.to_numpy(dtype=float).tolist()
            perm = list(range(n))
            if not same_order:
                a = sorted(map(tuple, old.to_numpy(dtype=float).tolist()))
                b = sorted(map(tuple, df0.to_numpy(dtype=float).tolist()))
                if a == b:
                    report(func, "rows_reordered", f"records come back in the order {[int(x) for x in d2['ROW']]}")
                    perm = [int(x) - 1 for x in d2["ROW"]]
                else:
                    report(func, "values_changed", "values of pre-existing columns differ from the input's")
                    perm = None
            if [str(t) for t in old.dtypes] != snap0[1]:
                ch = {c: (snap0[1][i], str(old.dtypes.iloc[i])) for i, c in enumerate(df0.columns) if snap0[1][i] != str(old.dtypes.iloc[i])}
                report(func, "dtype_changed", f"dtypes of pre-existing columns changed: {ch}")
            if perm is not None:
                got = [None] * n
                for pos, rowidx in enumerate(perm):
                    got[rowidx] = _num(d2[newcol].iloc[pos])
                if not _match(got, expected_branches):
                    neg = any(x < 0 for x in got)
                    report(func, "negative" if neg else "value", f"{newcol} by input record {got} not admitted by the walker: {expected_branches}",
                           **({"mismatch_only_from_evid4_dose": _from_evid4(case, got, expected_branches)} if func == "add_admid" else {}))
                elif any(x < 0 for x in got):
                    report(func, "negative", f"{newcol} {got} has a negative entry")
        if mutated:
            model = fresh()

    if contiguous:
        ok, m2 = call("add_time_after_dose", model)
        frame("add_time_after_dose", m2 if ok else None, "TAD", case["tad_admit"])
        ok, m2 = call("add_admid", model)
        frame("add_admid", m2 if ok else None, "ADMID", [[None if o["afree"] else o["admid"]] for o in out])
    if "CMT" not in cols:
        ok, m2 = call("add_cmt", model)
        frame("add_cmt", m2 if ok else None, "CMT", [[o["cmt"]] for o in out])

    # ---- expansion of additional doses
    if contiguous:
        for flag in (True, False):
            ok, m2 = call("expand_additional_doses", model, flag=flag)
            mutated = not untouched("expand_additional_doses")
            if ok:
                d2 = m2.dataset
                xd = case["xdata"]
                if "ADDL" not in cols:
                    if snapshot(d2)[2] != snap0[2]:
                        report("expand_additional_doses", "value", "dataset without ADDL column was changed")
                    continue
                exp_rows = sorted((e["id"], e["time"], e["amt"], e["x"]) for e in xd)
                xcol = d2["EXPANDED"].tolist() if flag else [False] * len(d2)
                got_rows = sorted((_num(a), _num(b), _num(c), bool(x) if flag else None) for a, b, c, x in zip(d2[idn], d2["TIME"], d2["AMT"], xcol))
                if not flag:
                    exp_rows = sorted((a, b, c, None) for a, b, c, _ in exp_rows)
                if got_rows != exp_rows:
                    report("expand_additional_doses", "records", f"flag={flag}: (id,time,amt,expanded) {got_rows} != walker {exp_rows}")
                    continue
                if _num(d2["AMT"].sum()) != case["total"]:
                    report("expand_additional_doses", "total_amount", f"{d2['AMT'].sum()} != {case['total']}")
                if flag:
                    orig = d2[~d2["EXPANDED"]]
                    keep = [c for c in df0.columns]
                    for i in sorted(set(df0[idn])):
                        a = orig[orig[idn] == i][keep].to_numpy(dtype=float).tolist()
                        b = df0[df0[idn] == i][keep].to_numpy(dtype=float).tolist()
                        if a != b:
                            report("expand_additional_doses", "originals", f"original records of individual {i} not preserved in order: ROW {orig[orig[idn] == i]['ROW'].tolist()}")
                            break
                    # chronological inside each individual's reset group (groups as the walker numbers them)
                    g_of = {(e["src"]): e["g"] for e in xd}
                    seq = [(int(r_), float(t)) for r_, t in zip(d2["ROW"], d2["TIME"])]
                    last = {}
                    for r_, t in seq:
                        key = (case["data"][r_ - 1]["id"], g_of[r_])
                        if key in last and t < last[key]:
                            report("expand_additional_doses", "not_chronological", f"records of individual/reset group {key} are not in time order")
                            break
                        last[key] = t
                else:
                    if "ADDL" in d2.columns or "II" in d2.columns:
                        report("expand_additional_doses", "columns", "ADDL/II still present with flag=False")
            if mutated:
                model = fresh()
    return events, ncalls[0], refusals


def _from_evid4(case, got, admit):
    """classification of a mismatch: every differing record is an EVID=4 dose record or follows one in its individual"""
    seen4 = set()
    ok = True
    for r, g_, a_ in zip(case["data"], got, admit):
        if r["evid"] == 4:
            seen4.add(r["id"])
        if None not in a_ and g_ not in a_ and r["id"] not in seen4:
            ok = False
    return ok


def _nondose_follows_dose(case):
    """structural class of the input: in some individual a non-dose record comes after a dose record (original or
    additional) with the same time value - the trigger of get_doseid's tie adjustment"""
    seen = set()
    for e in case["xdata"]:
        if e["amt"] > 0:
            seen.add((e["id"], e["time"]))
        elif (e["id"], e["time"]) in seen:
            return True
    return False


# ----------------------------------------------------------------------------- driver


def variants_for(case, rng):
    uses2 = any(r["amt"] > 0 and r["cmt"] == 2 for r in case["data"])
    return {
        "idname": "SUBJ" if rng.random() < 0.1 else "ID",
        "base": "ivoral" if uses2 or rng.random() < 0.3 else "iv",
        "dtypes": "typed" if rng.random() < 0.5 else "nonmem",
    }


def run(tier, seed, v, cases):
    core.use_repo()
    import pharmpy.modeling  # noqa: F401

    for b in ("iv", "ivoral"):
        base_model(b)
    rng = random.Random(seed)
    groups = group_cases(cases)
    budget = int({"quick": 1200, "thorough": 20000}[tier] * float(os.environ.get("VERIF_BUDGET_SCALE", "1")))
    rng.shuffle(groups)
    # one eighth of the budget for the exhaustively enumerated short datasets, the rest for the longer (simulated)
    # ones: they carry the interactions
    short = [g for g in groups if len(g["data"]) <= 2][: budget // 8]
    longer = [g for g in groups if len(g["data"]) > 2][: budget - len(short)]
    # steady-state focus datasets: all those with a dose / observation tie at a steady-state dose (the walker's classes
    # sskeep / choice), on top of the budget
    taken = {id(h) for h in short + longer}
    ssf = [g for g in groups if g.get("focus") == "ss" and any(o["tc"] in ("sskeep", "choice") for o in g["out"])
           and id(g) not in taken][: max(budget // 3, 50)]
    work = [(g, variants_for(g, rng)) for g in short + longer + ssf]
    for g, var in work[:60]:
        render(g, var)  # fills the ColumnInfo cache before forking
    results = core.pmap(check_dataset, work, procs=16, chunk=4)
    calls = 0
    nontrivial = 0
    refused = {}
    for (events, nc, refusals), (g, var) in zip(results, work):
        calls += nc
        for r in refusals:
            refused[r] = refused.get(r, 0) + 1
        if len(g["data"]) >= 3 and g["doses"] and g["obs"]:
            nontrivial += 1
        for rec, what in events:
            v.violation(rec, what)
    for r, c in sorted(refused.items(), key=lambda x: -x[1])[:10]:
        v.notes.append(f"refused (not judged) x{c}: {r}")
    if sum(refused.values()) > 0.2 * max(calls, 1):
        raise core.MachineryError(f"more than 20% of the calls were refused: {list(refused.items())[:3]}")
    lens = {}
    for g, _ in work:
        lens[len(g["data"])] = lens.get(len(g["data"]), 0) + 1
    v.add_coverage(
        datasets_emitted_by_tlc=len(groups),
        datasets_replayed=len(work),
        dataset_lengths=dict(sorted(lens.items())),
        evaluations=calls,
        distinct_nontrivial=nontrivial,
        traces_validated_against_impl=len(work),
        rule="a dataset = one finished behaviour of EventWalk.tla (exhaustive up to MaxLen, simulated beyond); non-trivial = "
             ">= 3 records with at least one dose and one observation; sampled by VERIF_SEED when above the tier budget",
        samples=[{"cols": g["cols"], "data": [[r["id"], r["time"], r["amt"], r["evid"], r["addl"], r["ii"], r["ss"], r["cmt"]] for r in g["data"]],
                  "doseid": g["doseid_admit"], "tad": g["tad_admit"]} for g, _ in work[:3]],
        exhaustive=len(work) >= len(groups),
    )


def main(tier: str, seed: int) -> int:
    v = core.Verdict("C14", tier, seed)
    v.assumptions = [
        "datasets carry numeric times (TIME/DATE translation is not part of this specification)",
        "dose records have AMT > 0 and EVID in {1, 4}; observation records EVID = 0 = MDV; a record with EVID = 0 and MDV = 1 (missing observation, "
        "only with both columns) is not an observation; otherwise MDV = (EVID != 0)",
        "situations the documentation leaves open are not judged: ties with the first dose of an individual or with a "
        "steady-state dose (either interval admitted), several doses at one time point, EVID=2 records at a dose time, "
        "time after dose before any dose or after a reset without dose (only TAD >= 0 is required), non-contiguous ids "
        "(only record-local derivations compared)",
    ]
    cases = tlc_cases(tier, seed, v)
    run(tier, seed, v, cases)
    return v.finish(min_traces=int({"quick": 500, "thorough": 5000}[tier] * min(1.0, float(os.environ.get("VERIF_BUDGET_SCALE", "1")))))


def replay(path: str) -> int:
    """re-run one recorded case: the replay file carries the dataset and the walker's expectation (TLC's)"""
    core.use_repo()
    import pharmpy.modeling  # noqa: F401

    data = json.loads(open(path).read())
    rec = data["case"]
    print(f"property {data['property']}: {data['what']}")
    events, _, _ = check_dataset((rec["case"], rec["variant"]))
    hit = [e for e in events if e[0]["func"] == rec["func"] and e[0]["outcome"] == rec["outcome"]]
    for e in events:
        print(("* " if e in hit else "  ") + e[1][:400])
    print("REPRODUCED" if hit else "not reproduced")
    return 1 if hit else 0
