"""C13 - Datasets are read by NM-TRAN's rules and survive a write/read cycle.

spec -> code, three specifications under spec/data:
  DataLex.tla   character-level scanner of docs/NONMEM.rst (separators, NULLs, comment lines, blank line and
                space-before-TAB errors) + item conversion (DataItem.tla: Fortran forms, 24 characters) + padding /
                surplus / DROP / synonyms against $INPUT.  TLC enumerates every text over a small alphabet up to a
                length bound (1-3 lines) and emits text + expected rows / expected error for every number of $INPUT
                columns and every dropped column.
  Filter.tla    IGNORE / ACCEPT lists applied in order, text vs numeric comparison, filters on dropped columns.
  DataWrite.tla small numeric frames for the write/read law.
The driver feeds every emitted text to read_nonmem_dataset(StringIO(...), colnames=..., ...) and, embedded in a control
stream, through read_model (the $DATA/$INPUT path), and compares the frame cell by cell with TLC's expectation
(numbers as exact decimals); DatasetError exactly where the specification says error.  Frames of DataWrite.tla are
attached to a model, written with write_model / write_csv and read back: DataFrame.equals.
"""
from __future__ import annotations

import json
import os
import random
import re
import shutil
from concurrent.futures import ThreadPoolExecutor

from . import core

SPEC = core.SPEC / "data"
RENDER = {"_": " ", "T": "\t", "N": "\n", "Z": "0" * 22}


def render(tokens):
    return "".join(RENDER.get(t, t) for t in tokens)


# ----------------------------------------------------------------------------- TLC


def _cfg(module, tag, **kw):
    txt = (SPEC / f"{module}.cfg").read_text()
    for k, val in kw.items():
        txt, n = re.subn(rf"^(\s*{k}\s*=\s*)\d+", rf"\g<1>{val}", txt, flags=re.M)
        if n != 1:
            raise core.MachineryError(f"{module}.cfg: constant {k} not found")
    d = core.scratch(tag)
    (d / f"{module}.cfg").write_text(txt)
    return d


def _run(module, consts, workers, simulate=None, depth=None, seed=None, timeout=3000, tag=""):
    d = _cfg(module, "c13" + module.lower() + tag, **consts)   # one scratch directory per concurrent job
    try:
        for attempt in (1, 2):  # a JVM that dies at start-up on an overloaded machine is retried once
            res = core.run_tlc(SPEC / f"{module}.tla", d / f"{module}.cfg", workers=workers, timeout=timeout, simulate=simulate,
                               depth=depth, seed=seed, coverage=simulate is None, heap="4g")
            if not res.error or res.violated or "timed out" in res.error:
                break
    finally:
        shutil.rmtree(d, ignore_errors=True)
    what = f"{module}.tla {'simulate' if simulate else 'exhaustive'} {consts}"
    core.require_ok(res, what)
    if res.violated:
        raise core.MachineryError(f"{what}: invariant {res.violated} of the reference violated:\n" + "\n".join(res.trace[-2:])[:3000])
    return res


PLAN = {
    "quick": {
        "lex_ex": ("DataLex", dict(MaxLen=4, MaxCols=3, Profile=1, EmitMod=20), None),
        "lex_sim": ("DataLex", dict(MaxLen=10, MaxCols=3, Profile=2, EmitMod=1), 45),
        "lex_long": ("DataLex", dict(MaxLen=5, MaxCols=3, Profile=3, EmitMod=3), None),
        "flt_ex": ("Filter", dict(MaxRows=1, MaxFilters=2, Profile=1, EmitMod=40), None),
        "flt_sim": ("Filter", dict(MaxRows=3, MaxFilters=3, Profile=2, EmitMod=1), 25),
        "wr_ex": ("DataWrite", dict(MaxRows=2, MaxCols=2, Profile=1, EmitMod=40), None),
    },
    "thorough": {
        "lex_ex": ("DataLex", dict(MaxLen=5, MaxCols=3, Profile=2, EmitMod=60), None),
        "lex_sim": ("DataLex", dict(MaxLen=12, MaxCols=3, Profile=2, EmitMod=1), 1200),
        "lex_long": ("DataLex", dict(MaxLen=7, MaxCols=3, Profile=3, EmitMod=40), None),
        "flt_ex": ("Filter", dict(MaxRows=2, MaxFilters=2, Profile=1, EmitMod=150), None),
        "flt_sim": ("Filter", dict(MaxRows=3, MaxFilters=3, Profile=2, EmitMod=1), 500),
        "wr_ex": ("DataWrite", dict(MaxRows=2, MaxCols=2, Profile=2, EmitMod=150), None),
    },
}
ACTIONS = {"DataLex": ["Feed", "Finish", "Fit"], "Filter": ["AddRow", "AddFilter", "Start", "ApplyFilter", "Convert"],
           "DataWrite": ["AddCell", "EndRow", "Close"]}


def tlc_all(tier, seed, v):
    plan = PLAN[tier]

    def job(name):
        module, consts, sim = plan[name]
        consts = dict(consts)
        consts["EmitSel"] = seed % consts["EmitMod"]
        if sim:
            depth = consts["MaxLen"] + 4 if module == "DataLex" else consts["MaxRows"] + 2 * consts["MaxFilters"] + 5
            return name, _run(module, consts, 5, simulate=f"num={sim}", depth=depth, seed=seed * 11 + len(name), tag=name)
        return name, _run(module, consts, 6 if tier == "quick" else 8, tag=name)

    with ThreadPoolExecutor(max_workers=3 if tier == "quick" else 2) as ex:
        results = dict(ex.map(job, list(plan)))
    out = {}
    stats = {}
    for name, res in results.items():
        module, consts, sim = plan[name]
        if not sim:
            core.require_actions(res, ACTIONS[module], f"{module}.tla")
        v.add_coverage(states=res.distinct if not sim else res.generated, transitions=res.generated)
        cases = [c for t, c in res.prints if t == "CASE"]
        if not cases:
            raise core.MachineryError(f"{name}: no cases emitted")
        out[name] = cases
        stats[name] = {"module": module, "constants": consts, "simulate_num_per_worker": sim, "states": res.distinct or res.generated,
                       "generated": res.generated, "wall_s": round(res.wall, 1), "cases_emitted": len(cases)}
    v.add_coverage(tlc_runs=stats)
    return out


# ----------------------------------------------------------------------------- DataLex cases against the reader

MODEL_TAIL = "$PRED\nY = THETA(1) + ETA(1) + EPS(1)\n$THETA 1\n$OMEGA 1\n$SIGMA 1\n$ESTIMATION METHOD=1\n"


def _colname(j, inp):
    return {"given": f"C{j}", "synonym": f"S{j}", "anonymous": None}[inp["name"]]


def _input_item(j, inp):
    f = inp["form"]
    return {"NAME": f"C{j}", "NAME=DROP": f"C{j}=DROP", "DROP=NAME": f"DROP=C{j}", "NAME=SKIP": f"C{j}=SKIP", "SKIP=NAME": f"SKIP=C{j}",
            "DROP": "DROP", "SKIP": "SKIP", "RES=SYN": f"AMT=S{j}", "SYN=RES": f"S{j}=AMT"}[f]


def _expected_cells(t, nullval):
    rows = []
    for r in t["rows"]:
        row = []
        for c in r:
            if c["k"] == "num":
                row.append(float(render(c["canon"])))
            elif c["k"] == "null":
                row.append(float(nullval))
            elif c["k"] == "missing":   # the missing-data token: NaN
                row.append(float("nan"))
            else:  # DROPped column: raw text; padding of a dropped column is not judged
                row.append(("text", render(c["canon"]) if c["canon"] else None))
        rows.append(row)
    return rows


def _compare_frame(df, exp_rows, names):
    """None if equal, else (outcome, what)"""
    import math

    if list(df.shape) != [len(exp_rows), len(names)] and not (len(exp_rows) == 0 and len(df) == 0):
        return "shape", f"frame {list(df.shape)} != {len(exp_rows)} rows x {len(names)} columns"
    for j, nm in enumerate(names):
        if nm is not None and str(df.columns[j]) != nm:
            return "column_name", f"column {j + 1} is called {df.columns[j]!r}, expected {nm!r}"
    for i, row in enumerate(exp_rows):
        for j, e in enumerate(row):
            g = df.iloc[i, j]
            if isinstance(e, tuple):
                if e[1] is not None and str(g) != e[1]:
                    return "value", f"row {i + 1} dropped column {j + 1}: {g!r} != raw text {e[1]!r}"
            else:
                try:
                    gf = float(g)
                except Exception:
                    return "value", f"row {i + 1} column {j + 1}: {g!r} is not a number, expected {e!r}"
                if not (gf == e or (math.isnan(gf) and math.isnan(e))):
                    return "value", f"row {i + 1} column {j + 1}: {gf!r} != {e!r}"
    return None


def _lex_flags(case, n):
    items = case["items"]
    text = case["text"]
    last_line = text[len(text) - text[::-1].index("N"):] if "N" in text else text
    stripped = [t for t in last_line if t not in ("_", "T")] if case["ign"] == "@" else last_line
    last_is_comment = bool(last_line) and text[-1] != "N" and (
        (case["ign"] == "@" and bool(stripped) and stripped[0] in ("A", "D", "E", "#")) or (case["ign"] != "@" and last_line[0] == case["ign"]))
    return {
        "first_row_surplus": bool(items) and len(items[0]) > n,
        "later_row_longer_than_first": any(min(len(r), n) > len(items[0]) for r in items[1:]) if items else False,
        "comment_last_line_without_newline": last_is_comment,
        "n_lines": text.count("N") + (1 if text and text[-1] != "N" else 0),
        # an item with two or more sign characters after its first character, e.g. 1+1+A
        "item_with_two_inner_signs": any(sum(1 for ch in it[1:] if ch in "+-") >= 2 for r in items for it in r[:n]),
        # an item that starts with a sign and uses the D exponent letter, e.g. -1D1
        "signed_item_with_D": any(it and it[0] in "+-" and "D" in it[1:] and it[1] in "012Z." for r in items for it in r[:n]),
    }


def lex_check(arg):
    case, var = arg
    from io import StringIO

    from pharmpy.model import DatasetError
    from pharmpy.model.external.nonmem.dataset import read_nonmem_dataset

    n, d = var["n"], var["d"]
    t = case["table"][n - 1][d]
    text = render(case["text"])
    nullopt = var["null"]
    nullval = case["nulls"][nullopt]
    rec = {"part": "lex", "path": var["path"], "ign": case["ign"], "text": text, "n": n, "d": d, "null": nullopt,
           "expected": t["outcome"], "unspec": case["unspec"], "input": [i["form"] for i in t["input"]]}
    rec.update(_lex_flags(case, n))
    if t["outcome"] == "unspec":
        return ("unspec", rec, None)
    names = [_colname(j + 1, i) for j, i in enumerate(t["input"])]
    try:
        if var["path"] == "raw":
            k = 0
            colnames = []
            for nm in names:
                if nm is None:
                    k += 1
                    nm = f"_DROP{k}"
                colnames.append(nm)
            kw = dict(colnames=colnames, drop=[i["drop"] for i in t["input"]], null_value=nullopt)
            if case["ign"] != "#" or var.get("explicit_hash"):
                kw["ignore_character"] = case["ign"]
            df = read_nonmem_dataset(StringIO(text), **kw)
        else:
            from pharmpy.modeling import read_model

            dd = core.scratch("c13m")
            try:
                (dd / "data.csv").write_text(text)
                opts = {"#": "", "A": " IGNORE=A", "@": " IGNORE=@"}[case["ign"]]
                if nullopt != "0" or var.get("explicit_null"):
                    opts += f" NULL={nullopt}"
                code = "$PROBLEM c13\n$INPUT " + " ".join(_input_item(j + 1, i) for j, i in enumerate(t["input"])) + f"\n$DATA data.csv{opts}\n" + MODEL_TAIL
                (dd / "run.mod").write_text(code)
                rec["control_stream"] = code
                df = read_model(dd / "run.mod").dataset
            finally:
                shutil.rmtree(dd, ignore_errors=True)
    except DatasetError as e:
        if t["outcome"] == "error":
            return ("ok", rec, None)
        rec["outcome"] = "DatasetError"
        return ("violation", rec, f"DatasetError ({str(e)[:80]}) for a text the rules accept: {text!r} with {n} $INPUT column(s); expected rows {_expected_cells(t, nullval)}")
    except Exception as e:
        rec["outcome"] = type(e).__name__
        rec["error"] = f"{type(e).__name__}: {str(e)[:60]}"
        return ("violation", rec, f"{type(e).__name__}: {str(e)[:120]} reading {text!r} with {n} $INPUT column(s) (expected {t['outcome']})")
    if t["outcome"] == "error":
        rec["outcome"] = "accepted"
        why = case["err"] or "an item with an illegal character / longer than 24 characters in a column that is not dropped"
        return ("violation", rec, f"{text!r} read without error ({df.to_numpy().tolist()}); the rules say ERROR: {why}")
    cmp = _compare_frame(df, _expected_cells(t, nullval), names)
    if cmp:
        rec["outcome"] = cmp[0]
        return ("violation", rec, f"{text!r} with $INPUT {rec['input']} NULL={nullopt}: {cmp[1]}; frame {df.to_numpy().tolist()} expected {_expected_cells(t, nullval)}")
    return ("ok", rec, None)


# ----------------------------------------------------------------------------- Filter cases

OPS = {"EQ": [".EQ."], "NE": [".NE."], "EQN": [".EQN."], "NEN": [".NEN."], "LT": [".LT."], "LE": [".LE."], "GT": [".GT."], "GE": [".GE."]}


def filter_check(arg):
    case, var = arg
    from io import StringIO

    from pharmpy.model import DatasetError
    from pharmpy.model.external.nonmem.dataset import read_nonmem_dataset

    res = case["result"]
    back = None
    text = "\n".join(",".join(render(it) for it in row) for row in case["table"]) + "\n"
    filters = [f"C{f['col']}{OPS[f['op']][0]}{render(f['val'])}" for f in case["filters"]]
    drop = [case["drop"] == 1, False]
    rec = {"part": "filter", "path": var["path"], "fmode": case["fmode"], "text": text, "filters": filters, "drop": case["drop"],
           "ops": [f["op"] for f in case["filters"]], "expected": res["outcome"], "n_filters": len(filters)}
    if res["outcome"] == "unspec" or res["altoutcome"] == "unspec":
        return ("unspec", rec, None)
    try:
        if var["path"] == "raw":
            kw = {"ignore": filters} if case["fmode"] == "IGNORE" else {"accept": filters}
            df = read_nonmem_dataset(StringIO(text), colnames=["C1", "C2"], drop=drop, null_value="0", **kw)
        else:
            from pharmpy.modeling import read_model

            dd = core.scratch("c13f")
            try:
                (dd / "data.csv").write_text(text)
                key = case["fmode"]
                if var.get("one_list"):
                    opts = f" {key}=(" + ",".join(filters) + ")"
                else:
                    opts = "".join(f" {key}=({f})" for f in filters)
                code = f"$PROBLEM c13\n$INPUT {'C1=DROP' if drop[0] else 'C1'} C2\n$DATA data.csv{opts}\n" + MODEL_TAIL
                (dd / "run.mod").write_text(code)
                rec["control_stream"] = code
                model = read_model(dd / "run.mod")
                df = model.dataset
                if var.get("write") and len(df) >= 1:
                    # write/read law on a model that carries the list and whose first read already filtered:
                    # write_csv + write_model, then the generated code must read back the model's dataset
                    from pharmpy.modeling import write_csv, write_model

                    rec["stage"] = "write"
                    # class of the input: the first column holds text that starts with a letter (a DROPped column is kept as text)
                    rec["first_column_text_starts_with_letter"] = any(str(x)[:1].isalpha() for x in df.iloc[:, 0])
                    m2 = write_csv(model, path=dd / "out.csv", force=True)
                    write_model(m2, dd / "out.mod", force=True)
                    gen = (dd / "out.mod").read_text()
                    rec["generated_data_record"] = next((ln for ln in gen.splitlines() if ln.startswith("$DATA")), "")
                    back = read_model(dd / "out.mod").dataset
            finally:
                shutil.rmtree(dd, ignore_errors=True)
    except DatasetError as e:
        if res["outcome"] == "error" or res["altoutcome"] == "error":
            return ("ok", rec, None)
        rec["outcome"] = "DatasetError"
        return ("violation", rec, f"DatasetError ({str(e)[:80]}) for {case['fmode']} {filters} on {text!r}; expected rows {res['rows']}")
    except Exception as e:
        rec["outcome"] = type(e).__name__
        rec["error"] = f"{type(e).__name__}: {str(e)[:60]}"
        return ("violation", rec, f"{type(e).__name__}: {str(e)[:120]} for {case['fmode']} {filters} on {text!r}")
    admitted = []
    for oc, rows in ((res["outcome"], res["rows"]), (res["altoutcome"], res["altrows"])):
        if oc == "ok":
            admitted.append(_expected_cells({"rows": rows}, 0.0))
    if not admitted:
        rec["outcome"] = "accepted"
        return ("violation", rec, f"{case['fmode']} {filters} on {text!r} read without error ({df.to_numpy().tolist()}); a numeric comparison / conversion meets an item that is not a number")
    errs = [_compare_frame(df, rows, ["C1", "C2"]) for rows in admitted]
    if all(errs):
        rec["outcome"] = errs[0][0]
        return ("violation", rec, f"{case['fmode']} {filters} on {text!r}: {errs[0][1]}; frame {df.to_numpy().tolist()} expected {admitted}")
    if back is not None and not back.equals(df):
        rec["outcome"] = "written_not_equal"
        return ("violation", rec, f"model with {case['fmode']} {filters} on {text!r}: dataset {df.to_numpy().tolist()}, after write_csv + write_model the generated "
                                  f"code ({rec['generated_data_record']!r}) reads back {back.to_numpy().tolist()}")
    return ("ok", rec, None)


# ----------------------------------------------------------------------------- write / read

_BASE = {}


def _base_model():
    if "m" not in _BASE:
        from pharmpy.modeling import read_model

        d = core.scratch("c13base")
        (d / "base.csv").write_text("ID,TIME,DV\n1,0,1\n1,1,2\n")
        (d / "base.mod").write_text("$PROBLEM c13\n$INPUT ID TIME DV\n$DATA base.csv IGNORE=@\n" + MODEL_TAIL)
        m = read_model(d / "base.mod")
        m.dataset  # noqa: B018  (load before the directory disappears)
        _BASE["m"] = m
        _BASE["dir"] = d
    return _BASE["m"]


NAMED = {"0.1+0.2": 0.1 + 0.2, "nextafter(1)": 1.0000000000000002, "2**53+2": float(2**53 + 2), "min subnormal": 5e-324,
         "-max double": -1.7976931348623157e308, "-0.0": -0.0, "pi*1e-5": 3.141592653589793 * 1e-5}


def _double(cell):
    """rendering of a DataWrite.tla cell: the double nearest to n/d * 10^e (Fraction -> float is correctly rounded)"""
    from fractions import Fraction

    if cell["k"] == "nan":
        return float("nan")
    if cell["k"] == "named":
        return NAMED[cell["name"]]
    return float(Fraction(cell["n"], cell["d"]) * Fraction(10) ** cell["e"])


def write_check(arg):
    case, var = arg
    import numpy as np
    import pandas as pd
    from pharmpy.modeling import read_model, set_dataset, write_csv, write_model

    rows = case["rows"]
    nr = len(rows)
    data = {"ID": np.array([1 + i // 2 for i in range(nr)], dtype="int32"), "TIME": np.array([float(i % 2) for i in range(nr)])}
    names = ["DV", "X1", "X2", "X3"]
    for j in range(case["ncols"]):
        data[names[j]] = np.array([_double(r[j]) for r in rows], dtype=np.float64)
    df = pd.DataFrame(data)
    rec = {"part": "write", "via": var["via"], "frame": df.to_numpy().tolist(), "columns": list(df.columns)}
    dd = core.scratch("c13w")
    try:
        m = set_dataset(_base_model(), df.copy()).replace(name="out")
        if var["via"] == "write_csv":
            m = write_csv(m, path=dd / "out.csv", force=True)
        m = write_model(m, dd / "out.mod", force=True)
        back = read_model(dd / "out.mod").dataset
        if not back.equals(df):
            rec["outcome"] = "not_equal"
            rec["differs"] = sorted({repr(float(a)) for a, b in zip(df.to_numpy().ravel(), back.to_numpy().ravel())
                                     if not (a == b or (a != a and b != b))}) if back.shape == df.shape else "shape"
            rec["csv"] = (dd / "out.csv").read_text() if (dd / "out.csv").exists() else None
            return ("violation", rec, f"read back {back.to_numpy().tolist()} {[str(t) for t in back.dtypes]} != written {df.to_numpy().tolist()} {[str(t) for t in df.dtypes]}")
        if not m.dataset.equals(df):
            rec["outcome"] = "model_dataset_changed"
            return ("violation", rec, "the written model's dataset differs from the frame it was given")
    except Exception as e:
        rec["outcome"] = type(e).__name__
        rec["error"] = f"{type(e).__name__}: {str(e)[:60]}"
        return ("violation", rec, f"{type(e).__name__}: {str(e)[:160]} writing / re-reading {df.to_numpy().tolist()}")
    finally:
        shutil.rmtree(dd, ignore_errors=True)
    return ("ok", rec, None)


# ----------------------------------------------------------------------------- driver


def _dispatch(item):
    kind, arg = item
    return {"lex": lex_check, "filter": filter_check, "write": write_check}[kind](arg)


def run(tier, seed, v, cases):
    core.use_repo()
    import pharmpy.modeling  # noqa: F401
    import pharmpy.model.external.nonmem.dataset  # noqa: F401

    rng = random.Random(seed)
    budget = {"quick": dict(lex_raw=5000, lex_model=260, flt_raw=1500, flt_model=170, write=160),
              "thorough": dict(lex_raw=120000, lex_model=6000, flt_raw=30000, flt_model=3000, write=2500)}[tier]
    scale = float(os.environ.get("VERIF_BUDGET_SCALE", "1"))   # only for trying the pipeline on a busy machine
    budget = {k: max(1, int(b * scale)) for k, b in budget.items()}
    work = []
    lex = cases["lex_ex"] + cases["lex_sim"]
    rng.shuffle(lex)
    longs = [c for c in cases["lex_long"] if "Z" in c["text"]]
    rng.shuffle(longs)
    lex = longs[: budget["lex_raw"] // 5] + lex
    def pick(c):
        """$INPUT width and dropped column: by seed, among the combinations the specification judges when there is one"""
        combos = [(t["n"], t["d"]) for per_n in c["table"] for t in per_n if t["outcome"] != "unspec"]
        if not combos or rng.random() < 0.1:
            n = rng.randint(1, 3)
            return n, rng.randint(0, n)
        return rng.choice(combos)

    for c in lex[: budget["lex_raw"]]:
        n, d = pick(c)
        work.append(("lex", (c, {"n": n, "d": d, "null": rng.choice(sorted(c["nulls"])), "path": "raw", "explicit_hash": rng.random() < 0.5})))
    judged = [c for c in lex if not c["unspec"]]
    for c in judged[: budget["lex_model"]]:
        n, d = pick(c)
        work.append(("lex", (c, {"n": n, "d": d, "null": rng.choice(sorted(c["nulls"])), "path": "model", "explicit_null": rng.random() < 0.3})))
    flt = cases["flt_ex"] + cases["flt_sim"]
    rng.shuffle(flt)
    for c in flt[: budget["flt_raw"]]:
        work.append(("filter", (c, {"path": "raw"})))
    # through a generated control stream, followed by write_csv + write_model + read_model; half of the budget for the cases
    # in which the specification predicts that a retained list would change the rows again (result.sensitive)
    okc = [c for c in flt if c["result"]["outcome"] == "ok" and c["result"]["rows"]]
    sens = [c for c in okc if c["result"]["sensitive"]][: budget["flt_model"] // 2]
    for c in sens + flt[: budget["flt_model"] - len(sens)]:
        work.append(("filter", (c, {"path": "model", "write": True, "one_list": rng.random() < 0.5})))
    wr = list(cases["wr_ex"])
    rng.shuffle(wr)
    for c in wr[: budget["write"]]:
        work.append(("write", (c, {"via": rng.choice(["write_model", "write_csv"])})))
    _base_model()
    try:
        results = core.pmap(_dispatch, work, procs=16, chunk=8)
    finally:
        shutil.rmtree(_BASE.get("dir", core.WORK / "none"), ignore_errors=True)
    counts = {}
    samples = []
    nontrivial = 0
    for (status, rec, what), (kind, _) in zip(results, work):  # noqa: B007
        key = f"{rec['part']}_{rec.get('path', rec.get('via'))}_{status}"
        counts[key] = counts.get(key, 0) + 1
        if status == "violation":
            rec["replay"] = [kind, _]
            v.violation(rec, what)
        if status != "unspec" and (rec.get("n_lines", 0) >= 2 or rec.get("n_filters", 0) >= 2 or kind == "write"):
            nontrivial += 1
        if status == "ok" and len(samples) < 6 and rec["part"] != "write" and rec.get("expected") == "ok" and rng.random() < 0.02:
            samples.append({k: rec[k] for k in ("part", "text", "expected", "n", "input", "filters") if k in rec})
    judged_n = sum(c for k, c in counts.items() if not k.endswith("_unspec"))
    v.add_coverage(
        evaluations=len(work), judged=judged_n, unspecified_not_judged=sum(c for k, c in counts.items() if k.endswith("_unspec")),
        by_part=dict(sorted(counts.items())), distinct_nontrivial=nontrivial, traces_validated_against_impl=judged_n,
        rule="a case = one finished behaviour of DataLex.tla (text + $INPUT width + dropped column), Filter.tla (table + filter list) or "
             "DataWrite.tla (frame); non-trivial = at least two lines / two filters / a written frame; exhaustive runs are sampled by "
             "VERIF_SEED through the specifications' Selected predicate, simulated ones by TLC's seed",
        samples=samples, exhaustive=False)


def main(tier: str, seed: int) -> int:
    v = core.Verdict("C13", tier, seed)
    v.assumptions = [
        "reference = docs/NONMEM.rst; where it is silent the case is not judged: leading TAB, single trailing TAB, comma next to a TAB, "
        "files without data rows, strings over the legal characters that are not Fortran reals, numeric filters on NULL items, "
        "several ACCEPT conditions (both readings admitted), blanks without newline at the end of the file",
        "TIME/DATE translation, BLANKOK, MISDAT, id renumbering are outside this specification (neutral column names are used); the missing-data token "
        "(-99) is part of Filter.tla (a missing value under numeric operators, NaN in the frame) but not of the scanner alphabet",
    ]
    cases = tlc_all(tier, seed, v)
    run(tier, seed, v, cases)
    return v.finish(min_traces=int({"quick": 1500, "thorough": 30000}[tier] * min(1.0, float(os.environ.get("VERIF_BUDGET_SCALE", "1")))))


def replay(path: str) -> int:
    core.use_repo()
    import pharmpy.modeling  # noqa: F401

    data = json.loads(open(path).read())
    rec = data["case"]
    print(f"property {data['property']}: {data['what']}")
    if "replay" not in rec:
        print("replay file without the case payload")
        return 2
    kind, arg = rec["replay"]
    status, rec2, what = _dispatch((kind, arg))
    print(status, what or "")
    hit = status == "violation" and rec2.get("outcome") == rec.get("outcome")
    print("REPRODUCED" if hit else "not reproduced")
    return 1 if hit else 0
