"""Bounded, seeded generator of NM-TRAN abbreviated-code programs as JSON ASTs (the case files of
spec/nmtran/NMTran.tla) and of $THETA/$OMEGA/$SIGMA record sets (spec/nmtran/ParamMeaning.tla).

Bounds (DESIGN C01): <= 5 statements (all nesting levels counted), <= 3 user variables, block
nesting <= 2, expression depth <= 2; every statement kind, operator, function and relation occurs
(a fixed systematic part guarantees it, the seeded part samples the rest of the grammar).
Nothing is evaluated here: the values are TLC's business.
"""
from __future__ import annotations

import random
from fractions import Fraction

USER_NAMES = ["TVCL", "TVV", "CLI", "VI", "KE", "W", "IPRE", "X1", "X2", "ZZ", "BASE", "SLP", "EFF",
              "DUM", "TMP", "AA", "BB", "CC", "PP", "QQ", "HILL", "E0", "WT2", "GRP"]
DATA_ITEMS = ["WGT", "APGR", "TIME", "AMT"]
THETAS = ["THETA(1)", "THETA(2)", "THETA(3)"]
ETAS = ["ETA(1)", "ETA(2)"]

# admissible probe values per input (small, so that 32-bit rational arithmetic rarely overflows):
#   THETA(2): powers of two (LOG), THETA(3) and WGT: rational squares (SQRT), ETA/APGR: integers (EXP)
POOL = {
    "THETA(1)": [(3, 2), (5, 3), (-7, 2), (7, 4), (5, 2), (-1, 3)],
    "THETA(2)": [(2, 1), (1, 2), (4, 1), (8, 1), (1, 4)],
    "THETA(3)": [(4, 1), (9, 1), (1, 4), (9, 4), (25, 4)],
    "ETA(1)": [(1, 1), (-1, 1), (2, 1), (0, 1), (3, 1)],
    "ETA(2)": [(-2, 1), (2, 1), (0, 1), (1, 1), (-1, 1)],
    "EPS(1)": [(3, 1), (-1, 1), (1, 2), (2, 1)],
    "WGT": [(9, 4), (4, 1), (1, 1), (1, 4), (25, 4)],
    "APGR": [(7, 1), (3, 1), (10, 1), (1, 1), (5, 1)],
    "TIME": [(5, 2), (1, 1), (0, 1), (12, 1), (1, 2)],
    "AMT": [(0, 1), (25, 1), (7, 2), (0, 1)],
}
# literals are integers or dyadic rationals: the reader turns decimal literals into binary floats and folds
# literal-only sub-expressions numerically, which is exact only for these
NUMS = [(0, 1), (1, 1), (2, 1), (3, 1), (4, 1), (5, 1), (7, 1), (10, 1), (1, 2), (1, 4), (3, 2), (5, 2),
        (1, 8), (3, 8), (3, 4), (9, 4), (5, 4)]
SMALL_INTS = [(0, 1), (1, 1), (2, 1), (3, 1)]
POW2 = [(1, 1), (2, 1), (4, 1), (8, 1), (16, 1)]
SQUARES = [(4, 1), (9, 1), (1, 4), (9, 4), (0, 1), (1, 1), (25, 4)]
RELS = ["EQ", "NE", "LT", "LE", "GT", "GE"]


def num(n, d=1):
    return {"k": "num", "n": n, "d": d}


def var(v):
    return {"k": "var", "v": v}


def neg(a, tight=True):
    """tight: the minus sign is written without a following blank (layout only; see Expr.tla, NegIR)"""
    return {"k": "neg", "a": a, "tight": tight}


def bin_(k, a, b):
    if k == "div" and b["k"] == "num":
        if b["n"] == 0:
            b = num(2)  # a literal division by zero is not a program
        elif b["d"] != 1 and b["n"] != 1:
            b = num(b["n"])  # x/0.75 is read as x*1.3333333333333333: literal divisors are integers or 1/2^k
    return {"k": k, "a": a, "b": b}


def fn(f, a, b=None):
    e = {"k": "fn", "f": f, "a": a}
    if b is not None:
        e["b"] = b
    return e


def rel(op, a, b):
    return {"k": "rel", "op": op, "a": a, "b": b}


def _has_var(e):
    if e["k"] == "var":
        return True
    return any(_has_var(e[x]) for x in ("a", "b") if x in e)


def asg(v, e):
    return {"k": "asg", "v": v, "e": e}


def lif(c, v, e):
    return {"k": "lif", "c": c, "v": v, "e": e}


def blk(arms, els=None):
    return {"k": "blk", "arms": [{"c": c, "body": b} for c, b in arms], "haselse": els is not None, "els": els or []}


class Gen:
    def __init__(self, rng: random.Random, inputs=None, max_depth=2):
        self.rng = rng
        self.inputs = inputs or (DATA_ITEMS + THETAS + ETAS)
        self.max_depth = max_depth

    def neg(self, a):
        return neg(a, self.rng.random() < 0.5)

    # ---- expressions
    def leaf(self, defined):
        r = self.rng.random()
        if defined and r < 0.35:
            return var(self.rng.choice(sorted(defined)))
        if r < 0.75:
            return var(self.rng.choice(self.inputs))
        return num(*self.rng.choice(NUMS))

    def int_expr(self, depth):
        """integer-valued at every probe (EXP argument)"""
        r = self.rng.random()
        ints = [v for v in self.inputs if v.startswith("ETA") or v == "APGR"] or None
        if depth <= 0 or r < 0.5:
            if ints and self.rng.random() < 0.7:
                return var(self.rng.choice(ints))
            return num(*self.rng.choice(SMALL_INTS))
        if r < 0.65:
            return self.neg(self.int_expr(depth - 1))
        if r < 0.85:
            return bin_(self.rng.choice(["add", "sub", "mul"]), self.int_expr(depth - 1), self.int_expr(depth - 1))
        return fn("INT", self.leaf(set()))

    def pow2_expr(self, depth):
        r = self.rng.random()
        if depth <= 0 or r < 0.5:
            if "THETA(2)" in self.inputs and self.rng.random() < 0.5:
                return var("THETA(2)")
            return num(*self.rng.choice(POW2))
        if r < 0.75:
            a = self.int_expr(depth - 1)
            if not _has_var(a):
                a = var(self.rng.choice([v for v in self.inputs if v.startswith("ETA") or v == "APGR"] or ["ETA(1)"]))
            return fn(self.rng.choice(["EXP", "PEXP"]), a)
        return bin_(self.rng.choice(["mul", "div"]), self.pow2_expr(depth - 1), self.pow2_expr(depth - 1))

    def square_expr(self, depth):
        r = self.rng.random()
        sq = [v for v in self.inputs if v in ("THETA(3)", "WGT")]
        if depth <= 0 or r < 0.5:
            if sq and self.rng.random() < 0.5:
                return var(self.rng.choice(sq))
            return num(*self.rng.choice(SQUARES))
        if r < 0.75:
            x = self.leaf(set())
            return bin_("pow", x, num(2)) if self.rng.random() < 0.5 else bin_("mul", x, x)
        return bin_(self.rng.choice(["mul", "div"]), self.square_expr(depth - 1), self.square_expr(depth - 1))

    def expr(self, depth, defined):
        if depth <= 0 or self.rng.random() < 0.15:
            return self.leaf(defined)
        r = self.rng.random()
        d = depth - 1
        if r < 0.5:
            op = self.rng.choice(["add", "sub", "mul", "div"])
            a, b = self.expr(d, defined), self.expr(d, defined)
            return bin_(op, a, b)
        if r < 0.58:
            return self.neg(self.expr(d, defined))
        if r < 0.68:
            # exponent: small integer literal (possibly negative), an integer-valued input, 1/2 of a square, or a tower
            q = self.rng.random()
            if q < 0.5:
                return bin_("pow", self.expr(d, defined), num(self.rng.choice([2, 2, 3, 0, 1])))
            if q < 0.65:
                return bin_("pow", self.expr(d, defined), self.neg(num(self.rng.choice([1, 2]))))
            if q < 0.8:
                return bin_("pow", self.leaf(defined), self.int_expr(0))
            if q < 0.9:
                return bin_("pow", self.square_expr(0), num(1, 2))
            a, b, c = (num(self.rng.choice([2, 3])), num(self.rng.choice([2, 3])), num(2))
            return bin_("pow", a, bin_("pow", b, c)) if self.rng.random() < 0.5 else bin_("pow", bin_("pow", a, b), c)
        f = self.rng.choice(["EXP", "LOG", "SQRT", "ABS", "INT", "MOD", "PEXP", "PLOG", "PSQRT", "ABS", "INT", "MOD"])
        # EXP / LOG of a literal-only argument is folded to a float by the reader's symbolic engine (and then INT(..),
        # comparisons .. of it follow the real function, not the function model): always keep a variable inside
        if f in ("EXP", "PEXP"):
            a = self.int_expr(d)
            if not _has_var(a):
                a = var(self.rng.choice([v for v in self.inputs if v.startswith("ETA") or v == "APGR"] or ["ETA(1)"]))
            return fn(f, a)
        if f in ("LOG", "PLOG"):
            a = self.pow2_expr(d)
            if not _has_var(a):
                a = bin_("mul", a, var("THETA(2)")) if a["k"] == "num" and self.rng.random() < 0.5 else var("THETA(2)")
            return fn(f, a)
        if f == "SQRT":
            return fn(f, self.square_expr(d))
        if f == "PSQRT":
            return fn(f, self.square_expr(d) if self.rng.random() < 0.7 else self.neg(self.leaf(defined)))
        if f == "MOD":
            a = self.expr(d, defined)
            b = self.leaf(defined) if self.rng.random() < 0.5 else num(*self.rng.choice([(2, 1), (3, 1), (1, 2), (3, 2)]))
            return fn("MOD", a, b)
        return fn(f, self.expr(d, defined))

    # ---- conditions
    def simple_rel(self, defined):
        op = self.rng.choice(RELS)
        a = self.expr(self.rng.choice([0, 0, 1]), defined)
        if not _has_var(a) and self.rng.random() < 0.97:
            a = var(self.rng.choice(sorted(defined) or self.inputs))  # constant conditions only rarely
        if op in ("EQ", "NE") and self.rng.random() < 0.7:
            # comparisons that can come out either way: integer-valued item against one of its probe values
            v = self.rng.choice([x for x in self.inputs if x in ("APGR", "ETA(1)", "ETA(2)", "AMT")] or self.inputs)
            val = self.rng.choice(POOL.get(v, [(1, 1)]))
            b = num(*val) if val[0] >= 0 else self.neg(num(-val[0], val[1]))
            return rel(op, var(v), b)
        b = self.leaf(defined) if self.rng.random() < 0.5 else num(*self.rng.choice(NUMS))
        return rel(op, a, b)

    def cond(self, depth, defined, want_parens=False):
        r = self.rng.random()
        if depth <= 0 or r < 0.6:
            return self.simple_rel(defined)
        if r < 0.7:
            return {"k": "not", "a": self.simple_rel(defined)}
        k = self.rng.choice(["and", "or"])
        a, b = self.cond(depth - 1, defined), self.cond(depth - 1, defined)
        if self.rng.random() < 0.9:
            # the reader's grammar has no parenthesised logical sub-expressions: mostly avoid shapes that need them
            if k == "and":
                a = a if a["k"] != "or" else self.simple_rel(defined)
                b = b if b["k"] in ("rel", "not") else self.simple_rel(defined)
            else:
                b = b if b["k"] != "or" else self.simple_rel(defined)
        return {"k": k, "a": a, "b": b}

    # ---- statements
    def program(self, max_stmts=5, nvars=3, max_nest=2, names=None):
        names = names or self.rng.sample(USER_NAMES, nvars)
        budget = [self.rng.randint(1, max_stmts)]
        defined: set = set()
        body = self.body(budget, 0, max_nest, names, defined, top=True)
        if not body:
            body = [asg(names[0], self.expr(self.max_depth, defined))]
            defined.add(names[0])
        return body, names, defined

    def body(self, budget, nest, max_nest, names, defined, top=False, maxlen=5):
        out = []
        n = 0
        while budget[0] > 0 and n < maxlen:
            if not top and self.rng.random() < 0.35:
                break
            r = self.rng.random()
            budget[0] -= 1
            n += 1
            readable = set(defined)
            if r < 0.45 or (nest >= max_nest and r >= 0.65):
                v = self.rng.choice(names)
                out.append(asg(v, self.expr(self.max_depth, readable)))
                defined.add(v)
            elif r < 0.65:
                v = self.rng.choice(names)
                c = self.cond(1, readable)
                out.append(lif(c, v, self.expr(self.max_depth - 1 if self.rng.random() < 0.5 else self.max_depth, readable)))
                if self.rng.random() < 0.1:
                    defined.add(v)  # allow (rarely) reading a maybe-assigned variable later
            else:
                narms = self.rng.choice([1, 1, 1, 2, 2, 3])
                haselse = self.rng.random() < 0.55
                arms = []
                branch_defs = []
                for _ in range(narms):
                    c = self.cond(self.rng.choice([0, 1, 1, 2]), readable)
                    d2 = set(defined)
                    b = self.body(budget, nest + 1, max_nest, names, d2, maxlen=3)
                    arms.append((c, b))
                    branch_defs.append(d2)
                els = None
                if haselse:
                    d2 = set(defined)
                    els = self.body(budget, nest + 1, max_nest, names, d2, maxlen=3)
                    branch_defs.append(d2)
                out.append(blk(arms, els))
                if haselse:
                    defined |= set.intersection(*branch_defs)
                elif self.rng.random() < 0.08:
                    defined |= set.union(*branch_defs)
        return out


def probe_envs(rng: random.Random, names, k=3):
    envs = []
    for _ in range(k):
        envs.append({n: list(rng.choice(POOL[n])) for n in names})
    return envs


PRED_INPUTS = DATA_ITEMS + THETAS + ETAS + ["EPS(1)"]


def y_statement(rng, defined, names):
    src = var(rng.choice(sorted(defined))) if defined else var("THETA(1)")
    r = rng.random()
    if r < 0.5:
        return asg("Y", bin_("add", src, var("EPS(1)")))
    if r < 0.8:
        return asg("Y", bin_("mul", src, bin_("add", num(1), var("EPS(1)"))))
    return asg("Y", bin_("add", src, bin_("mul", var("THETA(3)"), var("EPS(1)"))))


def systematic_programs():
    """Fixed part: every statement kind / operator / function / relation at least once, in programs
    whose values are defined at the probes (so the vacuity guard does not depend on the seed)."""
    T1, T2, T3, W, AP, E1, E2 = (var("THETA(1)"), var("THETA(2)"), var("THETA(3)"), var("WGT"), var("APGR"),
                                 var("ETA(1)"), var("ETA(2)"))
    P = []
    for op in ["add", "sub", "mul", "div"]:
        P.append([asg("X1", bin_(op, T1, W)), asg("X2", bin_(op, bin_(op, T1, W), T3)), asg("ZZ", bin_(op, T1, bin_(op, W, T3)))])
    P.append([asg("X1", neg(T1)), asg("X2", neg(bin_("mul", T1, W))), asg("ZZ", bin_("pow", neg(T1), num(2))),
              asg("X1", neg(bin_("pow", W, num(2)))), asg("X2", bin_("sub", neg(T1), neg(W)))])
    P.append([asg("X1", bin_("pow", num(2), bin_("pow", num(3), num(2)))), asg("X2", bin_("pow", bin_("pow", num(2), num(3)), num(2))),
              asg("ZZ", bin_("pow", T1, neg(num(2)))), asg("X1", bin_("pow", T3, num(1, 2))), asg("X2", bin_("pow", W, E1))])
    P.append([asg("X1", bin_("div", T1, bin_("mul", W, T3))), asg("X2", bin_("mul", bin_("div", T1, W), T3)),
              asg("ZZ", bin_("sub", T1, bin_("sub", W, T3))), asg("X1", bin_("div", T1, bin_("div", W, T3)))])
    P.append([asg("X1", fn("EXP", E1)), asg("X2", fn("LOG", T2)), asg("ZZ", fn("SQRT", T3)),
              asg("X1", fn("ABS", T1)), asg("X2", fn("INT", bin_("div", neg(num(7)), num(2))))])
    P.append([asg("X1", fn("MOD", num(7), num(3))), asg("X2", fn("MOD", neg(num(7)), num(3))), asg("ZZ", fn("MOD", T1, T2)),
              asg("X1", fn("INT", T1)), asg("X2", fn("MOD", AP, num(2)))])
    P.append([asg("X1", fn("PEXP", E2)), asg("X2", fn("PLOG", T2)), asg("ZZ", fn("PSQRT", W)), asg("X1", fn("PSQRT", neg(W))),
              asg("X2", bin_("mul", T1, fn("EXP", bin_("add", E1, E2))))])
    for op in RELS:
        P.append([asg("X1", num(1)), lif(rel(op, W, num(2)), "X1", num(2)), lif(rel(op, AP, num(7)), "X2", T1),
                  blk([(rel(op, T1, W), [asg("ZZ", num(1))])], [asg("ZZ", num(2))])])
    c1, c2, c3 = rel("GT", W, num(2)), rel("LT", AP, num(5)), rel("EQ", E1, num(1))
    for c in [{"k": "and", "a": c1, "b": c2}, {"k": "or", "a": c1, "b": c2}, {"k": "not", "a": c1},
              {"k": "or", "a": {"k": "and", "a": c1, "b": c2}, "b": c3}, {"k": "or", "a": c3, "b": {"k": "and", "a": c1, "b": c2}},
              {"k": "and", "a": {"k": "not", "a": c1}, "b": c3}]:
        P.append([asg("X1", num(0)), lif(c, "X1", num(1)), blk([(c, [asg("X2", T1)])], [asg("X2", T2)])])
    # block shapes without any hazard of the per-symbol translation
    P.append([blk([(c1, [asg("X1", T1), asg("X2", T2)]), (c2, [asg("X1", T2), asg("X2", T3)])], [asg("X1", num(0)), asg("X2", num(1))])])
    P.append([asg("X1", T1), blk([(c1, [asg("X1", bin_("mul", T1, num(2)))])]), blk([(c2, [asg("X1", num(3))]), (c3, [asg("X1", num(4))])])])
    P.append([asg("X1", T1), blk([(c1, [blk([(c2, [asg("X1", num(5))])], [asg("X1", num(6))])])], [asg("X1", num(7))])])
    P.append([asg("X1", T1), blk([(c1, [lif(c3, "X1", num(8))]), (c2, [])], [asg("X1", num(9))]), blk([(c1, [])], [asg("X2", num(1))])])
    # a variable defined BEFORE a block IF that has an ELSE, assigned in some arm but not in every arm: it must keep its
    # previous value on the arms that do not assign it (no shape of PharmpyIf.Hazards: every later arm assigns only
    # symbols that the earlier arms assign as well)
    keep1 = [asg("X1", T1), asg("X2", T2),
             blk([(c1, [asg("X1", bin_("mul", T1, num(2))), asg("X2", num(3))])], [asg("X2", num(4))])]
    keep2 = [asg("X1", T1), asg("X2", T2),
             blk([(c1, [asg("X1", num(5)), asg("X2", num(6))]), (c2, [asg("X2", num(7))])], [asg("X2", num(8))])]
    keep3 = [asg("X1", T1), asg("X2", T2), asg("ZZ", T3),
             blk([(c2, [asg("X1", num(1)), asg("X2", num(2)), asg("ZZ", num(3))]), (c3, [asg("X1", num(4)), asg("X2", num(5))])],
                 [asg("X2", num(6))])]
    keep4 = [asg("X1", T1), asg("X2", T2),
             blk([({"k": "not", "a": c1}, [asg("X1", bin_("add", T1, num(1))), asg("X2", T3)])], [asg("X2", bin_("sub", T2, num(1)))]),
             asg("ZZ", bin_("add", var("X1"), var("X2")))]
    P += [keep1, keep2, keep3, keep4]
    out = []
    for i, body in enumerate(P):
        out.append(body + [asg("Y", bin_("add", var("X1"), var("EPS(1)")))])
    return out


def systematic_envs():
    """fixed probes of the systematic programs: every condition they use (WGT > 2, APGR < 5, ETA(1) = 1 and the
    relations of W / APGR / THETA(1) with 2 / 7 / W) is true in one probe and false in another"""
    base = {"THETA(1)": [3, 2], "THETA(2)": [2, 1], "THETA(3)": [4, 1], "ETA(2)": [-2, 1], "EPS(1)": [3, 1], "TIME": [5, 2], "AMT": [25, 1]}
    return [dict(base, **{"WGT": [4, 1], "APGR": [3, 1], "ETA(1)": [1, 1]}),
            dict(base, **{"WGT": [1, 1], "APGR": [7, 1], "ETA(1)": [0, 1], "THETA(1)": [5, 2]}),
            dict(base, **{"WGT": [9, 4], "APGR": [10, 1], "ETA(1)": [1, 1], "THETA(1)": [-7, 2], "THETA(2)": [1, 2], "THETA(3)": [9, 4]})]


def pred_cases(rng: random.Random, n_random: int, first_id=1):
    cases = []
    cid = first_id
    for body in systematic_programs():
        cases.append({"id": cid, "kind": "pred", "prog": body, "envs": systematic_envs(), "origin": "systematic"})
        cid += 1
    g = Gen(rng)
    for _ in range(n_random):
        body, names, defined = g.program()
        body = body + [y_statement(rng, defined, names)]
        cases.append({"id": cid, "kind": "pred", "prog": body, "envs": probe_envs(rng, PRED_INPUTS, 3), "origin": "random"})
        cid += 1
    return cases


# --------------------------------------------------------------------------- ADVAN / TRANS cases

ADVAN_TRANS = [(1, 1), (1, 2), (2, 1), (2, 2), (3, 1), (3, 3), (3, 4), (3, 5), (3, 6), (4, 1), (4, 3), (4, 4), (4, 5), (4, 6),
               (10, 1), (11, 1), (11, 4), (11, 6), (12, 1), (12, 4), (12, 6)]
NCOMP = {1: 1, 2: 2, 3: 2, 4: 3, 10: 1, 11: 3, 12: 4}
CENTRAL = {1: 1, 2: 2, 3: 1, 4: 2, 10: 1, 11: 1, 12: 2}


def basic_params(advan, trans):
    """Basic PK parameters $PK has to define (NONMEM help, TRANSn)."""
    ka = ["KA"] if advan in (2, 4, 12) else []
    if advan in (1, 2):
        return (["K"] if trans == 1 else ["CL", "V"]) + ka
    if advan in (3, 4):
        c, p = ("1", "2") if advan == 3 else ("2", "3")
        return {1: ["K", f"K{c}{p}", f"K{p}{c}"], 3: ["CL", "V", "Q", "VSS"], 4: ["CL", f"V{c}", "Q", f"V{p}"],
                5: ["AOB", "ALPHA", "BETA"], 6: ["ALPHA", "BETA", f"K{p}{c}"]}[trans] + ka
    if advan == 10:
        return ["VM", "KM"]
    if advan in (11, 12):
        c, p, q = ("1", "2", "3") if advan == 11 else ("2", "3", "4")
        return {1: ["K", f"K{c}{p}", f"K{p}{c}", f"K{c}{q}", f"K{q}{c}"],
                4: ["CL", f"V{c}", f"Q{p}", f"V{p}", f"Q{q}", f"V{q}"],
                6: ["ALPHA", "BETA", "GAMMA", f"K{p}{c}", f"K{q}{c}"]}[trans] + ka
    raise ValueError(advan)


PARAM_VALUES = [(3, 2), (2, 1), (5, 3), (7, 2), (5, 1), (1, 2), (7, 4), (3, 1), (11, 2), (4, 3), (13, 3), (9, 2), (7, 1), (11, 4), (13, 2), (1, 3)]
DEC_VALUES = [v for v in PARAM_VALUES if v[1] in (1, 2, 4)]    # literals must have a finite decimal expansion
AMOUNTS = [(3, 1), (5, 1), (7, 1), (11, 1), (13, 2), (17, 3)]


def advan_case(rng: random.Random, cid, advan, trans, scale, alag, bio, ratemode, cmtmode):
    """One $PK/$ERROR model.  scale: 'none'|'Sn'|'SC';  alag/bio: list of compartment numbers with ALAGn/Fn;
    ratemode: see Advan.tla;  cmtmode: 'none' | 'default' (CMT column, doses in the default compartment) | 'central'
    (doses into the central compartment of a depot model)."""
    names = basic_params(advan, trans)
    prog, nth = [], 0

    def theta():
        nonlocal nth
        nth += 1
        return var(f"THETA({nth})")

    aux = None
    if rng.random() < 0.3:
        aux = rng.choice(["TVX", "GRPF", "WTF"])
        prog.append(asg(aux, bin_("add", num(1), bin_("mul", var("ETA(2)"), num(1, 4)))))
    for i, p in enumerate(names):
        e = theta() if nth < 7 else num(*rng.choice(DEC_VALUES))
        if i == 0 and rng.random() < 0.6:
            e = bin_("mul", e, fn("EXP", var("ETA(1)")))
        elif aux and rng.random() < 0.3:
            e = bin_("mul", e, var(aux))
        prog.append(asg(p, e))
    if rng.random() < 0.25:
        p = rng.choice(names)
        prog.append(lif(rel(rng.choice(["GT", "LT"]), var("ETA(2)"), num(0)), p, bin_("mul", var(p), num(rng.choice([2, 3])))))
    c = CENTRAL[advan]
    vol = next((v for v in names if v.startswith("V") and v not in ("VM", "VSS")), None)
    sexpr = bin_("div", var(vol), num(rng.choice([1, 10, 100]))) if vol and rng.random() < 0.7 else (theta() if nth < 8 else num(5, 2))
    if scale == "Sn":
        prog.append(asg(f"S{c}", sexpr))
    elif scale == "SC":
        prog.append(asg("SC", sexpr))
    for n in alag:
        prog.append(asg(f"ALAG{n}", theta() if nth < 8 else num(1, 2)))
    for n in bio:
        prog.append(asg(f"F{n}", theta() if nth < 8 else num(3, 4)))
    dosecmt = c if cmtmode == "central" else 0
    dn = dosecmt or 1
    if ratemode == "m1" or (ratemode in ("none", "zero") and rng.random() < 0.1):
        prog.append(asg(f"R{dn}", theta() if nth < 8 else num(7, 2)))
    if ratemode == "m2" or (ratemode in ("none", "zero") and rng.random() < 0.1):
        prog.append(asg(f"D{dn}", theta() if nth < 8 else num(3, 2)))
    rng_order = prog[len(names) + (1 if aux else 0):]
    rng.shuffle(rng_order)
    prog = prog[:len(names) + (1 if aux else 0)] + rng_order
    # $ERROR
    r = rng.random()
    if r < 0.4:
        err = [asg("IPRED", var("F")), asg("Y", bin_("add", var("IPRED"), var("EPS(1)")))]
    elif r < 0.7:
        err = [asg("IPRED", var("F")), asg("W", bin_("mul", var("IPRED"), num(1, 8))),
               asg("Y", bin_("add", var("IPRED"), bin_("mul", var("W"), var("EPS(1)"))))]
    else:
        err = [asg("IPRED", num(0)), lif(rel("GT", var("F"), num(0)), "IPRED", fn("ABS", var("F"))),
               asg("Y", bin_("mul", var("IPRED"), bin_("add", num(1), var("EPS(1)"))))]
    inputs = [f"THETA({i})" for i in range(1, 9)] + ["ETA(1)", "ETA(2)", "EPS(1)", "RATE"]
    envs = []
    for _ in range(2):
        vals = rng.sample(PARAM_VALUES, 8)
        env = {f"THETA({i + 1})": list(vals[i]) for i in range(8)}
        env["ETA(1)"] = list(rng.choice([(0, 1), (1, 1), (-1, 1)]))
        env["ETA(2)"] = list(rng.choice([(-2, 1), (2, 1), (1, 1)]))
        env["EPS(1)"] = list(rng.choice([(3, 1), (-1, 1), (1, 2)]))
        env["RATE"] = [5, 1]
        envs.append(env)
    amt = [list(a) for a in rng.sample(AMOUNTS, NCOMP[advan])]
    return {"id": cid, "kind": "advan", "advan": advan, "trans": trans, "prog": prog, "err": err, "amt": amt,
            "obscmt": 0, "dosecmt": dosecmt, "ratemode": ratemode, "envs": envs, "ntheta": 8,
            "scale": scale, "alag": alag, "bio": bio, "cmtmode": cmtmode, "omit_trans1": trans == 1 and rng.random() < 0.3}


def advan_cases(rng: random.Random, first_id, budget=None):
    """All ADVAN x TRANS x {scaling} x {ALAG} x {F} x {rate mode} x {CMT column} combinations (or a seeded sample of
    `budget` of them that still contains every ADVAN/TRANS pair with every scaling)."""
    combos = []
    for advan, trans in ADVAN_TRANS:
        depot = advan in (2, 4, 12)
        for scale in ("none", "Sn", "SC"):
            for has_alag in (False, True):
                for has_bio in (False, True):
                    for ratemode in ("none", "zero", "pos", "m1", "m2"):
                        for cmtmode in (("none", "default", "central") if depot else ("none", "default")):
                            if cmtmode != "none" and ratemode in ("zero",):
                                continue
                            combos.append((advan, trans, scale, has_alag, has_bio, ratemode, cmtmode))
    if budget is not None and budget < len(combos):
        must = {}
        rest = []
        rng.shuffle(combos)
        for c in combos:
            key = (c[0], c[1], c[2])
            if key not in must:
                must[key] = c
            else:
                rest.append(c)
        combos = list(must.values()) + rest[: max(0, budget - len(must))]
    cases = []
    cid = first_id
    for advan, trans, scale, has_alag, has_bio, ratemode, cmtmode in combos:
        dcmt = CENTRAL[advan] if cmtmode == "central" else 1
        others = [n for n in range(1, NCOMP[advan] + 1) if n != dcmt]
        alag = ([dcmt] + ([rng.choice(others)] if others and rng.random() < 0.3 else [])) if has_alag else []
        bio = ([dcmt] + ([rng.choice(others)] if others and rng.random() < 0.3 else [])) if has_bio else []
        cases.append(advan_case(rng, cid, advan, trans, scale, alag, bio, ratemode, cmtmode))
        cid += 1
    return cases


# --------------------------------------------------------------------------- $THETA / $OMEGA / $SIGMA cases

DECIMALS = [(1, 10), (1, 2), (3, 2), (2, 1), (5, 1), (1, 4), (7, 10), (3, 1), (1, 100), (12, 5), (10, 1), (9, 10)]
VARIANCES = [(1, 10), (1, 5), (3, 10), (1, 25), (9, 100), (1, 4), (4, 25), (1, 100), (16, 25), (1, 2)]
SQ_VARIANCES = [(1, 25), (9, 100), (1, 4), (4, 25), (1, 100), (16, 25), (1, 1), (49, 100)]
SDS = [(1, 5), (3, 10), (1, 2), (2, 5), (1, 10), (4, 5), (7, 10)]
CORRS = [(1, 2), (-1, 2), (1, 4), (1, 10), (-3, 10), (0, 1), (3, 5)]


def _b(t, q=None):
    if t == "num":
        return {"t": "num", "n": q[0], "d": q[1]}
    return {"t": t}


def theta_item(rng: random.Random):
    init = Fraction(*rng.choice(DECIMALS))
    if rng.random() < 0.2:
        init = -init
    form = rng.choice([1, 1, 2, 2, 2, 3, 3]) if rng.random() < 0.97 else 4
    fix = rng.random() < 0.3
    n = rng.choice([1, 1, 1, 1, 2, 3])
    low, up = _b("none"), _b("none")
    if form == 1:
        n = 1
    else:
        r = rng.random()
        lo_v = init - Fraction(*rng.choice(DECIMALS))
        up_v = init + Fraction(*rng.choice(DECIMALS))
        if fix and form == 2:
            # FIX inside the parentheses demands bounds equal to the initial value (or absent / infinite)
            lo_v = up_v = init
        if r < 0.25:
            pass  # (init)
        elif r < 0.5:
            low = rng.choice([_b("num", (lo_v.numerator, lo_v.denominator)), _b("ninf")])
        else:
            low = rng.choice([_b("num", (lo_v.numerator, lo_v.denominator))] * 3 + [_b("ninf")])
            up = rng.choice([_b("num", (up_v.numerator, up_v.denominator))] * 3 + [_b("inf")])
        if fix and form == 2 and low["t"] == "ninf":
            low = _b("none") if up["t"] == "none" else low
        if form == 4:
            low = _b("num", (lo_v.numerator, lo_v.denominator))
            up = _b("num", (up_v.numerator, up_v.denominator))
            fix = False
        if rng.random() < 0.06 and not fix and form in (2, 3):
            # implicit FIX: low = init = up
            low = up = _b("num", (init.numerator, init.denominator))
    if n > 1 and fix:
        form, low, up = 2, _b("none"), _b("none")  # (init FIX)xn
    it = {"form": form, "low": low, "up": up, "fix": fix, "n": n,
          "init": _b("none") if form == 4 else _b("num", (init.numerator, init.denominator))}
    if init == 0 and not fix:
        it["init"] = _b("num", (1, 2))
    r = rng.random()
    if r < 0.25:
        it["comment"] = rng.choice(["CL", "V", "TVKA", "pop_value", "1 clearance", ""])
    return it


def omega_records(rng: random.Random, max_records=3):
    recs = []
    last_block = None
    for _ in range(rng.randint(1, max_records)):
        r = rng.random()
        if last_block and r < 0.2:
            recs.append({"type": "same", "size": last_block, "times": rng.choice([1, 1, 2]),
                         "bare": rng.random() < 0.3, "explicit_times": rng.random() < 0.3})
            continue
        if r < 0.55:
            items = []
            for _ in range(rng.randint(1, 3)):
                sd = rng.random() < 0.2
                v = rng.choice(SDS if sd else VARIANCES)
                items.append({"n": v[0], "d": v[1], "sd": sd, "fix": rng.random() < 0.2, "rep": rng.choice([1, 1, 1, 2])})
            recs.append({"type": "diag", "items": items, "diagonal_kw": rng.random() < 0.15})
            last_block = None
            continue
        size = rng.choice([1, 2, 2, 3])
        mode = rng.choice(["cov", "cov", "sdcov", "sdcorr", "varcorr", "chol"])
        vals = []
        if mode == "chol":
            for i in range(1, size + 1):
                for j in range(1, i + 1):
                    vals.append(rng.choice(SDS) if i == j else rng.choice([(1, 10), (-1, 10), (1, 5), (0, 1)]))
        else:
            # a diagonally dominant (hence positive definite) block
            for i in range(1, size + 1):
                for j in range(1, i + 1):
                    if i == j:
                        vals.append(rng.choice(SDS) if mode in ("sdcov", "sdcorr") else rng.choice(SQ_VARIANCES if mode == "varcorr" else VARIANCES))
                    elif mode in ("sdcorr", "varcorr"):
                        vals.append(rng.choice([(1, 4), (-1, 4), (1, 10), (0, 1), (1, 5)]))
                    else:
                        vals.append(rng.choice([(1, 1000), (-1, 1000), (1, 500), (0, 1)]))
        recs.append({"type": "block", "size": size, "vals": [{"n": a, "d": b} for a, b in vals],
                     "sd": mode in ("sdcov", "sdcorr"), "corr": mode in ("sdcorr", "varcorr"), "chol": mode == "chol",
                     "fix": rng.random() < 0.2})
        last_block = size
    return recs


def param_cases(rng: random.Random, n, first_id):
    cases = []
    for i in range(n):
        cases.append({"id": first_id + i, "kind": "params",
                      "thetas": [theta_item(rng) for _ in range(rng.randint(1, 4))],
                      "omegas": omega_records(rng), "sigmas": omega_records(rng, 2)})
    return cases


# --------------------------------------------------------------------------- general linear (ADVAN5/7) and $DES (ADVAN6/13) models

COMP_NAMES = ["DEPOT", "CENTRAL", "PERIPH", "COMP3", "EFFECT", "TRANSIT", "GUT", "LIVER"]


def general_case(rng: random.Random, cid):
    """$MODEL with 2-4 compartments (DEPOT / CENTRAL at any position or absent; DEFDOSE, DEFOBS, NODOSE options), a random
    linear flow graph written either with the Kij / KiTj / Ki0 / KiT0 names of ADVAN5/7 or as $DES right-hand sides."""
    n = rng.choice([2, 3, 3, 4])
    names = rng.sample(COMP_NAMES[:2], rng.choice([0, 1, 2, 2])) + rng.sample(COMP_NAMES[2:], 4)
    names = names[:n] if len(names) >= n else names
    names = names[:n]
    rng.shuffle(names)
    comps = [{"name": nm, "defdose": False, "defobs": False, "nodose": False} for nm in names]
    if rng.random() < 0.35:
        comps[rng.randrange(n)]["defdose"] = True
    if rng.random() < 0.35:
        comps[rng.randrange(n)]["defobs"] = True
    for c in comps:
        if not c["defdose"] and rng.random() < 0.3:
            c["nodose"] = True
    if all(c["nodose"] for c in comps):
        comps[rng.randrange(n)]["nodose"] = False
    # flows: a spanning chain in random order plus extras, at least one output
    order = list(range(1, n + 1))
    rng.shuffle(order)
    edges = {(order[i], order[i + 1]) for i in range(n - 1)}
    for i in range(1, n + 1):
        for j in range(1, n + 1):
            if i != j and rng.random() < 0.2:
                edges.add((i, j))
    outs = {i for i in range(1, n + 1) if rng.random() < 0.4} or {rng.randrange(1, n + 1)}
    edges |= {(i, 0) for i in outs}
    des = rng.random() < 0.45
    advan = rng.choice([6, 13]) if des else rng.choice([5, 5, 7])
    prog, nth = [], 0

    def value():
        nonlocal nth
        if nth < 8:
            nth += 1
            return var(f"THETA({nth})")
        return num(*rng.choice(DEC_VALUES))

    rate_name = {}
    for (i, j) in sorted(edges):
        if des:
            nm = f"R{i}{j}" if rng.random() < 0.7 else rng.choice(["KEL", "KTR", "QQ", "CLV"]) + f"{i}{j}"
        else:
            nm = rng.choice([f"K{i}{j}", f"K{i}T{j}"])
        rate_name[(i, j)] = nm
        e = value()
        if rng.random() < 0.2:
            e = bin_("mul", e, fn("EXP", var("ETA(1)")))
        prog.append(asg(nm, e))
    for k in rng.sample(range(1, n + 1), rng.choice([0, 1, 1, 2])):
        prog.append(asg(f"S{k}", value()))
    alag = rng.sample(range(1, n + 1), rng.choice([0, 0, 1]))
    bio = rng.sample(range(1, n + 1), rng.choice([0, 0, 1]))
    for k in alag:
        prog.append(asg(f"ALAG{k}", value()))
    for k in bio:
        prog.append(asg(f"F{k}", value()))
    desprog = []
    zin = {}
    if des:
        # zero-order production terms (turnover: DADT(i) = KIN - KOUT*A(i)); at least one on a compartment with an output
        for i in range(1, n + 1):
            if rng.random() < 0.3 or (i == min(outs) and rng.random() < 0.6):
                zin[i] = f"KIN{i}"
                prog.append(asg(zin[i], value()))
    if des:
        for i in range(1, n + 1):
            terms = [("+", var(zin[i]))] if i in zin else []
            for (a, b), nm in sorted(rate_name.items()):
                if b == i:
                    terms.append(("+", bin_("mul", var(nm), var(f"A({a})"))))
                if a == i:
                    terms.append(("-", bin_("mul", var(nm), var(f"A({i})"))))
            rng.shuffle(terms)
            e = None
            for sign, t in terms:
                if e is None:
                    e = t if sign == "+" else neg(t, rng.random() < 0.5)
                else:
                    e = bin_("add" if sign == "+" else "sub", e, t)
            desprog.append(asg(f"DADT({i})", e if e is not None else num(0)))
    err = [asg("IPRED", var("F")), asg("Y", bin_("add", var("IPRED"), bin_("mul", var("IPRED"), var("EPS(1)"))))]
    envs = []
    for _ in range(2):
        vals = rng.sample(PARAM_VALUES, 8)
        env = {f"THETA({i + 1})": list(vals[i]) for i in range(8)}
        env["ETA(1)"] = list(rng.choice([(0, 1), (1, 1), (-1, 1)]))
        env["ETA(2)"] = [1, 1]
        env["EPS(1)"] = list(rng.choice([(3, 1), (-1, 1), (1, 2)]))
        env["RATE"] = [5, 1]
        env["T"] = [5, 2]
        envs.append(env)
    amt = [list(a) for a in rng.sample(AMOUNTS, n)]
    return {"id": cid, "kind": "advan", "advan": advan, "trans": 1, "prog": prog, "err": err, "des": desprog, "comps": comps,
            "amt": amt, "obscmt": 0, "dosecmt": 0, "ratemode": "none", "envs": envs, "ntheta": 8,
            "scale": "general", "alag": alag, "bio": bio, "cmtmode": "none", "omit_trans1": True, "edges": sorted(edges)}


def general_cases(rng: random.Random, first_id, n):
    return [general_case(rng, first_id + i) for i in range(n)]
