"""C12 helper: a fresh interpreter (its own PYTHONHASHSEED) that computes content hashes.

usage: python -m harness.c12_child <in.pickle> <out.pickle>
in : {"models": [pickle bytes of a pharmpy Model, ...], "recipes": [recipe, ...]}
out: {"seed": PYTHONHASHSEED, "probe": hash("pharmpy"), "keys": [str(ModelHash(m)) | "raised:<Type>", ...],
      "dicts": [sha of json.dumps(m.to_dict()), ...], "rebuilt": [(pickle bytes | None, key), ...],
      "pickle_trips": RoundTrip events (the parent's pickle, with its cached hashes, against the same content here)}
The recipes are rebuilt HERE (read_model + transformations under this process's hash seed), hashed here, and sent back
so that the parent can classify them with pharmpy's own ==.
"""
from __future__ import annotations

import hashlib
import json
import os
import pickle
import sys


def main(inp: str, out: str) -> int:
    from . import core

    core.use_repo()
    import pharmpy.modeling  # noqa: F401
    from pharmpy.workflows.hashing import ModelHash

    from . import c12_keys as K

    data = pickle.load(open(inp, "rb"))
    import pharmpy

    res = {"seed": os.environ.get("PYTHONHASHSEED"), "probe": hash("pharmpy"), "keys": [], "dicts": [], "rebuilt": [],
           "conf_token": str(pharmpy.conf.missing_data_token)}
    for b in data["models"]:
        try:
            m = pickle.loads(b)
            res["keys"].append(str(ModelHash(m)))
        except Exception as e:
            res["keys"].append("raised:" + type(e).__name__)
            res["dicts"].append("")
            continue
        try:
            res["dicts"].append(hashlib.sha256(json.dumps(m.to_dict()).encode()).hexdigest()[:12])
        except Exception as e:
            res["dicts"].append("raised:" + type(e).__name__)
    res["pickle_trips"] = [] if data.get("no_pickle_trips") else K.pickle_trip_events(data["models"], data.get("hists", [""] * len(data["models"])))
    # the resampling-like sequence, here with every candidate kept alive (and in the opposite order)
    res["replicates"] = []
    if data.get("replicates") and data["models"]:
        res["replicates"] = K.replicate_keys(pickle.loads(data["models"][data.get("replicate_base", 0)]), data["replicates"], keep_alive=True)
    for rec in data["recipes"]:
        try:
            m = K.build_recipe(rec)
            res["rebuilt"].append((pickle.dumps(m), str(ModelHash(m))))
        except Exception as e:
            res["rebuilt"].append((None, "raised:" + type(e).__name__ + ":" + str(e)[:100]))
    pickle.dump(res, open(out, "wb"))
    return 0


if __name__ == "__main__":
    sys.exit(main(sys.argv[1], sys.argv[2]))
