"""C19 - Ranking, selection criteria and result statistics follow their definitions (the ranking half).

spec -> code.  spec/rank/Rank.tla enumerates candidate sequences (base + <= 4 candidates drawn from a pool of abstract
models: OFV incl. NaN, parameter structure, minimisation flags, termination cause, warnings, significant digits, RSEs)
and configurations (rank type, BIC type, cut-off, strictness expression, penalties, LRT parent map) and emits for every
case the expected table: who is eligible, rank value / delta (exact integers in milli units; BIC as integer coefficients
of ln n_obs, ln n_ind), rank with ties sharing a rank, the set of admissible best models; for (parent, children, alpha)
the LRT cut-off / test / best_of_* results; for every parameter structure the counts behind AIC and the four BICs.

This driver realises every abstract model as a real pharmpy model (pheno with parameters fixed / added / etas removed)
with a synthetic ModelfitResults, renders the strictness AST as text, calls rank_models, summarize_tool,
is_strictness_fulfilled, calculate_aic, calculate_bic, lrt.* and compares with TLC's rows.

The resampling statistics half of C19 (bootstrap / cdd / simeval / shrinkage / delta method) is floating-point linear
algebra and is NOT decided here (DESIGN section 5).
"""
from __future__ import annotations

import json
import math
import random
import shutil
from collections import Counter

from . import c19_casestats, core

SPEC = core.SPEC / "rank"

# ------------------------------------------------------------------------------------------------ descriptors

def _d(thCL=("est",), thV=("est", "est"), thP=(), etaCL="est", etaV="est", sig="est", block="none", etaP="none", iov="none"):
    return {"thCL": list(thCL), "thV": list(thV), "thP": list(thP), "etaCL": etaCL, "etaV": etaV, "sig": sig,
            "block": block, "etaP": etaP, "iov": iov}


# block: joint IIV distribution - "est" (ETA_CL, ETA_VC; 1 estimated covariance), "fix" (the whole block fixed; pharmpy
# refuses to fix only part of a block), "est3" (ETA_CL, ETA_VC, ETA_QP1; 3 covariances); etaP: "diag" = etas on QP1, VP1;
# iov: "est" = inter-occasion variability on CL (one OMEGA_IOV, not an IIV omega)
DESCS = [
    _d(),  # 1 pheno
    _d(thCL=["fix"]),  # 2
    _d(etaCL="fix0"),  # 3
    _d(etaCL="fixnz"),  # 4
    _d(etaCL="none"),  # 5
    _d(thP=["est", "est"]),  # 6
    _d(thCL=["est", "est"]),  # 7
    _d(sig="fix"),  # 8
    _d(thCL=["est", "est"], thV=["est", "fix"], thP=["est", "est"], etaCL="none", etaV="fix0"),  # 9
    _d(thP=["est", "fix"], etaV="none"),  # 10
    _d(thCL=["est", "est"], thP=["est", "est"]),  # 11
    _d(thV=["fix", "fix"], etaCL="none", etaV="fixnz"),  # 12
    _d(block="est"),  # 13 full 2x2 block, covariance estimated
    _d(block="fix", etaCL="fixnz", etaV="fixnz"),  # 14 fixed block
    _d(thP=["est", "est"], etaP="diag"),  # 15 etas on the peripheral parameters
    _d(thP=["est", "est"], etaP="diag", block="est3"),  # 16 3x3 block + one diagonal eta
    _d(iov="est"),  # 17 IOV on CL
    _d(block="est", iov="est"),  # 18 (add_iov raises AssertionError after add_covariate_effect on the same parameter)
    _d(thP=["est", "est"], etaP="diag", block="est", sig="fix"),  # 19
    _d(thCL=["fix"], thP=["est", "fix"], etaP="diag", block="est3", iov="est"),  # 20
]

_REAL: dict = {}


def realise(di: int):
    """Descriptor (1-based index) -> pharmpy model derived from pheno."""
    if di in _REAL:
        return _REAL[di]
    from pharmpy.modeling import (
        add_covariate_effect,
        add_iiv,
        add_iov,
        convert_model,
        create_joint_distribution,
        fix_parameters,
        fix_parameters_to,
        load_example_model,
        remove_iiv,
        set_peripheral_compartments,
    )

    d = DESCS[di - 1]
    m = load_example_model("pheno")
    names = {"thCL": ["POP_CL", "POP_CLAPGR"], "thV": ["POP_VC", "COVAPGR"], "thP": ["POP_QP1", "POP_VP1"]}
    tofix = [names[gk][i] for gk in names for i, st in enumerate(d[gk]) if st == "fix"]
    for eta, omega, etaname in (("etaCL", "IIV_CL", "ETA_CL"), ("etaV", "IIV_VC", "ETA_VC")):
        if d[eta] == "fix0":
            m = fix_parameters_to(m, {omega: 0})
        elif d[eta] == "fixnz":
            tofix.append(omega)
        elif d[eta] == "none":
            m = remove_iiv(m, [etaname])
    # (the covariate effect is added after the etas are removed: remove_iiv drops a later `CL = CL*CLAPGR`)
    if len(d["thCL"]) == 2:
        m = add_covariate_effect(m, "CL", "APGR", "exp")
    if d["thP"]:
        m = set_peripheral_compartments(m, 1)
    if d["etaP"] == "diag":
        m = add_iiv(m, ["QP1", "VP1"], "exp")
    if d["block"] in ("est", "fix"):
        m = create_joint_distribution(m, ["ETA_CL", "ETA_VC"])
        if d["block"] == "fix":
            tofix.append("IIV_CL_IIV_VC")
    elif d["block"] == "est3":
        m = create_joint_distribution(m, ["ETA_CL", "ETA_VC", "ETA_QP1"])
    if d["iov"] == "est":
        m = add_iov(m, "APGR", ["CL"])
    if d["sig"] == "fix":
        tofix.append("SIGMA")
    if tofix:
        m = fix_parameters(m, tofix)
    # sanity of the realisation (machinery, not verdict): the structure is what the descriptor says
    pn = m.parameters.names
    used = {str(x) for x in m.statements.free_symbols}
    if not set(pn) <= used | set(m.random_variables.parameter_names):
        raise core.MachineryError(f"descriptor {di}: parameters {set(pn) - used} are not used by the model")
    ncov = {"none": 0, "est": 1, "fix": 1, "est3": 3}[d["block"]]
    want = (len(d["thCL"]) + len(d["thV"]) + len(d["thP"]) + sum(1 for e in ("etaCL", "etaV") if d[e] != "none")
            + (2 if d["etaP"] == "diag" else 0) + ncov + (1 if d["iov"] == "est" else 0) + 1)
    nest = (sum(st == "est" for gk in names for st in d[gk]) + sum(1 for e in ("etaCL", "etaV") if d[e] == "est")
            + (2 if d["etaP"] == "diag" else 0) + (ncov if d["block"] in ("est", "est3") else 0) + (1 if d["iov"] == "est" else 0)
            + (1 if d["sig"] == "est" else 0))
    if len(pn) != want or len(m.parameters.nonfixed) != nest:
        raise core.MachineryError(f"descriptor {di} realised with parameters {[(p.name, p.fix) for p in m.parameters]}, "
                                  f"expected {want} parameters, {nest} estimated")
    # a generic model: the criteria are format independent and the NONMEM code generation that every internal
    # transformation of a NONMEM model triggers (replace_non_random_rvs inside calculate_bic) costs 0.2 s per call
    m = convert_model(m, "generic")
    _REAL[di] = m
    return m


# ------------------------------------------------------------------------------------------------ strictness ASTs

ATOMS = ["minimization_successful", "rounding_errors", "maxevals_exceeded", "final_zero_gradient"]


def atom(n):
    return {"op": "atom", "name": n}


def cmp_(name, rel, val):
    return {"op": "cmp", "name": name, "rel": rel, "val": val}


def and_(l, r):
    return {"op": "and", "l": l, "r": r}


def or_(l, r):
    return {"op": "or", "l": l, "r": r}


def not_(x):
    return {"op": "not", "x": x}


EMPTY = {"op": "empty"}
DEFAULT_STRICT = or_(atom("minimization_successful"), and_(atom("rounding_errors"), cmp_("sigdigs", ">=", 1)))
FIXED_STRICT = [
    atom("minimization_successful"),
    DEFAULT_STRICT,
    and_(atom("minimization_successful"), cmp_("rse", "<", 4)),
    EMPTY,
    or_(atom("minimization_successful"), and_(atom("rounding_errors"), atom("final_zero_gradient"))),  # a or b and c
    and_(not_(atom("final_zero_gradient")), or_(atom("minimization_successful"), atom("maxevals_exceeded"))),
    and_(or_(atom("minimization_successful"), atom("rounding_errors")), cmp_("sigdigs", ">=", 30)),
    not_(and_(atom("rounding_errors"), cmp_("sigdigs", "<", 30))),
]


def random_strict(rng, depth=0):
    r = rng.random()
    if depth >= 3 or r < 0.35:
        if rng.random() < 0.65:
            return atom(rng.choice(ATOMS))
        if rng.random() < 0.7:
            return cmp_("sigdigs", rng.choice(["<", "<=", ">", ">=", "==", "!="]), rng.choice([1, 25, 30, 40]))
        return cmp_("rse", rng.choice(["<", "<=", ">", ">=", "=="]), rng.choice([2, 4, 6]))
    if r < 0.5:
        return not_(random_strict(rng, depth + 1))
    if r < 0.75:
        return and_(random_strict(rng, depth + 1), random_strict(rng, depth + 1))
    return or_(random_strict(rng, depth + 1), random_strict(rng, depth + 1))


def _num(t):
    return str(t // 10) if t % 10 == 0 else f"{t / 10:g}"


def render_strict(e, rng=None, parent=0):
    """AST -> text with Python's precedence (or < and < not < comparison); random redundant parentheses / case."""
    op = e["op"]
    if op == "empty":
        return ""
    if op == "atom":
        s, p = e["name"], 4
    elif op == "cmp":
        sp = " " if rng is None or rng.random() < 0.7 else ""
        s, p = f"{e['name']}{sp}{e['rel']}{sp}{_num(e['val'])}", 4
    elif op == "not":
        s, p = "not " + render_strict(e["x"], rng, 3), 3
    elif op == "and":
        s, p = render_strict(e["l"], rng, 2) + " and " + render_strict(e["r"], rng, 2), 2
    else:
        s, p = render_strict(e["l"], rng, 1) + " or " + render_strict(e["r"], rng, 1), 1
    if p < parent or (rng is not None and parent > 0 and rng.random() < 0.15):
        s = "(" + s + ")"
    if parent == 0 and rng is not None and rng.random() < 0.15:
        s = s.upper()
    return s


# ------------------------------------------------------------------------------------------------ cases for TLC


def random_model(rng):
    return {
        "d": rng.randint(1, len(DESCS)),
        "ofv": rng.choice([0, 80, 90, 90, 95, 95, 100, 100]),
        "ms": rng.random() < 0.65,
        "tc": rng.choice(["none", "none", "rounding_errors", "maxevals_exceeded"]),
        "fzg": rng.random() < 0.25,
        "sd": rng.choice([1, 25, 30, 40, -1]),
        "rse": rng.choice([[1, 3], [2, 6], [4, 4], [1, 1], [4, 6], [2, 4], [6, 7, 8], [3, 4, 5]]),
    }


def M(d, ofv, ms=True, tc="none", fzg=False, sd=30, rse=(1, 3)):
    return {"d": d, "ofv": ofv, "ms": ms, "tc": tc, "fzg": fzg, "sd": sd, "rse": list(rse)}


def cfg(rt, bt="mixed", cutoff=None, strict=None, pen=None, parents="base", **flags):
    if cutoff is None:
        co = {"kind": "none"}
    elif isinstance(cutoff, tuple):
        co = {"kind": "pair", "a1": cutoff[0], "a2": cutoff[1]}
    elif isinstance(cutoff, str):
        co = {"kind": "val", "a1": cutoff}
    else:
        co = {"kind": "val", "v": int(cutoff)}
    c = {"rt": rt, "bt": bt if rt == "bic" else "none", "cutoff": co,
         "strict": strict if strict is not None else atom("minimization_successful"), "pen": pen or [], "parents": parents}
    c.update(flags)
    return c


CORE_GROUPS = [
    # ties, NaN OFV, failed minimisation; ofv / aic / lrt with and without cut-off
    {"models": [M(1, 100), M(6, 90), M(7, 95), M(1, 95), M(5, 0), M(2, 90, ms=False)],
     "cfgs": [cfg("ofv"), cfg("ofv", cutoff=3840), cfg("aic"), cfg("aic", cutoff=1000), cfg("lrt"), cfg("lrt", cutoff="0.01"),
              cfg("ofv", strict=EMPTY, strict_none=True), cfg("bic", "mixed", omit_bt=True)],
     "maxLen": 3},
    # the four BIC types on structures with different fixed / random counts; penalties
    {"models": [M(1, 100), M(3, 95), M(9, 90), M(6, 95), M(12, 100)],
     "cfgs": [cfg("bic", "mixed"), cfg("bic", "fixed"), cfg("bic", "random"), cfg("bic", "iiv"),
              cfg("bic", "mixed", cutoff=0, pen=[0, 3, 0, 6]), cfg("aic", pen=[5, 0, 0, 0])],
     "maxLen": 3},
    # strictness: base model failing, compound expressions
    {"models": [M(1, 100, ms=False), M(6, 90, ms=False, tc="rounding_errors", sd=1), M(7, 95, fzg=True),
                M(4, 80, ms=False, tc="rounding_errors", sd=25, rse=(2, 6)), M(1, 90, tc="maxevals_exceeded", ms=False)],
     "cfgs": [cfg("ofv", strict=DEFAULT_STRICT), cfg("ofv", cutoff=3840, strict=DEFAULT_STRICT), cfg("aic", strict=FIXED_STRICT[2]),
              cfg("lrt", strict=FIXED_STRICT[4]), cfg("ofv", strict=FIXED_STRICT[5]), cfg("aic", cutoff=0, strict=FIXED_STRICT[7])],
     "maxLen": 4},
    # block IIV structures (estimated / fixed covariances, 3x3 block), etas on peripheral parameters, IOV: the BIC variants
    # count different subsets of the OMEGA elements
    {"models": [M(1, 100), M(13, 95), M(14, 95), M(16, 90), M(17, 100), M(18, 90)],
     "cfgs": [cfg("bic", "iiv"), cfg("bic", "mixed"), cfg("bic", "random"), cfg("bic", "fixed"), cfg("aic"), cfg("lrt"),
              cfg("bic", "iiv", cutoff=0)],
     "maxLen": 3},
    # every comparison operator on a NaN attribute (sigdigs of a failed run) and on a multi-valued attribute (rse vectors
    # below / straddling / on / above the limit 0.4): "all elements satisfy", NaN satisfies nothing but !=
    {"models": [M(1, 100), M(6, 90, ms=False, tc="rounding_errors", sd=-1, rse=(2, 6)), M(7, 95, rse=(4, 4)),
                M(1, 95, ms=False, tc="rounding_errors", sd=30, rse=(1, 3)), M(5, 90, rse=(6, 7, 8)), M(2, 80, sd=-1, rse=(4, 6))],
     "cfgs": [cfg("ofv", strict=DEFAULT_STRICT)]
             + [cfg("ofv", strict=cmp_("sigdigs", rel, 30)) for rel in ("<", "<=", ">", ">=", "==", "!=")]
             + [cfg("ofv", strict=cmp_("rse", rel, 4)) for rel in ("<", "<=", ">", ">=", "==")]
             + [cfg("aic", strict=or_(atom("minimization_successful"), cmp_("sigdigs", ">=", 1))),
                cfg("ofv", strict=and_(atom("minimization_successful"), not_(cmp_("rse", ">=", 4))))],
     "maxLen": 2},
    # LRT with parent chains, negative degrees of freedom, two-sided cut-off
    {"models": [M(6, 100), M(1, 100), M(11, 90), M(5, 100), M(7, 95), M(6, 0)],
     "cfgs": [cfg("lrt"), cfg("lrt", parents="chain"), cfg("lrt", cutoff=("0.01", "0.05"), parents="chain"),
              cfg("lrt", cutoff="0.05", strict=DEFAULT_STRICT)],
     "maxLen": 4},
]


def build_groups(tier, seed):
    rng = random.Random(seed * 9176 + 3)
    groups = [dict(g, maxLen=4 if tier == "thorough" else g["maxLen"]) for g in CORE_GROUPS]
    n_extra, npool, ncfg, maxlen = {"quick": (4, 5, 5, 3), "thorough": (12, 5, 6, 4)}[tier]
    for gi in range(n_extra):
        models = [random_model(rng) for _ in range(npool)]
        if rng.random() < 0.5:
            models[0]["ms"], models[0]["ofv"] = True, rng.choice([95, 100])
        cfgs = []
        for _ in range(ncfg):
            rt = rng.choice(["ofv", "aic", "bic", "bic", "lrt", "lrt"])
            strict = rng.choice(FIXED_STRICT) if rng.random() < 0.4 else random_strict(rng)
            pen = rng.choice([[], [], [], [0, 2, 0, 7, 1], [3, 0, 0, 0, 0]])
            if rt == "lrt":
                cut = rng.choice([None, None, "0.05", "0.01", ("0.05", "0.01"), ("0.01", "0.05")])
                cfgs.append(cfg(rt, cutoff=cut, strict=strict, pen=pen, parents=rng.choice(["base", "chain"])))
            else:
                cut = rng.choice([None, None, 0, 3840, 5000, 10000])
                cfgs.append(cfg(rt, rng.choice(["mixed", "fixed", "random", "iiv"]), cutoff=cut, strict=strict, pen=pen))
        groups.append({"models": models, "cfgs": cfgs, "maxLen": maxlen + (1 if tier == "thorough" and gi % 4 == 0 else 0)})
    return groups


def build_lrt(tier, seed):
    rng = random.Random(seed * 331 + 9)
    pool = [{"d": 1, "ofv": 100}, {"d": 6, "ofv": 95}, {"d": 7, "ofv": 96}, {"d": 5, "ofv": 105}, {"d": 11, "ofv": 90},
            {"d": 6, "ofv": 0}, {"d": 1, "ofv": 100}]
    for _ in range({"quick": 2, "thorough": 5}[tier]):
        pool.append({"d": rng.randint(1, len(DESCS)), "ofv": rng.choice([80, 90, 94, 96, 100, 103, 107])})
    return {"pool": pool, "maxLen": {"quick": 3, "thorough": 4}[tier]}


def _tlc(tier, seed, v, nobs, nind):
    groups = build_groups(tier, seed)
    lrt = build_lrt(tier, seed)
    d = core.scratch("c19")
    try:
        (d / "groups.json").write_text(json.dumps(groups))
        (d / "descs.json").write_text(json.dumps(DESCS))
        (d / "lrt.json").write_text(json.dumps(lrt))
        (d / "data.json").write_text(json.dumps({"lnobs": round(1000 * math.log(nobs)), "lnind": round(1000 * math.log(nind))}))
        res = core.run_tlc(SPEC / "Rank.tla", SPEC / "Rank.cfg", workers=16, timeout=3000,
                           env={"GROUPS": d / "groups.json", "DESCS": d / "descs.json", "LRT": d / "lrt.json", "DATA": d / "data.json"})
    finally:
        shutil.rmtree(d, ignore_errors=True)
    core.require_ok(res, "Rank.tla")
    if res.violated:
        raise core.MachineryError(f"Rank.tla: design-level theorem {res.violated} violated:\n" + "\n".join(res.trace[-2:])[:3000])
    core.require_actions(res, ["DoAddModel", "DoRank", "DoTest", "DoDescribe"], "Rank.tla")
    core.tlc_stats_into(v, res)
    ranks = [c for t, c in res.prints if t == "RANK"]
    lrts = [c for t, c in res.prints if t == "LRT"]
    descs = [c for t, c in res.prints if t == "DESC"]
    if not ranks or not lrts or len(descs) != len(DESCS):
        raise core.MachineryError(f"Rank.tla emitted {len(ranks)} rank, {len(lrts)} lrt, {len(descs)} descriptor cases")
    v.add_coverage(rank_tlc={"groups": len(groups), "rank_cases": len(ranks), "lrt_cases": len(lrts), "descriptors": len(descs),
                             "states": res.distinct, "wall_s": round(res.wall, 1)})
    return groups, lrt, ranks, lrts, descs


# ------------------------------------------------------------------------------------------------ replay


def _mfr(am, model):
    import pandas as pd
    from pharmpy.workflows.results import ModelfitResults

    names = model.parameters.names
    rse = pd.Series([x / 10 for x in am["rse"]], index=names[: len(am["rse"])])
    return ModelfitResults(
        ofv=float("nan") if am["ofv"] == 0 else float(am["ofv"]),
        minimization_successful=am["ms"],
        termination_cause=None if am["tc"] == "none" else am["tc"],
        significant_digits=float("nan") if am["sd"] < 0 else am["sd"] / 10,
        warnings=["final_zero_gradient"] if am["fzg"] else [],
        relative_standard_errors=rse,
    )


def _isnan(x):
    return x is None or (isinstance(x, float) and math.isnan(x))


def check_rank(arg):
    group, case, nobs, nind, seed = arg
    from pharmpy.tools.common import summarize_tool
    from pharmpy.tools.run import is_strictness_fulfilled, rank_models
    from pharmpy.workflows import ModelEntry

    rng = random.Random(seed)
    c = group["cfgs"][case["cfg"] - 1]
    ams = [group["models"][i - 1] for i in case["ms"]]
    models = [realise(am["d"]).replace(name=f"m{i}") for i, am in enumerate(ams, 1)]
    results = [_mfr(am, m) for am, m in zip(ams, models)]
    strict_text = render_strict(c["strict"], rng)
    strictness = None if c.get("strict_none") else strict_text
    cut = c["cutoff"]
    if cut["kind"] == "none":
        cutoff = None
    elif c["rt"] == "lrt":
        cutoff = float(cut["a1"]) if cut["kind"] == "val" else (float(cut["a1"]), float(cut["a2"]))
    else:
        cutoff = cut["v"] / 1000
    penalties = [float(x) for x in c["pen"][: len(models)]] if c["pen"] else None
    kwargs = {}
    if c["rt"] == "bic" and not c.get("omit_bt"):
        kwargs["bic_type"] = c["bt"]
    parent_dict = None
    if c["rt"] == "lrt" and c["parents"] == "chain":
        parent_dict = {f"m{i}": ("m1" if i == 2 else f"m{i - 1}") for i in range(2, len(models) + 1)}
    rec = {"check": "rank", "models": ams, "rank_type": c["rt"], "bic_type": "omitted" if c.get("omit_bt") else c["bt"],
           "cutoff": cut, "strictness": "None" if c.get("strict_none") else strict_text, "penalties": penalties,
           "parents": c["parents"], "stage": "strictness", "outcome": None, "boundary": case["boundary"]}
    rows = case["rows"]
    out = []
    try:
        # is_strictness_fulfilled, model by model
        if strictness is not None:
            for i, (m, r, row) in enumerate(zip(models, results, rows), 1):
                got = bool(is_strictness_fulfilled(m, r, strictness))
                if got != row["ok"]:
                    rec["outcome"] = "strictness"
                    return [("violation", rec, f"is_strictness_fulfilled({strict_text!r}) = {got} for model {ams[i - 1]}, "
                                               f"the expression evaluates to {row['ok']}")]
        rec["stage"] = "rank_models"
        df = rank_models(models[0], results[0], models[1:], results[1:], parent_dict=parent_dict, strictness=strictness,
                         rank_type=c["rt"], cutoff=cutoff, penalties=penalties, **kwargs)
        name = "ofv" if c["rt"] == "lrt" else c["rt"]
        if sorted(df.index) != sorted(m.name for m in models) or list(df.columns) != [f"d{name}", name, "rank"]:
            rec["outcome"] = "table_shape"
            return [("violation", rec, f"rank_models returned index {list(df.index)} columns {list(df.columns)}")]
        if case["boundary"]:
            # a value sits on the cut-off / test boundary: only the strictness exclusions are judged
            for i, row in enumerate(rows, 1):
                if not row["ok"] and not _isnan(float(df.loc[f"m{i}", "rank"])):
                    rec["outcome"] = "failed_model_ranked"
                    return [("violation", rec, f"model m{i} fails the strictness criteria but was ranked")]
            return [("unspecified", rec, None)]
        bad = []
        for i, row in enumerate(rows, 1):
            r = df.loc[f"m{i}"]
            grank, gval, gdelta = float(r["rank"]), float(r[name]), float(r[f"d{name}"])
            a, b = row["coef"]
            val = row["ofv"] + row["pen"] / 1000 + (2 * row["k"] if c["rt"] == "aic" else 0) + a * math.log(nobs) + b * math.log(nind)
            if row["rank"] == 0:
                if not (_isnan(grank) and _isnan(gval) and _isnan(gdelta)):
                    bad.append(f"m{i}: expected unranked (NaN), got rank {grank} value {gval} delta {gdelta}")
                continue
            if _isnan(grank) or int(grank) != row["rank"]:
                bad.append(f"m{i}: rank {grank}, specification {row['rank']}")
            if _isnan(gval) or abs(gval - val) > 1e-8 * max(1, abs(val)):
                bad.append(f"m{i}: {name} {gval}, definition gives {val}")
            if row["delta"]["nan"]:
                if not _isnan(gdelta):
                    bad.append(f"m{i}: delta {gdelta}, expected NaN (base model not eligible)")
            else:
                a1, b1 = rows[0]["coef"]
                ref = rows[0]["ofv"] + rows[0]["pen"] / 1000 + (2 * rows[0]["k"] if c["rt"] == "aic" else 0) + a1 * math.log(nobs) + b1 * math.log(nind)
                if _isnan(gdelta) or abs(gdelta - (ref - val)) > 1e-8 * max(1, abs(ref - val)):
                    bad.append(f"m{i}: delta {gdelta}, definition gives {ref - val}")
        # table order: ranked models first in rank order, failed ones never above an eligible one
        order = [float(x) for x in df["rank"]]
        seen_nan = False
        for x in order:
            if _isnan(x):
                seen_nan = True
            elif seen_nan:
                bad.append("an unranked model is listed above a ranked one")
                break
        ranked = [x for x in order if not _isnan(x)]
        if ranked != sorted(ranked):
            bad.append(f"table not in rank order: {order}")
        if bad:
            rec["outcome"] = "table"
            return [("violation", rec, f"rank_models({c['rt']}, cutoff={cutoff}, strictness={strict_text!r}, penalties={penalties}, "
                                       f"parents={c['parents']}) on {ams}: " + "; ".join(bad[:4]))]
        out.append(("ok", rec, None))
        # best model / parameter counts as the tools compute them (tools/common.py)
        rec2 = dict(rec, check="summarize_tool", stage="summarize_tool", outcome=None)
        if c["rt"] in ("ofv", "aic", "lrt") or not c.get("omit_bt"):
            try:
                mes = [ModelEntry.create(m, modelfit_results=r, parent=models[0]) for m, r in zip(models[1:], results[1:])]
                st = summarize_tool(mes, ModelEntry.create(models[0], modelfit_results=results[0]), c["rt"], cutoff,
                                    c["bt"] if c["rt"] == "bic" else "mixed", strictness, penalties)
            except ValueError as e:
                if "All models fail" in str(e) and not any(row["rank"] for row in rows):
                    st = None
                elif c["rt"] == "lrt" and parent_dict:
                    st = None
                else:
                    raise
            if st is not None and not (c["rt"] == "lrt" and parent_dict):
                bad = []
                for i, row in enumerate(rows, 1):
                    if int(st.loc[f"m{i}", "n_params"]) != row["k"]:
                        bad.append(f"m{i}: n_params {st.loc[f'm{i}', 'n_params']} != {row['k']}")
                    if int(st.loc[f"m{i}", "d_params"]) != row["k"] - rows[0]["k"]:
                        bad.append(f"m{i}: d_params {st.loc[f'm{i}', 'd_params']} != {row['k'] - rows[0]['k']}")
                if st["rank"].isnull().all():
                    if case["best"]:
                        bad.append("no model ranked although some are eligible")
                else:
                    best = st["rank"].idxmin()
                    if int(best[1:]) not in case["best"]:
                        bad.append(f"best model {best}, top-ranked eligible models are {['m%d' % b for b in case['best']]}")
                if bad:
                    rec2["outcome"] = "summary"
                    out.append(("violation", rec2, f"summarize_tool on {ams} ({c['rt']}): " + "; ".join(bad[:4])))
                else:
                    out.append(("ok", rec2, None))
        return out
    except Exception as e:
        rec["outcome"] = type(e).__name__
        return out + [("violation", rec, f"{rec['stage']}({c['rt']}, bic_type={rec['bic_type']}, strictness={rec['strictness']!r}) on {ams}: "
                                         f"{type(e).__name__}: {str(e)[:200]}")]


def check_lrt(arg):
    lrt, case = arg
    from pharmpy.modeling import lrt as L

    pool = [lrt["pool"][i - 1] for i in case["ms"]]
    models = [realise(p["d"]).replace(name=f"m{i}") for i, p in enumerate(pool, 1)]
    ofvs = [float("nan") if p["ofv"] == 0 else float(p["ofv"]) for p in pool]
    alpha = float(case["alpha"])
    rec = {"check": "lrt", "pool": pool, "alpha": case["alpha"], "stage": "cutoff", "outcome": None}
    if case["boundary"]:
        return [("unspecified", rec, None)]
    try:
        bad = []
        for i in range(1, len(models)):
            row = case["rows"][i]
            df = L.degrees_of_freedom(models[0], models[i])
            if df != row["df"]:
                bad.append(f"degrees_of_freedom {df} != {row['df']}")
            cut = L.cutoff(models[0], models[i], alpha)
            if abs(cut - row["cut"] / 1000) > 6e-4:
                bad.append(f"cutoff({row['df']} df, {alpha}) = {cut}, chi-square table {row['cut'] / 1000}")
            rec["stage"] = "test"
            t = bool(L.test(models[0], models[i], ofvs[0], ofvs[i], alpha))
            if t != row["test"]:
                bad.append(f"test(parent ofv {ofvs[0]}, child ofv {ofvs[i]}, df {row['df']}, alpha {alpha}) = {t}, definition {row['test']}")
            b2 = L.best_of_two(models[0], models[i], ofvs[0], ofvs[i], alpha)
            if b2.name != (models[i].name if row["test"] else models[0].name):
                bad.append(f"best_of_two returned {b2.name}")
            if row["df"] > 0 and not math.isnan(ofvs[0]) and not math.isnan(ofvs[i]):
                p = L.p_value(models[0], models[i], ofvs[0], ofvs[i])
                if (p <= alpha) != row["test"]:
                    bad.append(f"p_value {p} vs alpha {alpha} contradicts the quantile test ({row['test']})")
        rec["stage"] = "best_of_many"
        bm = L.best_of_many(models[0], models[1:], ofvs[0], ofvs[1:], alpha)
        if int(bm.name[1:]) not in case["many"]:
            bad.append(f"best_of_many returned {bm.name}, admitted {['m%d' % x for x in case['many']]}")
        if bad:
            rec["outcome"] = "result"
            return [("violation", rec, f"lrt on {pool} alpha {alpha}: " + "; ".join(bad[:4]))]
    except Exception as e:
        rec["outcome"] = type(e).__name__
        return [("violation", rec, f"lrt.{rec['stage']} on {pool}: {type(e).__name__}: {str(e)[:200]}")]
    return [("ok", rec, None)]


def check_desc(arg):
    case, nobs, nind = arg
    from pharmpy.modeling import calculate_aic, calculate_bic

    m = realise(case["d"])
    out = []
    for ofv in (100.0, -37.5):
        rec = {"check": "criteria", "descriptor": DESCS[case["d"] - 1], "criterion": "aic", "outcome": None}
        try:
            got = calculate_aic(m, ofv)
            if abs(got - (ofv + 2 * case["k"])) > 1e-9:
                rec["outcome"] = "value"
                out.append(("violation", rec, f"calculate_aic = {got}, -2LL + 2k = {ofv + 2 * case['k']} (k = {case['k']}) for {rec['descriptor']}"))
            else:
                out.append(("ok", rec, None))
            for bt in ("mixed", "fixed", "random", "iiv"):
                rec = {"check": "criteria", "descriptor": DESCS[case["d"] - 1], "criterion": "bic_" + bt, "outcome": None}
                a, b = case[bt]
                exp = ofv + a * math.log(nobs) + b * math.log(nind)
                got = calculate_bic(m, ofv, type=bt)
                if abs(got - exp) > 1e-9 * max(1, abs(exp)):
                    rec["outcome"] = "value"
                    out.append(("violation", rec, f"calculate_bic({bt}) = {got}, definition -2LL + {a} ln({nobs}) + {b} ln({nind}) = {exp} for {rec['descriptor']}"))
                else:
                    out.append(("ok", rec, None))
            if ofv == 100.0:
                rec = {"check": "criteria", "descriptor": DESCS[case["d"] - 1], "criterion": "bic_default", "outcome": None}
                a, b = case["mixed"]
                got = calculate_bic(m, ofv)
                if abs(got - (ofv + a * math.log(nobs) + b * math.log(nind))) > 1e-9 * 200:
                    rec["outcome"] = "value"
                    out.append(("violation", rec, f"calculate_bic default type = {got}, mixed definition gives {ofv + a * math.log(nobs) + b * math.log(nind)}"))
                else:
                    out.append(("ok", rec, None))
        except Exception as e:
            rec["outcome"] = type(e).__name__
            out.append(("violation", rec, f"{rec['criterion']} for {rec['descriptor']}: {type(e).__name__}: {str(e)[:200]}"))
    return out


def main(tier: str, seed: int) -> int:
    v = core.Verdict("C19", tier, seed)
    v.assumptions = [
        "models are pheno variants (parameters fixed / covariate and peripheral parameters added / etas removed or fixed); "
        "results are synthetic ModelfitResults",
        "BIC reference: random-effects parameters = estimated omegas and the estimated fixed effects of individual parameters that "
        "carry an eta whose variance is not fixed to 0; all other estimated parameters are fixed-effects parameters",
        "values on the cut-off / test boundary (delta == cutoff, dofv == quantile) and the cut-off when the base model itself "
        "is not eligible are unspecified by the documentation: boundary cases are not judged, NaN base => cut-off not applied",
        "NOT decided: the resampling statistics half of the property (bootstrap / cdd / simeval / shrinkage / delta method)",
    ]
    core.use_repo()
    import pharmpy.modeling  # noqa: F401
    import pharmpy.tools.common  # noqa: F401
    import pharmpy.tools.run  # noqa: F401
    from pharmpy.modeling import get_ids, get_observations, load_example_model

    pheno = load_example_model("pheno")
    nobs, nind = len(get_observations(pheno)), len(get_ids(pheno))
    for i in range(1, len(DESCS) + 1):
        realise(i)  # before forking
    groups, lrt, ranks, lrts, descs = _tlc(tier, seed, v, nobs, nind)
    rng = random.Random(seed * 77 + 1)
    budget = {"quick": 8000, "thorough": 400000}[tier]
    heavy_budget = {"quick": 900, "thorough": 6000}[tier]  # BIC mixed re-derives the parameter categories for every model
    rng.shuffle(ranks)
    work, nheavy = [], 0
    for case in ranks:
        c = groups[case["g"] - 1]["cfgs"][case["cfg"] - 1]
        heavy = c["rt"] == "bic" and c["bt"] == "mixed"
        if heavy:
            if nheavy >= heavy_budget:
                continue
            nheavy += 1
        if len(work) >= budget:
            break
        work.append((groups[case["g"] - 1], case, nobs, nind, rng.randrange(1 << 30)))
    work.sort(key=lambda w: (w[1]["g"], w[1]["cfg"]))
    res = core.pmap(check_rank, work, procs=16, chunk=16)
    stat = Counter()
    nontrivial = 0
    for outs, (_, case, _, _, _) in zip(res, work):
        ranked = [r["rank"] for r in case["rows"] if r["rank"]]
        if len(ranked) >= 2 and (len(set(ranked)) < len(ranked) or any(r["rank"] == 0 for r in case["rows"])):
            nontrivial += 1
        for status, rec, what in outs:
            stat[f"{rec['check']}_{status}"] += 1
            if status == "violation":
                v.violation(rec, what)
    lres = core.pmap(check_lrt, [(lrt, c) for c in lrts], procs=16, chunk=8)
    for outs in lres:
        for status, rec, what in outs:
            stat[f"lrt_{status}"] += 1
            if status == "violation":
                v.violation(rec, what)
    for c in descs:
        for status, rec, what in check_desc((c, nobs, nind)):
            stat[f"criteria_{status}"] += 1
            if status == "violation":
                v.violation(rec, what)
    c19_casestats.run(tier, seed, v)
    s0 = work[len(work) // 2]
    c0 = s0[0]["cfgs"][s0[1]["cfg"] - 1]
    v.add_coverage(
        replay=dict(stat), evaluations=sum(stat.values()), distinct_nontrivial=nontrivial,
        traces_validated_against_impl=len(work) + len(lrts) + len(descs), exhaustive=len(work) >= len(ranks),
        rule="every candidate sequence (base + 1..maxLen-1 candidates, repetition allowed) over each group's model pool x every "
             "configuration of the group is a case; non-trivial = at least two ranked models and a tie or an excluded model; "
             "cases beyond the tier budget are sampled by VERIF_SEED",
        samples=[{"models": [s0[0]["models"][i - 1] for i in s0[1]["ms"]], "rank_type": c0["rt"], "cutoff": c0["cutoff"],
                  "strictness": render_strict(c0["strict"]), "expected_rows": [{"rank": r["rank"], "eligible": r["elig"]} for r in s0[1]["rows"]],
                  "best": s0[1]["best"]}],
    )
    return v.finish(min_traces=500)


def replay(path: str) -> int:
    core.use_repo()
    data = json.loads(open(path).read())
    case = data["case"]
    print(json.dumps(data, indent=1)[:3000])
    if case.get("check") not in ("rank", "summarize_tool"):
        return 0
    from pharmpy.tools.run import rank_models

    ams = case["models"]
    models = [realise(am["d"]).replace(name=f"m{i}") for i, am in enumerate(ams, 1)]
    results = [_mfr(am, m) for am, m in zip(ams, models)]
    cut = case["cutoff"]
    if cut["kind"] == "none":
        cutoff = None
    elif case["rank_type"] == "lrt":
        cutoff = float(cut["a1"]) if cut["kind"] == "val" else (float(cut["a1"]), float(cut["a2"]))
    else:
        cutoff = cut["v"] / 1000
    kwargs = {} if case["bic_type"] in ("omitted", "none") else {"bic_type": case["bic_type"]}
    parent_dict = None
    if case["rank_type"] == "lrt" and case["parents"] == "chain":
        parent_dict = {f"m{i}": ("m1" if i == 2 else f"m{i - 1}") for i in range(2, len(models) + 1)}
    try:
        df = rank_models(models[0], results[0], models[1:], results[1:], parent_dict=parent_dict,
                         strictness=None if case["strictness"] == "None" else case["strictness"], rank_type=case["rank_type"],
                         cutoff=cutoff, penalties=case["penalties"], **kwargs)
        print("now:\n" + df.to_string())
    except Exception as e:
        print("now:", type(e).__name__, e)
    return 0
