"""C19, discrete part of the resampling / diagnostics half: alignment of per-case statistics with case labels.

spec/rank/CaseStats.tla lets the case-deleted runs (cdd) / bootstrap replicates finish in any order, with or without
results, and emits for every terminal state the reference table: the statistic of every label computed from ITS OWN run
(NaN for a run without results).  The inputs are small integers (two parameters, identity covariance of the full fit,
diagonal covariances of the case-deleted fits, Pythagorean differences) so that the statistics are exact; the driver feeds
the same runs to tools.cdd.results.calculate_results / tools.bootstrap.results.calculate_results and compares every cell.
"""
from __future__ import annotations

import json
import math
import random
import shutil
import warnings
from collections import Counter

from . import core

SPEC = core.SPEC / "rank"
DELTAS = [(3, 4), (0, 0), (5, 12), (-4, 3), (6, 8), (0, 5), (-3, -4), (8, 15), (12, -5), (-6, 8), (7, 24), (4, 0)]
COVS = [[1, 4], [9, 1], [4, 4], [1, 1], [16, 1], []]


def build_input(tier, seed):
    rng = random.Random(seed * 4441 + 7)
    base = {"est": [10, 20], "ofv": 100, "iofv": None}
    n_cdd, npool_cdd, n_boot, npool_boot = {"quick": (4, 4, 3, 5), "thorough": (5, 5, 4, 6)}[tier]

    def pool(k, nind, n_inc):
        out = []
        deltas = [DELTAS[0], DELTAS[1]] + rng.sample(DELTAS[2:], k - 2)  # one unchanged estimate, one 3-4-5
        for i, (dx, dy) in enumerate(deltas):
            out.append({"est": [10 + dx, 20 + dy], "ofv": rng.choice([60, 70, 75, 80, 90]), "cov": COVS[-1] if i == k - 1 else rng.choice(COVS[:-1]),
                        "dofv": 0 if i == 0 else rng.choice([95, 101, 104, 110]),
                        "inc": [rng.randint(1, nind) for _ in range(n_inc)]})
        return out

    cdd = {"n": n_cdd, "pool": pool(npool_cdd, n_cdd, n_cdd), "base": dict(base, iofv=[rng.choice([20, 25, 30]) for _ in range(n_cdd)])}
    nind = 4
    boot = {"n": n_boot, "pool": pool(npool_boot, nind, nind), "base": dict(base, iofv=[rng.choice([20, 25, 30]) for _ in range(nind)])}
    return {"cdd": cdd, "boot": boot}


def tlc_cases(tier, seed, v):
    inp = build_input(tier, seed)
    d = core.scratch("c19cs")
    try:
        (d / "in.json").write_text(json.dumps(inp))
        res = core.run_tlc(SPEC / "CaseStats.tla", SPEC / "CaseStats.cfg", workers=8, timeout=3000, env={"CASESTATS": d / "in.json"})
    finally:
        shutil.rmtree(d, ignore_errors=True)
    core.require_ok(res, "CaseStats.tla")
    if res.violated:
        raise core.MachineryError(f"CaseStats.tla: {res.violated} violated:\n" + "\n".join(res.trace[-2:])[:2000])
    core.require_actions(res, ["DoFinish", "DoFail"], "CaseStats.tla")
    core.tlc_stats_into(v, res)
    cases = [c for t, c in res.prints if t == "STATS"]
    if not cases:
        raise core.MachineryError("CaseStats.tla emitted no cases")
    v.add_coverage(casestats_tlc={"states": res.distinct, "cdd_cases": sum(c["kind"] == "cdd" for c in cases),
                                  "bootstrap_cases": sum(c["kind"] == "boot" for c in cases), "wall_s": round(res.wall, 1)})
    return inp, cases


def _isnan(x):
    try:
        return x is None or math.isnan(float(x))
    except (TypeError, ValueError):
        return False


def _close(a, b):
    return abs(a - b) <= 1e-9 * max(1.0, abs(a), abs(b))


_BASE = {}


def _base_model():
    if "m" not in _BASE:
        from pharmpy.modeling import load_example_model

        _BASE["m"] = load_example_model("pheno")
    return _BASE["m"]


def check_cdd(arg):
    inp, case = arg
    import numpy as np
    import pandas as pd
    from pharmpy.tools.cdd.results import calculate_results
    from pharmpy.workflows.results import ModelfitResults

    cfg = inp["cdd"]
    n = cfg["n"]
    names = ["PA", "PB"]
    base = cfg["base"]
    ids = list(range(1, n + 1))
    base_res = ModelfitResults(ofv=float(base["ofv"]), parameter_estimates=pd.Series([float(x) for x in base["est"]], index=names),
                               covariance_matrix=pd.DataFrame(np.eye(2), index=names, columns=names),
                               individual_ofv=pd.Series([float(x) for x in base["iofv"]], index=pd.Index(ids, name="ID")))
    bm = _base_model()
    models = [bm.replace(name=f"cdd_{i}") for i in ids]
    results = []
    for o in case["out"]:
        if o < 0:
            results.append(None)
            continue
        r = cfg["pool"][o - 1]
        cov = pd.DataFrame(np.diag([float(x) for x in r["cov"]]), index=names, columns=names) if r["cov"] else None
        results.append(ModelfitResults(ofv=float(r["ofv"]), parameter_estimates=pd.Series([float(x) for x in r["est"]], index=names),
                                       covariance_matrix=cov))
    failed = [i for i, o in enumerate(case["out"], 1) if o < 0]
    rec = {"check": "cdd", "out": case["out"], "n_failed": len(failed), "failed_before_last": bool(failed) and min(failed) < n,
           "all_failed": len(failed) == n, "pool": cfg["pool"], "base": base, "outcome": None}
    try:
        with warnings.catch_warnings():
            warnings.simplefilter("ignore")
            res = calculate_results(bm, base_res, models, results, "ID", [[i] for i in ids])
        cr = res.case_results
        if list(cr.index) != ids:
            rec["outcome"] = "labels"
            return ("violation", rec, f"case_results index {list(cr.index)} != cases {ids}")
        bad = []
        for i, row in enumerate(case["rows"], 1):
            g = cr.loc[i]

            def cmp(col, exp, square):
                got = g[col]
                if exp["nan"]:
                    if not _isnan(got):
                        bad.append(f"case {i}: {col} = {got}, expected NaN (run without results)")
                elif _isnan(got) or not _close(float(got) ** 2 if square else float(got), exp["v"]):
                    bad.append(f"case {i}: {col} = {got}, its own run gives {'sqrt of ' if square else ''}{exp['v']}")

            cmp("cook_score", row["cookSq"], True)
            cmp("covariance_ratio", row["ratioSq"], True)
            cmp("delta_ofv", row["dofv"], False)
            infl = (not row["dofv"]["nan"]) and row["dofv"]["v"] > 3.86
            if bool(g["dofv_influential"]) != infl:
                bad.append(f"case {i}: dofv_influential = {g['dofv_influential']}, delta_ofv {row['dofv']}")
            if list(g["skipped_individuals"]) != [i]:
                bad.append(f"case {i}: skipped_individuals = {g['skipped_individuals']}")
            j = g["jackknife_cook_score"]
            if not case["allOk"]:
                if not _isnan(j):
                    bad.append(f"case {i}: jackknife_cook_score = {j} although a run has no results")
            elif case["jackDen"] != 0:
                exp = row["jackNum"] / case["jackDen"]
                if _isnan(j) or not _close(float(j) ** 2, exp):
                    bad.append(f"case {i}: jackknife_cook_score = {j}, definition gives sqrt({row['jackNum']}/{case['jackDen']})")
        if bad:
            rec["outcome"] = "table"
            return ("violation", rec, f"cdd calculate_results, runs {case['out']} (-1 = no results): " + "; ".join(bad[:4]))
    except Exception as e:
        rec["outcome"] = type(e).__name__
        return ("violation", rec, f"cdd calculate_results, runs {case['out']}: {type(e).__name__}: {str(e)[:200]}")
    return ("ok", rec, None)


def check_boot(arg):
    inp, case = arg
    import pandas as pd
    from pharmpy.tools.bootstrap.results import calculate_results
    from pharmpy.workflows.results import ModelfitResults

    cfg = inp["boot"]
    n = cfg["n"]
    names = ["PA", "PB"]
    base = cfg["base"]
    ids = list(range(1, len(base["iofv"]) + 1))
    orig = ModelfitResults(ofv=float(base["ofv"]), parameter_estimates=pd.Series([float(x) for x in base["est"]], index=names),
                           individual_ofv=pd.Series([float(x) for x in base["iofv"]], index=pd.Index(ids, name="ID")))
    bm = _base_model()
    rs = [cfg["pool"][o - 1] for o in case["out"]]
    models = [bm.replace(name=f"bs_{i}") for i in range(1, n + 1)]
    results = [ModelfitResults(ofv=float(r["ofv"]), parameter_estimates=pd.Series([float(x) for x in r["est"]], index=names)) for r in rs]
    dofv = [None if r["dofv"] == 0 else ModelfitResults(ofv=float(r["dofv"])) for r in rs]
    rec = {"check": "bootstrap", "out": case["out"], "pool": cfg["pool"], "base": base, "outcome": None}
    try:
        with warnings.catch_warnings():
            warnings.simplefilter("ignore")
            res = calculate_results(models, results, original_results=orig, included_individuals=[r["inc"] for r in rs], dofv_results=dofv)
        bad = []
        pe, ofvs = res.parameter_estimates, res.ofvs
        for i, row in enumerate(case["rows"]):
            if [float(pe.iloc[i][k]) for k in names] != [float(x) for x in row["est"]]:
                bad.append(f"replicate {i + 1}: estimates row {list(pe.iloc[i])}, its own run has {row['est']}")
            for col, exp in (("bootstrap_bootdata_ofv", row["ofv"]), ("original_bootdata_ofv", row["origBoot"]),
                             ("bootstrap_origdata_ofv", row["bootOrig"]), ("delta_bootdata", row["deltaBoot"]), ("delta_origdata", row["deltaOrig"])):
                got = ofvs.iloc[i][col]
                if isinstance(exp, dict):
                    if exp["nan"]:
                        if not _isnan(got):
                            bad.append(f"replicate {i + 1}: {col} = {got}, expected NaN")
                        continue
                    exp = exp["v"]
                if _isnan(got) or not _close(float(got), exp):
                    bad.append(f"replicate {i + 1}: {col} = {got}, definition gives {exp}")
            if float(ofvs.iloc[i]["original_origdata_ofv"]) != float(base["ofv"]):
                bad.append(f"replicate {i + 1}: original_origdata_ofv {ofvs.iloc[i]['original_origdata_ofv']}")
        st = res.parameter_statistics
        for k, nm in enumerate(names):
            mean, var = case["sum"][k] / n, case["nnvar"][k] / (n * (n - 1))
            for col, exp in (("mean", mean), ("median", case["median2"][k] / 2), ("bias", case["nbias"][k] / n), ("stderr", math.sqrt(var))):
                if not _close(float(st.loc[nm, col]), exp):
                    bad.append(f"{nm}: {col} = {st.loc[nm, col]}, definition gives {exp}")
            if mean != 0 and not _close(float(st.loc[nm, "RSE"]), math.sqrt(var) / mean):
                bad.append(f"{nm}: RSE = {st.loc[nm, 'RSE']}, stderr/mean = {math.sqrt(var) / mean}")
            if not _close(float(res.covariance_matrix.loc[nm, nm]), var):
                bad.append(f"covariance[{nm},{nm}] = {res.covariance_matrix.loc[nm, nm]}, definition {var}")
            dist = res.parameter_distribution
            vals = sorted(r["est"][k] for r in rs)
            if float(dist.loc[nm, "min"]) != vals[0] or float(dist.loc[nm, "max"]) != vals[-1] or not _close(float(dist.loc[nm, "median"]), case["median2"][k] / 2):
                bad.append(f"{nm}: distribution min/median/max {dist.loc[nm, 'min']}/{dist.loc[nm, 'median']}/{dist.loc[nm, 'max']}")
        if not _close(float(res.covariance_matrix.loc["PA", "PB"]), case["nncov"] / (n * (n - 1))):
            bad.append(f"covariance[PA,PB] = {res.covariance_matrix.loc['PA', 'PB']}, definition {case['nncov'] / (n * (n - 1))}")
        if bad:
            rec["outcome"] = "table"
            return ("violation", rec, f"bootstrap calculate_results, replicates {case['out']}: " + "; ".join(bad[:4]))
    except Exception as e:
        rec["outcome"] = type(e).__name__
        return ("violation", rec, f"bootstrap calculate_results, replicates {case['out']}: {type(e).__name__}: {str(e)[:200]}")
    return ("ok", rec, None)


# ------------------------------------------------------------------------------------------------ delta method

PNAMES = ["TVCL", "ALPHA", "KA", "BETA"]  # covariance-matrix orders are permuted; alphabetical order is ALPHA, BETA, KA, TVCL


def build_delta(tier, seed):
    rng = random.Random(seed * 911 + 4)
    P = 4
    # covariance = L L^T with a small integer lower-triangular L: symmetric, positive definite, integer
    L = [[(rng.randint(1, 3) if i == j else (rng.randint(-2, 2) if j < i else 0)) for j in range(P)] for i in range(P)]
    cov = [[sum(L[i][k] * L[j][k] for k in range(P)) for j in range(P)] for i in range(P)]
    vals = [rng.choice([2, 3, 5, 7]) for _ in range(P)]
    exprs = [
        [{"c": 2, "vars": [1]}, {"c": -3, "vars": [2]}],  # linear, two parameters
        [{"c": 1, "vars": [1, 3]}],  # product
        [{"c": 1, "vars": [4, 2]}, {"c": 5, "vars": [3]}],  # product + linear, three parameters
        [{"c": 1, "vars": [1]}, {"c": 2, "vars": [2]}, {"c": -1, "vars": [3]}, {"c": 3, "vars": [4]}],
        [{"c": 4, "vars": [2]}],  # single parameter
    ]
    for _ in range({"quick": 2, "thorough": 8}[tier]):
        a, b, c = rng.sample(range(1, P + 1), 3)
        exprs.append([{"c": rng.choice([1, 2, -1]), "vars": [a, b]}, {"c": rng.choice([1, -2, 3]), "vars": [c]}])
    return {"vals": vals, "cov": cov, "exprs": exprs}


def tlc_delta(tier, seed, v):
    inp = build_delta(tier, seed)
    d = core.scratch("c19dm")
    try:
        (d / "in.json").write_text(json.dumps(inp))
        res = core.run_tlc(SPEC / "DeltaMethod.tla", SPEC / "DeltaMethod.cfg", workers=4, timeout=3000, env={"DELTA": d / "in.json"})
    finally:
        shutil.rmtree(d, ignore_errors=True)
    core.require_ok(res, "DeltaMethod.tla")
    if res.violated:
        raise core.MachineryError(f"DeltaMethod.tla: {res.violated} violated:\n" + "\n".join(res.trace[-2:])[:2000])
    core.require_actions(res, ["DoPlace"], "DeltaMethod.tla")
    core.tlc_stats_into(v, res)
    cases = [c for t, c in res.prints if t == "DELTA"]
    if not cases:
        raise core.MachineryError("DeltaMethod.tla emitted no cases")
    v.add_coverage(delta_tlc={"states": res.distinct, "cases": len(cases)})
    return inp, cases


def check_delta(inp, case):
    import pandas as pd
    import sympy
    from pharmpy.internals.math import se_delta_method

    names = [PNAMES[p - 1] for p in case["order"]]
    cov = pd.DataFrame([[float(inp["cov"][p - 1][q - 1]) for q in case["order"]] for p in case["order"]], index=names, columns=names)
    syms = {i + 1: sympy.Symbol(n) for i, n in enumerate(PNAMES)}
    expr = sum(m["c"] * sympy.Mul(*[syms[x] for x in m["vars"]]) for m in inp["exprs"][case["ex"] - 1])
    values = {n: float(x) for n, x in zip(PNAMES, inp["vals"])}
    used = sorted({x for m in inp["exprs"][case["ex"] - 1] for x in m["vars"]})
    mat_order = [PNAMES[p - 1] for p in case["order"] if p in used]
    rec = {"check": "delta_method", "expr": str(expr), "matrix_order": names, "values": values, "cov": inp["cov"], "outcome": None,
           "n_params": len(used), "matrix_order_alphabetical": mat_order == sorted(mat_order)}
    try:
        se = float(se_delta_method(expr, values, cov))
        if not _close(se * se, float(case["var"])):
            rec["outcome"] = "value"
            return ("violation", rec, f"se_delta_method({expr}, covariance listed as {names}) = {se} (se^2 = {se * se}), "
                                      f"gradient^T cov gradient with every parameter on its own row/column = {case['var']}")
    except Exception as e:
        rec["outcome"] = type(e).__name__
        return ("violation", rec, f"se_delta_method({expr}, covariance listed as {names}): {type(e).__name__}: {str(e)[:200]}")
    return ("ok", rec, None)


def run(tier, seed, v):
    dinp, dcases = tlc_delta(tier, seed, v)
    dstat = Counter()
    for c in dcases:
        status, rec, what = check_delta(dinp, c)
        dstat["delta_" + status] += 1
        if status == "violation":
            v.violation(rec, what)
    v.add_coverage(delta_method=dict(dstat), evaluations=len(dcases), traces_validated_against_impl=len(dcases))
    inp, cases = tlc_cases(tier, seed, v)
    import pharmpy.tools.bootstrap.results  # noqa: F401
    import pharmpy.tools.cdd.results  # noqa: F401

    _base_model()
    rng = random.Random(seed * 53 + 2)
    cdd = [c for c in cases if c["kind"] == "cdd"]
    boot = [c for c in cases if c["kind"] == "boot"]
    rng.shuffle(boot)
    boot = boot[: {"quick": 120, "thorough": 1296}[tier]]  # every call draws three plots
    stat = Counter()
    for status, rec, what in core.pmap(check_cdd, [(inp, c) for c in cdd], procs=16, chunk=8):
        stat["cdd_" + status] += 1
        if status == "violation":
            v.violation(rec, what)
    for status, rec, what in core.pmap(check_boot, [(inp, c) for c in boot], procs=16, chunk=2):
        stat["bootstrap_" + status] += 1
        if status == "violation":
            v.violation(rec, what)
    c0 = next((c for c in cdd if not c["allOk"] and any(o > 0 for o in c["out"])), cdd[0])
    v.add_coverage(casestats=dict(stat), evaluations=len(cdd) + len(boot), traces_validated_against_impl=len(cdd) + len(boot),
                   distinct_nontrivial=sum(1 for c in cdd if not c["allOk"] and any(o > 0 for o in c["out"])),
                   samples=[{"cdd_runs": c0["out"], "expected_rows": c0["rows"]}])
