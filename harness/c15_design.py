"""C15 design layer: TLC on spec/lock/PathLock.tla (via MCPathLock.tla) and replay of its behaviours
into the real lock.py under locksim (spec -> code conformance; every replay also yields a trace that is
validated against PathLockAbs by c15_lock.judge)."""
from __future__ import annotations

import json
import random
import shutil

from . import core

SPEC = core.SPEC / "lock"

INVARIANTS = ["Exclusion", "HeldMeansHeld", "NonBlockingNeverWaits", "NoRecursiveGrant", "Quiescent", "Counters", "NoLostWakeup", "QuietJustified"]
ACTIONS = ["TPoolIn", "TAcqSh", "TAcqEx", "TWake", "FdIn", "PlIn", "PAcq", "PKern", "PKGrant", "OpStart", "PRel", "PlOut", "FdOut", "FdClose", "TRelSh", "TPoolOut"]
PENDING_KIND = {
    "TPoolIn": "lock", "TAcqSh": "rlock", "TAcqEx": "rlock", "TWake": "wake", "FdIn": "lock", "PlIn": "lock",
    "PAcq": "lock", "PKern": "lockf", "PKGrant": "kwait", "OpStart": "body", "PRel": "lock", "PlOut": "lock",
    "FdOut": "lock", "FdClose": "close", "TRelSh": "rlock", "TPoolOut": "lock",
}

# (name, NThreads, NProcs, NPaths, Family) -- exhaustive configurations per tier ("for all programs of the family")
CONFIGS = {
    "quick": [
        ("2t1p-one", 2, 1, 1, "one"),
        ("2t2p-one", 2, 2, 1, "one"),
        ("2t1p-upgrade1", 2, 1, 1, "upgrade1"),
        ("2t2p-upgrade1", 2, 2, 1, "upgrade1"),
    ],
    "thorough": [
        ("2t1p-two", 2, 1, 1, "two"),
        ("2t2p-two", 2, 2, 1, "two"),
        ("3t2p-one", 3, 2, 1, "one"),
        ("3t1p-one", 3, 1, 1, "one"),
        ("2t2p-2paths-blocking2", 2, 2, 2, "blocking2"),
    ],
}
LIVE = {"quick": [("live-2t1p-one", 2, 1, 1, "one")], "thorough": [("live-2t2p-one", 2, 2, 1, "one"), ("live-3t2p-one", 3, 2, 1, "one")]}
# driver-chosen random programs: (name, NThreads, NProcs, NPaths, max requests, number of program tuples, mode)
GIVEN = {
    "quick": [("given-3t2p", 3, 2, 1, 2, 10, "exhaustive"), ("sim-3t2p-2paths", 3, 2, 2, 3, 200, "simulate")],
    "thorough": [("given-3t2p", 3, 2, 1, 2, 300, "exhaustive"), ("given-3t2p-2paths", 3, 2, 2, 2, 150, "exhaustive"),
                 ("given-4t2p", 4, 2, 1, 1, 100, "exhaustive"),
                 ("sim-3t2p-2paths", 3, 2, 2, 3, 8000, "simulate"), ("sim-4t2p", 4, 2, 2, 3, 4000, "simulate")],
}


def _cfg(d, name, nt, np_, npaths, family, emit=True, rule="own_zero", given=False):
    lines = [
        "CONSTANTS",
        f"  NThreads = {nt}", f"  NProcs = {np_}", f"  NPaths = {npaths}", f'  Family = "{family}"', f'  NotifyRule = "{rule}"',
        "  Thread <- MCThread", "  Proc <- MCProc", "  Path <- MCPath", "  ProcOf <- MCProcOf", "  ProgramsOf <- MCProgramsOf",
        "INIT HInitGiven" if given else "INIT HInit", "NEXT HNext", "VIEW View",
    ]
    lines += [f"INVARIANT {i}" for i in INVARIANTS]
    if name.endswith("-one") and not given:
        lines.append("INVARIANT EnMatches")
    if emit:
        lines.append("INVARIANT EmitBeh")
    lines.append("CHECK_DEADLOCK FALSE")
    f = d / f"{name}.cfg"
    f.write_text("\n".join(lines) + "\n")
    return f


def _ops(prog):
    out = []
    for op in prog:
        if op["k"] == "rel":
            out.append({"k": "rel"})
        else:
            out.append({"k": "acq", "p": op["p"], "sh": op["sh"], "bl": op["bl"], "re": op["re"]})
    return out


def replay_behaviour(arg):
    """Step the real code along one TLC behaviour. Returns result dict (for judge) + conformance info."""
    beh, seed = arg
    from .c15_lock import Execution

    programs = {i + 1: _ops(p) for i, p in enumerate(beh["prog"])}
    procof = {i + 1: q for i, q in enumerate(beh["procof"])}
    hist = beh["hist"]
    rng = random.Random(seed)
    drift = []
    # the caller's spelling of a path is immaterial: every third replay uses non-canonical spellings
    ex = Execution(programs, procof, spell_seed=(seed if seed % 3 == 0 else 0))
    ex.prestart()

    def chooser(n, en, ex_):
        if n < len(hist) and not drift:
            h = hist[n]
            want = sorted(h["en"])
            if want != en:
                drift.append(f"step {n}: enabled threads {en} != spec {want}")
            elif ex_.sim.pending_kind(h["t"]) != PENDING_KIND[h["a"]]:
                drift.append(f"step {n}: thread {h['t']} is at a '{ex_.sim.pending_kind(h['t'])}' primitive, spec action {h['a']}")
            if h["t"] in en:
                return h["t"]
        elif not drift:
            drift.append(f"step {n}: spec behaviour ended (terminal) but threads {en} are still enabled")
        return rng.choice(en)

    sched = ex.run(chooser)
    if not drift:
        if len(sched) != len(hist):
            drift.append(f"execution stopped after {len(sched)} steps, spec behaviour has {len(hist)}")
        exp_out = {i + 1: list(o) for i, o in enumerate(beh["outcome"])}
        if ex.outcomes != exp_out:
            drift.append(f"outcomes {ex.outcomes} != spec {exp_out}")
        stuck = ex.events[-1]["stuck"]
        if sorted(stuck) != sorted(beh["stuck"]):
            drift.append(f"stuck threads {stuck} != spec {beh['stuck']}")
        kl = {p: {int(q): m for q, m in enumerate(row, 1) if m != "none"} for p, row in beh["klock"].items()}
        kl = {p: d for p, d in kl.items() if d}
        real = {p: {int(q): m for q, m in d.items()} for p, d in ex.final["klock"].items()}
        if kl != real:
            drift.append(f"kernel table {real} != spec {kl}")
    return {"programs": programs, "procof": procof, "schedule": sched, "trace": ex.trace(), "errors": ex.errors,
            "outcomes": ex.outcomes, "drift": drift[:1], "spell_seed": ex.spell_seed}


def run(tier: str, seed: int, v: core.Verdict):
    from . import c15_lock

    core.use_repo()
    d = core.scratch("c15cfg")
    rng = random.Random(seed)
    behs = []
    per_cfg = {}
    try:
        for name, nt, np_, npaths, fam in CONFIGS[tier]:
            cfg = _cfg(d, name, nt, np_, npaths, fam)
            res = core.run_tlc(SPEC / "MCPathLock.tla", cfg, workers=16, timeout=3600, coverage=(name == CONFIGS[tier][0][0]))
            core.require_ok(res, f"PathLock.tla [{name}]")
            if res.violated:
                # the DESIGN violates the property layer: report the counterexample; the verdict still needs the real code
                v.notes.append(f"design-level counterexample in [{name}]: invariant {res.violated} violated by PathLock.tla")
                raise core.MachineryError(
                    f"PathLock.tla [{name}]: design-layer invariant {res.violated} is violated (the specification of the current code "
                    f"no longer satisfies the property layer); last state:\n" + ("\n".join(res.trace[-1:]) if res.trace else ""))
            core.tlc_stats_into(v, res)
            got = [b for tag, b in res.prints if tag == "BEH"]
            per_cfg[name] = {"states": res.distinct, "transitions": res.generated, "depth": res.depth, "terminal_witnesses": len(got), "wall_s": round(res.wall, 1)}
            behs += got
        # liveness under weak fairness (plain spec, no history variable, no constraint)
        for name, nt, np_, npaths, fam in LIVE[tier]:
            cfg = _cfg(d, name, nt, np_, npaths, fam, emit=False)
            txt = cfg.read_text().replace("INIT HInit\nNEXT HNext\nVIEW View\n", "SPECIFICATION FairSpec\nPROPERTY FlatProgramsFinish\n")
            txt = "\n".join(l for l in txt.splitlines() if not l.startswith("INVARIANT")) + "\n"
            cfg.write_text(txt)
            res = core.run_tlc(SPEC / "MCLive.tla", cfg, workers=16, timeout=3600, coverage=False)
            if res.violated:
                raise core.MachineryError(f"PathLock.tla [{name}]: liveness FlatProgramsFinish violated under weak fairness")
            core.require_ok(res, f"PathLock.tla liveness [{name}]")
            per_cfg[name] = {"liveness": "FlatProgramsFinish under WF holds", "states": res.distinct, "wall_s": round(res.wall, 1)}
        from .c15_lock import PATHS, random_program

        for name, nt, np_, npaths, maxreq, num, mode in GIVEN[tier]:
            tuples = []
            for _ in range(num):
                progs = []
                for _t in range(nt):
                    ops = random_program(rng, maxreq, PATHS[:npaths])
                    progs.append([op if op["k"] == "acq" else {"k": "rel", "p": "", "sh": False, "bl": False, "re": False} for op in ops])
                tuples.append(progs)
            pf = d / f"{name}.progs.json"
            pf.write_text(json.dumps(tuples))
            cfg = _cfg(d, name, nt, np_, npaths, "one", given=True)
            if mode == "simulate":
                res = core.run_tlc(SPEC / "MCPathLock.tla", cfg, workers=8, timeout=3000, simulate=f"num={max(1, num // 2)}", depth=400, seed=seed + 1, coverage=False, env={"PROGS": str(pf)})
            else:
                res = core.run_tlc(SPEC / "MCPathLock.tla", cfg, workers=16, timeout=3600, coverage=False, env={"PROGS": str(pf)})
            if res.violated:
                raise core.MachineryError(f"PathLock.tla [{name}]: design-layer invariant {res.violated} violated:\n" + ("\n".join(res.trace[-1:]) if res.trace else ""))
            core.require_ok(res, f"PathLock.tla [{name}]")
            got = [b for tag, b in res.prints if tag == "BEH"]
            if mode == "simulate":
                per_cfg[name] = {"program_tuples": num, "simulated_behaviours": len(got), "states_generated": res.generated, "wall_s": round(res.wall, 1)}
                v.add_coverage(transitions=res.generated)
            else:
                core.tlc_stats_into(v, res)
                per_cfg[name] = {"program_tuples": num, "states": res.distinct, "transitions": res.generated, "terminal_witnesses": len(got), "wall_s": round(res.wall, 1)}
            behs += got
    finally:
        shutil.rmtree(d, ignore_errors=True)
    if not behs:
        raise core.MachineryError("PathLock.tla produced no behaviours")
    budget = {"quick": 6000, "thorough": 10**7}[tier]
    rng.shuffle(behs)
    behs_run = behs[:budget]
    results = core.pmap(replay_behaviour, [(b, rng.randrange(1 << 30)) for b in behs_run], procs=16, chunk=16)
    ndrift = sum(1 for r in results if r["drift"])
    acc = c15_lock.judge(results, v)
    stuck_b = sum(1 for b in behs_run if not b["alldone"])
    v.add_coverage(
        design_configs=per_cfg,
        tlc_behaviours=len(behs),
        behaviours_replayed=len(results),
        behaviours_ending_in_genuine_deadlock=stuck_b,
        conformance_drift=ndrift,
        traces_validated_against_impl=acc,
        evaluations=len(results),
        distinct_nontrivial=len({json.dumps(b["hist"]) for b in behs_run if len(b["hist"]) > 20}),
        samples=[{"prog": behs_run[0]["prog"], "hist": [[h["t"], h["a"]] for h in behs_run[0]["hist"]], "outcome": behs_run[0]["outcome"]}],
    )
    if ndrift:
        first = next(r for r in results if r["drift"])
        v.notes.append(f"DRIFT: {ndrift} of {len(results)} replayed TLC behaviours diverge from PathLock.tla (design layer); first: {first['drift'][0]}")
        v.add_coverage(drift=True)
        print(f"NOTE: C15 design-layer drift on {ndrift}/{len(results)} behaviours (not a violation by itself): {first['drift'][0]}")
