"""Exact "rational probe" evaluation of pharmpy's model IR (DESIGN.md 3.3).

Values live in  Q (+) Q*L3 (+) Q*L5 (+) ...  (formal logarithms of odd primes, log 2 = 1):
  EXP(x) := 2^x, LOG(2^k 3^a 5^b ...) := k + a*L3 + b*L5 ..., SQRT(q^2) := q.
All identities a simplifier may legitimately use (exp(a)exp(b)=exp(a+b), log(exp(x))=x,
sqrt(x)^2=x, log(ab)=log a+log b) hold in this model; a point outside its domain raises Undef
and the sample is skipped, never judged.  A disagreement found here is re-checked in floating
point with the real functions (float_eval) before it is reported.
"""
from __future__ import annotations

import math
import zlib
from fractions import Fraction

PRIMES = [2, 3, 5, 7, 11, 13, 17, 19, 23, 29, 31, 37, 41, 43, 47, 53, 59, 61, 67, 71, 73, 79, 83, 89, 97]


class Undef(Exception):
    pass


def _factor(n: int) -> dict:
    out = {}
    for p in PRIMES:
        while n % p == 0:
            out[p] = out.get(p, 0) + 1
            n //= p
        if n == 1:
            return out
    raise Undef(f"log of a number with a large prime factor ({n})")


class Q:
    """element of Q + sum_p Q*L_p ; key 1 = rational part"""

    __slots__ = ("c",)

    def __init__(self, c=None):
        if c is None:
            c = {}
        elif isinstance(c, (int, Fraction)):
            c = {1: Fraction(c)} if c != 0 else {}
        self.c = {k: v for k, v in c.items() if v != 0}

    @property
    def is_rat(self):
        return all(k == 1 for k in self.c)

    @property
    def rat(self) -> Fraction:
        if not self.is_rat:
            raise Undef("non-rational value where a rational is needed")
        return self.c.get(1, Fraction(0))

    def __add__(self, o):
        d = dict(self.c)
        for k, v in o.c.items():
            d[k] = d.get(k, 0) + v
        return Q(d)

    def __neg__(self):
        return Q({k: -v for k, v in self.c.items()})

    def __sub__(self, o):
        return self + (-o)

    def __mul__(self, o):
        if self.is_rat:
            r = self.rat
            return Q({k: v * r for k, v in o.c.items()})
        if o.is_rat:
            r = o.rat
            return Q({k: v * r for k, v in self.c.items()})
        raise Undef("product of two formal logarithms")

    def inv(self):
        r = self.rat
        if r == 0:
            raise Undef("division by zero")
        return Q(1 / r)

    def __eq__(self, o):
        return isinstance(o, Q) and self.c == o.c

    def __hash__(self):
        return hash(tuple(sorted(self.c.items())))

    def __float__(self):
        return float(sum(float(v) * (1.0 if k == 1 else math.log2(k)) for k, v in self.c.items()))

    def __repr__(self):
        if not self.c:
            return "0"
        return "+".join((str(v) if k == 1 else f"{v}*L{k}") for k, v in sorted(self.c.items()))


ZERO, ONE = Q(0), Q(1)


def q_exp(x: Q) -> Q:
    num, den = Fraction(1), Fraction(1)
    for k, v in x.c.items():
        if v.denominator != 1:
            raise Undef("exp of a non-integer")
        base = 2 if k == 1 else k
        e = int(v)
        if abs(e) > 64:
            raise Undef("exp overflow")
        if e >= 0:
            num *= base**e
        else:
            den *= base ** (-e)
    return Q(num / den)


def q_log(x: Q) -> Q:
    r = x.rat
    if r <= 0:
        raise Undef("log of non-positive")
    out = {}
    for p, e in _factor(r.numerator).items():
        out[1 if p == 2 else p] = out.get(1 if p == 2 else p, 0) + Fraction(e)
    for p, e in _factor(r.denominator).items():
        out[1 if p == 2 else p] = out.get(1 if p == 2 else p, 0) - Fraction(e)
    return Q(out)


def _iroot(n: int, k: int):
    if n < 0:
        return None
    r = round(n ** (1.0 / k))
    for c in (r - 1, r, r + 1):
        if c >= 0 and c**k == n:
            return c
    return None


def q_pow(b: Q, e: Q) -> Q:
    ex = e.rat
    if not b.is_rat:
        if ex == 1:
            return b
        if ex == 0:
            return ONE
        raise Undef("power of a formal logarithm")
    base = b.rat
    if ex.denominator == 1:
        n = int(ex)
        if abs(n) > 64:
            raise Undef("pow overflow")
        if n >= 0:
            return Q(base**n)
        if base == 0:
            raise Undef("0**negative")
        return Q(Fraction(1) / base ** (-n))
    k = ex.denominator
    if base < 0:
        raise Undef("fractional power of negative")
    rn, rd = _iroot(base.numerator, k), _iroot(base.denominator, k)
    if rn is None or rd is None:
        raise Undef("irrational root")
    return q_pow(Q(Fraction(rn, rd)), Q(ex.numerator))


def q_cmp(a: Q, b: Q) -> int:
    d = a - b
    if not d.c:
        return 0
    if d.is_rat:
        return 1 if d.rat > 0 else -1
    f = float(d)
    if abs(f) < 1e-9:
        raise Undef("comparison too close to call")
    return 1 if f > 0 else -1


# --------------------------------------------------------------------------- expression evaluation


def _sp(e):
    import sympy

    return sympy.sympify(e)


class Evaluator:
    """env maps symbol names (str, e.g. 'CL', 'ETA_1', 'A_CENTRAL(t)', 't') to Q."""

    def __init__(self, env: dict, default=None):
        self.env = env
        self.default = default  # callable name -> Q for unknown symbols, or None => Undef

    def lookup(self, name):
        if name in self.env:
            v = self.env[name]
            if v is None:
                raise Undef(f"{name} is undefined at this probe")
            return v
        if self.default is not None:
            v = self.default(name)
            self.env[name] = v
            return v
        raise Undef(f"free symbol {name}")

    def ev(self, e) -> Q:
        import sympy

        e = _sp(e)
        if e.is_Symbol:
            return self.lookup(e.name)
        if e.is_Rational:
            return Q(Fraction(int(e.p), int(e.q)))
        if e.is_Float:
            return Q(Fraction(str(e)).limit_denominator(10**12) if abs(float(e)) < 1e-50 or abs(float(e)) > 1e50 else Fraction(repr(float(e))))
        if e.is_Add:
            out = ZERO
            for a in e.args:
                out = out + self.ev(a)
            return out
        if e.is_Mul:
            out = ONE
            for a in e.args:
                out = out * self.ev(a)
            return out
        if e.is_Pow:
            return q_pow(self.ev(e.base), self.ev(e.exp))
        if isinstance(e, sympy.exp):
            return q_exp(self.ev(e.args[0]))
        if isinstance(e, sympy.log):
            if len(e.args) == 2:
                return q_log(self.ev(e.args[0])) * q_log(self.ev(e.args[1])).inv()
            return q_log(self.ev(e.args[0]))
        if isinstance(e, sympy.Abs):
            v = self.ev(e.args[0])
            return v if q_cmp(v, ZERO) >= 0 else -v
        if isinstance(e, sympy.sign):
            return Q(q_cmp(self.ev(e.args[0]), ZERO))
        if isinstance(e, sympy.floor):
            return Q(math.floor(self.ev(e.args[0]).rat))
        if isinstance(e, sympy.ceiling):
            return Q(math.ceil(self.ev(e.args[0]).rat))
        if isinstance(e, sympy.Mod):
            a, b = self.ev(e.args[0]).rat, self.ev(e.args[1]).rat
            if b == 0:
                raise Undef("mod 0")
            return Q(a - b * math.floor(a / b))
        if isinstance(e, sympy.Piecewise):
            for val, cond in e.args:
                if self.cond(cond):
                    return self.ev(val)
            raise Undef("no piecewise branch taken")
        if isinstance(e, sympy.factorial):
            n = self.ev(e.args[0]).rat
            if n.denominator != 1 or n < 0 or n > 20:
                raise Undef("factorial")
            return Q(math.factorial(int(n)))
        if isinstance(e, (sympy.Max, sympy.Min)):
            vals = [self.ev(a) for a in e.args]
            best = vals[0]
            for x in vals[1:]:
                c = q_cmp(x, best)
                if (c > 0) == isinstance(e, sympy.Max) and c != 0:
                    best = x
            return best
        if e is sympy.E:
            return Q(2)
        if isinstance(e, sympy.core.function.AppliedUndef) or e.is_Function:
            # amounts A_X(t) and other applied undefined functions are looked up by their text
            key = str(e)
            if key in self.env or self.default is not None:
                return self.lookup(key)
            raise Undef(f"function {key}")
        if e in (sympy.oo, -sympy.oo, sympy.nan, sympy.zoo):
            raise Undef("infinity")
        raise Undef(f"unsupported node {type(e).__name__}")

    def cond(self, c) -> bool:
        import sympy

        c = _sp(c)
        if c is sympy.true or c is True:
            return True
        if c is sympy.false or c is False:
            return False
        if isinstance(c, sympy.And):
            return all(self.cond(a) for a in c.args)
        if isinstance(c, sympy.Or):
            return any(self.cond(a) for a in c.args)
        if isinstance(c, sympy.Not):
            return not self.cond(c.args[0])
        if isinstance(c, sympy.core.relational.Relational):
            k = q_cmp(self.ev(c.lhs), self.ev(c.rhs))
            return {
                "==": k == 0, "!=": k != 0, "<": k < 0, "<=": k <= 0, ">": k > 0, ">=": k >= 0,
            }[c.rel_op]
        raise Undef(f"unsupported condition {type(c).__name__}")


# --------------------------------------------------------------------------- probe environments


def name_value(name: str, salt: int = 0, kind: str = "pos") -> Q:
    """Deterministic value for a symbol name: the same name gets the same value in every model."""
    h = zlib.crc32(f"{salt}:{name}".encode())
    num = PRIMES[1 + h % 7]          # 3..19
    den = PRIMES[(h >> 8) % 4]       # 2..7
    if num == den:
        num = 23
    if kind == "small":              # etas / epsilons: small non-zero integers (so that EXP(eta) stays in Q)
        return Q([-2, -1, 1, 2, 3][(h >> 16) % 5])
    return Q(Fraction(num, den))


def probe_env(model, salt=0, etas="zero", eps="zero", overrides=None) -> dict:
    """Probe point for a model: parameters, rvs, covariates/data columns, time by *name*."""
    env = {}
    rv_names = set(model.random_variables.names)
    eta_names = set(model.random_variables.etas.names)
    for p in model.parameters:
        env[p.name] = name_value(p.name, salt)
    for n in rv_names:
        mode = etas if n in eta_names else eps
        env[n] = ZERO if mode == "zero" else (ONE if mode == "one" else name_value(n, salt, "small"))
    try:
        for col in model.datainfo.names:
            env.setdefault(col, name_value(col, salt))
    except Exception:
        pass
    env.setdefault("t", name_value("t", salt))
    if overrides:
        for k, v in overrides.items():
            env[k] = v if isinstance(v, Q) else Q(Fraction(v))
    return env


def fingerprint(model, salt=0, etas="zero", eps="zero", overrides=None, free_default=True) -> dict:
    """Sequentially execute model.statements at the probe point.

    Returns {'vars': {name: Q|None}, 'ode': {...}|None}.  A variable that is Undef at this probe is None.
    For a CompartmentalSystem the flows / inputs / dose attributes are evaluated with the environment as it
    is at that point and the amounts A_X(t) replaced by probe values keyed by compartment *name*.
    """
    from pharmpy.model import Assignment, CompartmentalSystem

    env = probe_env(model, salt, etas, eps, overrides)
    default = (lambda n: name_value(n, salt)) if free_default else None
    E = Evaluator(env, default)
    out = {"vars": {}, "ode": None}
    for s in model.statements:
        if isinstance(s, Assignment):
            name = str(_sp(s.symbol))
            try:
                v = E.ev(s.expression)
                env[name] = v
                out["vars"][name] = v
            except Undef:
                env[name] = None
                out["vars"][name] = None
        elif isinstance(s, CompartmentalSystem):
            out["ode"] = ode_fingerprint(s, E)
    return out


def ode_fingerprint(cs, E: Evaluator) -> dict:
    from pharmpy.model import output

    names = cs.compartment_names
    comps = [cs.find_compartment(n) for n in names]
    # amounts by compartment name so that re-ordering of compartments does not change the probe
    for c in comps:
        E.env[str(_sp(c.amount))] = name_value("amount:" + c.name, 7)

    def ev(x):
        try:
            return E.ev(x)
        except Undef:
            return None

    flows = {}
    for a in comps:
        for b in comps:
            if a is not b:
                r = cs.get_flow(a, b)
                if _sp(r) != 0:
                    flows[(a.name, b.name)] = ev(r)
        r = cs.get_flow(a, output)
        if _sp(r) != 0:
            flows[(a.name, "OUT")] = ev(r)
    per = {}
    for c in comps:
        doses = []
        for d in c.doses:
            dd = d.to_dict()
            desc = {"class": type(d).__name__, "admid": d.admid, "amount": ev(d.amount)}
            if hasattr(d, "rate"):
                desc["rate"] = ev(d.rate) if d.rate is not None else None
                desc["duration"] = ev(d.duration) if d.duration is not None else None
            doses.append(desc)
        per[c.name] = {"lag": ev(c.lag_time), "bio": ev(c.bioavailability), "input": ev(c.input), "doses": doses}
    return {"names": list(names), "flows": flows, "comps": per}


def float_eval(expr, env_float: dict) -> float:
    """Real-valued re-check of an expression (sympy evalf with real exp/log)."""
    import sympy

    e = _sp(expr)
    subs = {s: env_float[s.name] for s in e.free_symbols if s.name in env_float}
    return float(e.subs(subs).evalf())
