"""C18 - Search spaces are parsed, combined and enumerated exactly.

spec -> code, three specifications (spec/mfl/):
  MFL.tla        TLC builds spaces A, B from an alphabet of abstract MFL statements (JSON shared with this driver,
                 which only renders the same ASTs as text) and emits, per space, the reference expansion (category ->
                 SET of options), the canonical printed form and documented refusals; per pair, Union, the admitted
                 results of Diff, Subset and the least-number-of-transformations obligation.  The driver parses the
                 text with pharmpy, expands pharmpy's objects (`convert_to_funcs` keys), re-stringifies / re-parses,
                 applies + - contain_subset least_number_of_transformations and compares with TLC's sets.
  Stepwise.tla   transition system whose reachable paths are the candidates of exhaustive_stepwise; layered machine with
                 a Merge action for reduced_stepwise; set comprehension for exhaustive.  The driver builds the three
                 workflows (no fitting), reads every candidate's feature path back from the task graph and compares
                 as multisets; candidate names must be unique.
  Partitions.tla insertion machine for set partitions / include-exclude machine for non-empty subsets of 1..n against
                 restricted-growth-string and powerset references; compared with `partitions`, `non_empty_subsets`
                 and the candidate lists of iivsearch's exhaustive builders.
"""
from __future__ import annotations

import json
import math
import random
import shutil
from collections import Counter

from . import c18_ast as A
from . import core

SPEC = core.SPEC / "mfl"
FRAGILE_MODE_KINDS = {"ABSORPTION", "ELIMINATION", "LAGTIME", "METABOLITE"}


# ================================================================================================ MFL algebra


def _build_alphabet(tier, seed):
    rng = random.Random(seed * 7919 + 1)
    names, items = A.base_items()
    n_base = len(items)
    n_extra = {"quick": 40, "thorough": 300}[tier]
    seen = {json.dumps(x, sort_keys=True) for x in items}
    tries = 0
    while n_extra and tries < 10000:
        tries += 1
        it = A.random_item(rng)
        k = json.dumps(it, sort_keys=True)
        if k not in seen:
            seen.add(k)
            items.append(it)
            n_extra -= 1
    composites = []
    for it in A.FIXED_COMPOSITES:
        items.append(it)
        composites.append(len(items))
    n_comp = {"quick": 26, "thorough": 300}[tier]
    tries = 0
    while n_comp and tries < 10000:
        tries += 1
        it = A.composite_item(rng)
        k = json.dumps(it, sort_keys=True)
        if k not in seen:
            seen.add(k)
            items.append(it)
            composites.append(len(items))
            n_comp -= 1
    return names, items, n_base, composites


def _build_groups(names, items, n_base, composites, tier, seed):
    """Focus groups: spaces A and B of one case are drawn from the items of one or two categories so that unions,
    differences and subset tests are not trivially disjoint.  Core groups are seed independent."""
    rng = random.Random(seed * 104729 + 2)
    idx = {n: i for i, n in enumerate(names, 1)}
    groups = [{"ids": [idx[n] for n in g], "maxA": 2, "maxB": 2} for g in A.CORE_GROUPS]
    comp = set(composites)
    bykind = {}
    for i, it in enumerate(items, 1):
        if i in comp:
            continue
        for k in A.item_kinds(it):
            bykind.setdefault(k, []).append(i)
    fams = [
        ["ABSORPTION"], ["ELIMINATION"], ["LAGTIME", "ABSORPTION"], ["TRANSITS"], ["PERIPHERALS"], ["TRANSITS", "ABSORPTION"],
        ["PERIPHERALS", "METABOLITE"], ["DIRECTEFFECT", "EFFECTCOMP"], ["INDIRECTEFFECT"], ["INDIRECTEFFECT", "DIRECTEFFECT"],
        ["COVARIATE"], ["METABOLITE", "ELIMINATION"], ["TRANSITS", "LAGTIME"], ["PERIPHERALS", "ELIMINATION"],
        ["COVARIATE", "ABSORPTION"], ["DIRECTEFFECT", "ABSORPTION"], ["COVARIATE"], ["TRANSITS"],
    ]
    size, nfam, rounds = {"quick": (4, 6, 1), "thorough": (6, len(fams), 2)}[tier]
    for _ in range(rounds):
        for fam in rng.sample(fams, nfam):
            pool = sorted({i for k in fam for i in bykind.get(k, [])})
            if len(pool) > size:
                pool = sorted(rng.sample(pool, size))
            groups.append({"ids": pool, "maxA": 2, "maxB": 2})
    # composite spaces (several PK statements): single-item spaces, paired among themselves
    cs = list(composites)
    step = {"quick": 8, "thorough": 12}[tier]
    for i in range(0, len(cs), step):
        groups.append({"ids": cs[i:i + step], "maxA": 1, "maxB": 1})
    return groups


def _tlc_mfl(tier, seed, v):
    names, items, n_base, composites = _build_alphabet(tier, seed)
    groups = _build_groups(names, items, n_base, composites, tier, seed)
    d = core.scratch("c18mfl")
    try:
        (d / "items.json").write_text(json.dumps(items))
        (d / "groups.json").write_text(json.dumps(groups))
        res = core.run_tlc(SPEC / "MFL.tla", SPEC / "MFL.cfg", workers=16, timeout=3000,
                           env={"ITEMS": d / "items.json", "GROUPS": d / "groups.json"})
    finally:
        shutil.rmtree(d, ignore_errors=True)
    core.require_ok(res, "MFL.tla")
    if res.violated:
        raise core.MachineryError(f"MFL.tla: design-level theorem {res.violated} violated:\n" + "\n".join(res.trace[-2:])[:3000])
    core.require_actions(res, ["DoPushA", ("DoCloseA", "CloseA"), "DoPushB", ("DoCloseB", "CloseB")], "MFL.tla")
    core.tlc_stats_into(v, res)
    spaces = {}
    for tag, c in res.prints:
        if tag == "SPACE":
            spaces[tuple(c["ids"])] = c
    pairs = [c for tag, c in res.prints if tag == "PAIR"]
    if not spaces or not pairs:
        raise core.MachineryError("MFL.tla emitted no cases")
    v.add_coverage(mfl_tlc={"items": len(items), "groups": len(groups), "spaces": len(spaces), "pairs": len(pairs),
                            "states": res.distinct, "wall_s": round(res.wall, 1)})
    return items, spaces, pairs, composites


def _stmts(items, ids):
    return [s for i in ids for s in items[i - 1]]


def _wild_class(*wilds):
    ks = set()
    for w in wilds:
        ks.update(w)
    if "PERIPHERALS" in ks:
        return "peripheral_wildcard"
    if ks & FRAGILE_MODE_KINDS:
        return "mode_wildcard"
    return "none"


def _project(mf):
    return A.project_funcs(mf.convert_to_funcs().keys())


def _diffsets(got, exp):
    out = {}
    for c in A.CATS:
        if got.get(c, set()) != exp.get(c, set()):
            out[c] = {"got": sorted(map(str, got.get(c, set()))), "spec": sorted(map(str, exp.get(c, set())))}
    return out


def check_space(arg):
    """One space: parse, expand, stringify -> parse, repr -> parse.  Returns (status, record, what, notes)."""
    items, sp, seed = arg
    from pharmpy.tools.mfl.parse import ModelFeatures, parse
    from pharmpy.tools.mfl.stringify import stringify

    rng = random.Random(seed)
    stmts = _stmts(items, sp["ids"])
    text = A.render(stmts, rng)
    canon_text = A.render(sp["canon"])
    exp = A.spec_sets(sp["exp"])
    rec = {"check": "space", "ids": sp["ids"], "text": text, "wild_class": _wild_class(sp["wild"]),
           "refusal_expected": sp["refusal"], "stage": "parse", "outcome": None,
           "allometry_class": ("default_ref" if any(s["k"] == "ALLOMETRY" and s["ref"] == "none" for s in stmts)
                               else "other_ref" if any(s["k"] == "ALLOMETRY" and s["ref"] != "70" for s in stmts)
                               else "default_ref" if any(s["k"] == "ALLOMETRY" for s in stmts) else "none")}
    notes = []

    def allom_of(mf):
        al = mf.allometry
        return [] if al is None else [str(al.covariate), float(al.reference)]

    exp_allom = [sp["allom"][0], float(sp["allom"][1])] if sp["allom"] else []
    try:
        try:
            st = parse(text)
            mf = ModelFeatures.create_from_mfl_statement_list(st)
        except ValueError as e:
            if sp["refusal"] != "none":
                return ("refused", rec, None, notes)
            raise e
        if sp["refusal"] != "none":
            return ("unspecified", rec, None, notes)  # the documented refusal is admitted, not required
        rec["stage"] = "expand"
        got = _project(mf)
        if got != exp:
            rec["outcome"] = "expansion"
            return ("violation", rec, f"{text!r} expands to {A.show(got)}, specification: {A.show(exp)}", notes)
        if allom_of(mf) != exp_allom:
            rec["outcome"] = "allometry"
            return ("violation", rec, f"{text!r}: allometry {allom_of(mf)} != {exp_allom}", notes)
        rec["stage"] = "stringify"
        s2 = stringify(st)
        rec["printed"] = s2
        if s2 != canon_text:
            notes.append(f"drift: stringify gives {s2!r}, canonical form of the specification is {canon_text!r}")
        rec["stage"] = "reparse"
        mf2 = ModelFeatures.create_from_mfl_statement_list(parse(s2))
        got2 = _project(mf2)
        if got2 != exp or allom_of(mf2) != exp_allom:
            rec["outcome"] = "roundtrip"
            return ("violation", rec, f"{text!r} prints as {s2!r} which parses to another space: {_diffsets(got2, exp)}", notes)
        rec["stage"] = "repr"
        r = repr(mf)
        rec["printed"] = r
        rec["stage"] = "repr_reparse"
        got3 = _project(parse(r, True)) if r else A.project_funcs([])
        if got3 != exp:
            rec["outcome"] = "roundtrip"
            return ("violation", rec, f"repr {r!r} of the space {text!r} parses to another space: {_diffsets(got3, exp)}", notes)
    except Exception as e:
        rec["outcome"] = type(e).__name__
        return ("violation", rec, f"{rec['stage']} of {text!r}: {type(e).__name__}: {str(e)[:160]}", notes)
    return ("ok", rec, None, notes)


_PARSED: dict = {}


def _parse_cached(text):
    from pharmpy.tools.mfl.parse import parse

    if text not in _PARSED:
        try:
            _PARSED[text] = parse(text, True)
        except Exception:
            _PARSED[text] = None
    return _PARSED[text]


def check_pair(arg):
    """One pair of spaces through + - contain_subset least_number_of_transformations ==."""
    items, pr, spa, spb, seed = arg
    from pharmpy.tools.mfl.parse import parse

    ta = A.render(_stmts(items, pr["a"]))
    tb = A.render(_stmts(items, pr["b"]))
    base = {"check": "pair", "a": pr["a"], "b": pr["b"], "text_a": ta, "text_b": tb,
            "wild_class": _wild_class(spa["wild"], spb["wild"]), "crossDepot": pr["crossDepot"],
            "pdEmptyDiff": pr["pdEmptyDiff"], "indirect_need": "INDIRECT" in pr["lntNeed"]}
    out = []  # (status, record, what)
    notes = []
    mfa, mfb = _parse_cached(ta), _parse_cached(tb)
    if mfa is None or mfb is None:
        return [("skipped", dict(base, op="parse", outcome="parse"), None)], notes  # reported by check_space
    ea, eb = A.spec_sets(spa["exp"]), A.spec_sets(spb["exp"])

    def run(op, fn):
        rec = dict(base, op=op, stage="apply", outcome=None)
        try:
            status, what = fn(rec)
        except Exception as e:
            rec["outcome"] = type(e).__name__
            status, what = "violation", f"{ta!r} {op} {tb!r}: {rec['stage']}: {type(e).__name__}: {str(e)[:160]}"
        out.append((status, rec, what))

    def op_add(rec):
        u = mfa + mfb
        rec["stage"] = "project"
        got, exp = _project(u), A.spec_sets(pr["un"])
        if got != exp:
            rec["outcome"] = "result"
            return "violation", f"{ta!r} + {tb!r} = {u!r}: differs from the union of the expanded sets in {_diffsets(got, exp)}"
        if seed % 4 == 0 and not pr["unPrintable"]:
            rec["stage"] = "repr"
            r = repr(u)
            got2 = _project(parse(r, True)) if r else A.project_funcs([])
            if got2 != exp:
                rec["outcome"] = "roundtrip"
                return "violation", f"({ta!r} + {tb!r}) prints as {r!r} which parses to another space: {_diffsets(got2, exp)}"
        return "ok", None

    def op_sub(rec):
        d = mfa - mfb
        rec["stage"] = "project"
        got = _project(d)
        bad = {}
        for c, admitted in pr["dfAdmit"].items():
            adm = [{A.norm_opt(x) for x in alt} for alt in admitted]
            if got[c] not in adm:
                bad[c] = {"got": sorted(map(str, got[c])), "admitted": [sorted(map(str, x)) for x in adm]}
        must = {A.norm_opt(x) for x in pr["covMust"]}
        may = {A.norm_opt(x) for x in pr["covMay"]}
        if not (must <= got["COVARIATE"] <= must | may):
            bad["COVARIATE"] = {"got": sorted(map(str, got["COVARIATE"])), "must": sorted(map(str, must)), "may": sorted(map(str, may))}
        if bad:
            rec["outcome"] = "result"
            return "violation", f"{ta!r} - {tb!r} = {d!r}: differs from the difference of the expanded sets in {bad}"
        return "ok", None

    def op_subset(rec):
        if not (spa["pk"] and spb["pk"]):
            return "unspecified", None
        r = mfa.contain_subset(mfb)
        if bool(r) != pr["sub"]:
            rec["outcome"] = str(bool(r))
            return "violation", f"({ta!r}).contain_subset({tb!r}) = {r!r}, inclusion of the expanded sets is {pr['sub']}"
        return "ok", None

    def op_lnt(rec):
        try:
            lnt = mfa.least_number_of_transformations(mfb)
        except ValueError:
            if pr["lntRefusal"]:
                return "refused", None
            raise
        rec["stage"] = "project"
        got = A.project_funcs(lnt.keys())
        need = set(pr["lntNeed"])
        bad = {}
        for c in A.CATS:
            if c == "COVARIATE":
                continue
            if c in need:
                if len(got[c]) != 1 or not got[c] <= eb[c]:
                    bad[c] = {"got": sorted(map(str, got[c])), "need_one_of": sorted(map(str, eb[c]))}
            elif got[c]:
                bad[c] = {"got": sorted(map(str, got[c])), "need": "none (the spaces share an option)"}
        if bad:
            rec["outcome"] = "result"
            return "violation", f"least_number_of_transformations({ta!r} -> {tb!r}) = {sorted(map(str, lnt.keys()))}: {bad}"
        return "ok", None

    def op_eq(rec):
        r = bool(mfa == mfb)
        if r != (ea == eb):
            notes.append(f"drift: ({ta!r} == {tb!r}) is {r}, equality of the expanded sets is {ea == eb}")
        return "ok", None

    if not pr["judged"]:
        return [("unspecified", dict(base, op="all", outcome=None), None)], notes
    run("+", op_add)
    run("-", op_sub)
    run("contain_subset", op_subset)
    run("lnt", op_lnt)
    run("==", op_eq)
    return out, notes


def _run_mfl(tier, seed, v):
    items, spaces, pairs, composites = _tlc_mfl(tier, seed, v)
    rng = random.Random(seed * 31 + 5)
    n_pairs = {"quick": 9000, "thorough": 120000}[tier]
    rng.shuffle(pairs)
    pairs_run = pairs[:n_pairs]
    sp_work = [(items, sp, rng.randrange(1 << 30)) for sp in spaces.values()]
    res_s = core.pmap(check_space, sp_work, procs=16, chunk=8)
    stat = Counter()
    samples = []
    for (status, rec, what, notes), (_, sp, _) in zip(res_s, sp_work):
        stat["space_" + status] += 1
        for n in notes[:1]:
            stat["drift_notes"] += 1
            if len(v.notes) < 12:
                v.notes.append(n)
        if status == "violation":
            v.violation(rec, what)
        elif status == "ok" and len(samples) < 2:
            samples.append({"text": rec["text"], "expansion": A.show(A.spec_sets(sp["exp"])), "printed": rec.get("printed")})
    pr_work = [(items, pr, spaces[tuple(pr["a"])], spaces[tuple(pr["b"])], rng.randrange(1 << 30)) for pr in pairs_run
               if tuple(pr["a"]) in spaces and tuple(pr["b"]) in spaces]
    pr_work.sort(key=lambda w: (w[1]["a"], w[1]["b"]))  # neighbours share parsed operands (per-process cache)
    res_p = core.pmap(check_pair, pr_work, procs=16, chunk=64)
    nontrivial = 0
    for (outs, notes), (_, pr, _, _, _) in zip(res_p, pr_work):
        for n in notes[:1]:
            stat["drift_notes"] += 1
            if len(v.notes) < 12:
                v.notes.append(n)
        if pr["judged"] and (pr["lntNeed"] or pr["sub"]):
            nontrivial += 1
        for status, rec, what in outs:
            stat[f"pair_{rec['op']}_{status}"] += 1
            if status == "violation":
                v.violation(rec, what)
    if pr_work:
        pr0 = pr_work[len(pr_work) // 2][1]
        samples.append({"a": A.render(_stmts(items, pr0["a"])), "b": A.render(_stmts(items, pr0["b"])),
                        "union": A.show(A.spec_sets(pr0["un"])) if pr0["judged"] else None, "subset": pr0["sub"], "lnt_categories": pr0["lntNeed"]})
    v.add_coverage(mfl=dict(stat), evaluations=len(sp_work) + 5 * len(pr_work), distinct_nontrivial=nontrivial,
                   traces_validated_against_impl=len(sp_work) + len(pr_work), samples=samples)
    return items, spaces, composites, len(pr_work) >= len(pairs)


# ================================================================================================ enumeration algorithms


def _features_of(exp_sets):
    """Expanded PK options of a space (TLC's record) -> list of (category, option) in a canonical order."""
    out = []
    for c in ["ABSORPTION", "ELIMINATION", "TRANSITS", "PERDRUG", "LAGTIME"]:
        for o in sorted(exp_sets[c], key=str):
            out.append((c, o))
    return out


def _feat_record(c, o):
    if c in ("ABSORPTION", "ELIMINATION", "LAGTIME"):
        return {"c": c, "t": o, "n": 0}
    if c == "TRANSITS":
        return {"c": c, "t": o[1], "n": int(o[0])}
    return {"c": "PERIPHERALS", "t": "", "n": int(o)}


def _feat_key(f):
    """Feature record of Stepwise.tla -> funcs key of pharmpy."""
    if f["c"] in ("ABSORPTION", "ELIMINATION", "LAGTIME"):
        return (f["c"], f["t"])
    if f["c"] == "TRANSITS":
        return ("TRANSITS", f["n"], f["t"])
    return ("PERIPHERALS", f["n"])


def _path_bound(feats):
    """Upper bound of the number of stepwise paths (budget filter only; exclusions ignored)."""
    ncat = Counter(f["c"] for f in feats if f["c"] != "PERIPHERALS")
    L = sum(1 for f in feats if f["c"] == "PERIPHERALS")
    cats = list(ncat.values())
    total = 0
    for mask in range(1 << len(cats)):
        sel = [cats[i] for i in range(len(cats)) if mask >> i & 1]
        prod = 1
        for x in sel:
            prod *= x
        for j in range(L + 1):
            total += prod * math.factorial(len(sel) + j) // math.factorial(j)
    return total - 1


def _sw_cases(items, spaces, composites, tier, seed):
    rng = random.Random(seed * 613 + 11)
    cases = []
    max_paths = {"quick": 1500, "thorough": 6000}[tier]
    n_cases = {"quick": 34, "thorough": 400}[tier]
    for ci in composites:
        sp = spaces.get((ci,))
        if sp is None or sp["refusal"] != "none" or not sp["pk"]:
            continue
        exp = A.spec_sets(sp["exp"])
        feats_all = _features_of(exp)
        bycat = {}
        for c, o in feats_all:
            bycat.setdefault(c, []).append(o)
        variants = []
        # base model = the first option of every category (what modelsearch filters out), and a random base
        variants.append({c: sorted(os_, key=str)[0] for c, os_ in bycat.items()})
        variants.append({c: rng.choice(sorted(os_, key=str)) for c, os_ in bycat.items() if rng.random() < 0.8})
        seenv = set()
        for base in variants:
            feats = [_feat_record(c, o) for c, o in feats_all if base.get(c, None) != o]
            key = json.dumps(feats, sort_keys=True)
            if not feats or key in seenv:
                continue
            seenv.add(key)
            ncat = Counter(f["c"] for f in feats)
            combos = 1
            for x in ncat.values():
                combos *= 1 + x
            if combos - 1 > 200 or _path_bound(feats) > max_paths or len(feats) > 13:
                continue
            cases.append({"id": len(cases) + 1, "feats": feats, "space": ci,
                          "base": [[c, list(o) if isinstance(o, tuple) else o] for c, o in base.items()]})
    return cases[:n_cases]


def _tlc_stepwise(cases, v):
    d = core.scratch("c18sw")
    try:
        (d / "cases.json").write_text(json.dumps([{"id": c["id"], "feats": c["feats"]} for c in cases]))
        res = core.run_tlc(SPEC / "Stepwise.tla", SPEC / "Stepwise.cfg", workers=16, timeout=3000, env={"CASES": d / "cases.json"})
    finally:
        shutil.rmtree(d, ignore_errors=True)
    core.require_ok(res, "Stepwise.tla")
    if res.violated:
        raise core.MachineryError(f"Stepwise.tla: design-level theorem {res.violated} violated:\n" + "\n".join(res.trace[-2:])[:3000])
    core.require_actions(res, ["DoAppend", "DoExtend", "DoMerge"], "Stepwise.tla")
    core.tlc_stats_into(v, res)
    paths, combos, layers = {}, {}, {}
    for tag, c in res.prints:
        if tag == "PATH":
            paths.setdefault(c["id"], []).append(tuple(c["p"]))
        elif tag == "COMBOS":
            combos[c["id"]] = [frozenset(x) for x in c["combos"]]
        elif tag == "LAYER":
            layers.setdefault(c["id"], []).extend(frozenset(tuple(p) for p in cand) for cand in c["cands"])
    v.add_coverage(stepwise_tlc={"cases": len(cases), "states": res.distinct, "paths": sum(map(len, paths.values())),
                                 "combinations": sum(map(len, combos.values())), "reduced_candidates": sum(map(len, layers.values())),
                                 "wall_s": round(res.wall, 1)})
    return paths, combos, layers


def _classify(got: Counter, exp: Counter, flat_got, flat_exp):
    """Outcome label of a path-set mismatch.  `peripheral_order`: the difference concerns only where peripheral
    features may be appended (the paths without their peripheral features are the expected ones)."""
    if any(n > 1 for n in got.values()):
        return "duplicate_candidates"

    def nonper(p):
        return tuple(k for k in p if k[0] != "PERIPHERALS")

    def per_ok(p):
        ps = [k for k in p if k[0] == "PERIPHERALS"]
        return len(ps) == len(set(ps))

    if {nonper(p) for p in flat_got} == {nonper(p) for p in flat_exp} and all(per_ok(p) for p in flat_got):
        return "peripheral_order"
    extra, missing = set(got) - set(exp), set(exp) - set(got)
    return "extra_and_missing" if extra and missing else "extra_candidates" if extra else "missing_candidates"


def check_stepwise(arg):
    """One case: build the three workflows on the real code and compare the candidates with TLC's."""
    case, text, exp_paths, exp_combos, exp_layers, order, seed = arg
    from pharmpy.tools.mfl.parse import parse
    from pharmpy.tools.modelsearch import algorithms as alg

    feats = case["feats"]
    keys = [_feat_key(f) for f in feats]
    out = []
    mf = parse(text, True)
    ss_funcs = mf.convert_to_funcs()
    base_keys = {k for k in ss_funcs if k not in set(keys)}
    if not set(keys) <= set(ss_funcs):
        return [("skipped", {"check": "stepwise", "algo": "all", "text": text, "outcome": "expansion"}, None)]
    ordered = [k for k in ss_funcs if k not in base_keys]
    if order == "shuffled":
        random.Random(seed).shuffle(ordered)
    mfl_funcs = {k: ss_funcs[k] for k in ordered}
    per = [k[1] for k in ordered if k[0] == "PERIPHERALS"]
    basefields = {"check": "stepwise", "text": text, "base": case["base"], "funcs_order": [list(k) for k in ordered],
                  "n_per": len(per), "n_per_ge3": len(per) >= 3,
                  "per_dict_order": "increasing" if per == sorted(per) else "not_increasing"}

    def cand_tasks(wf, fn):
        return [t for t in wf.tasks if t.function is fn]

    def run(algo, fn):
        rec = dict(basefields, algo=algo, stage="build", outcome=None)
        try:
            status, what = fn(rec)
        except Exception as e:
            rec["outcome"] = type(e).__name__
            status, what = "violation", f"{algo}({text!r} minus {case['base']}): {rec['stage']}: {type(e).__name__}: {str(e)[:160]}"
        out.append((status, rec, what))

    def names_unique(rec, tasks):
        names = [t.task_input[0] for t in tasks]
        if len(set(names)) != len(names):
            rec["outcome"] = "duplicate_names"
            return f"candidate names are not unique: {[n for n, c in Counter(names).items() if c > 1][:5]}"
        return None

    def do_exhaustive(rec):
        wf, model_tasks = alg.exhaustive(mfl_funcs, "no_add")
        rec["stage"] = "read"
        tasks = cand_tasks(wf, alg.create_candidate_exhaustive)
        got = Counter(frozenset(t.task_input[1]) for t in tasks)
        exp = Counter(frozenset(keys[i - 1] for i in c) for c in exp_combos)
        if len(model_tasks) != len(tasks):
            rec["outcome"] = "model_tasks"
            return "violation", f"exhaustive: {len(tasks)} candidates but {len(model_tasks)} fit tasks"
        if any(len(t.task_input[1]) != len(set(t.task_input[1])) or len(t.task_input[2]) != len(t.task_input[1]) for t in tasks):
            rec["outcome"] = "combination_shape"
            return "violation", "exhaustive: a candidate repeats a feature or holds a different number of functions than features"
        if got != exp:
            extra, missing = set(got) - set(exp), set(exp) - set(got)
            rec["outcome"] = ("duplicate_candidates" if any(n > 1 for n in got.values()) else
                              "extra_and_missing" if extra and missing else "extra_candidates" if extra else "missing_candidates")
            return "violation", (f"exhaustive({text!r} minus base {case['base']}): {len(tasks)} candidates, specification {len(exp_combos)}; "
                                 f"extra {[sorted(x) for x in list(extra)[:3]]} missing {[sorted(x) for x in list(missing)[:3]]} "
                                 f"duplicated {[sorted(x) for x, n in got.items() if n > 1][:3]}")
        w = names_unique(rec, tasks)
        return ("violation", w) if w else ("ok", None)

    def walk(wf, fn):
        memo = {}

        def up(task):
            if id(task) in memo:
                return memo[id(task)]
            preds = wf.get_predecessors(task)
            if task.function is fn:
                feat = task.task_input[1]
                res = {(feat,)} if not preds else {p + (feat,) for q in preds for p in up(q)}
            else:
                res = set().union(*[up(q) for q in preds]) if preds else {()}
            memo[id(task)] = res
            return res

        return up

    def do_stepwise(rec):
        wf, model_tasks = alg.exhaustive_stepwise(mfl_funcs, "no_add")
        rec["stage"] = "read"
        tasks = cand_tasks(wf, alg.create_candidate_stepwise)
        up = walk(wf, alg.create_candidate_stepwise)
        got_sets = [up(t) for t in tasks]
        if any(len(s) != 1 for s in got_sets):
            rec["outcome"] = "not_a_path"
            return "violation", "exhaustive_stepwise: a candidate has several parents"
        got = Counter(next(iter(s)) for s in got_sets)
        exp = Counter(tuple(keys[i - 1] for i in p) for p in exp_paths)
        if len(model_tasks) != len(tasks):
            rec["outcome"] = "model_tasks"
            return "violation", f"exhaustive_stepwise: {len(tasks)} candidates but {len(model_tasks)} fit tasks"
        if got != exp:
            rec["outcome"] = _classify(got, exp, set(got), set(exp))
            extra, missing = sorted(set(got) - set(exp))[:3], sorted(set(exp) - set(got))[:3]
            return "violation", (f"exhaustive_stepwise({text!r} minus base {case['base']}, dict order {ordered}): {sum(got.values())} candidates, "
                                 f"specification {len(exp)} paths; extra {extra} missing {missing} "
                                 f"duplicated {[p for p, n in got.items() if n > 1][:3]}")
        w = names_unique(rec, tasks)
        return ("violation", w) if w else ("ok", None)

    def do_reduced(rec):
        wf, model_tasks = alg.reduced_stepwise(mfl_funcs, "no_add")
        rec["stage"] = "read"
        tasks = cand_tasks(wf, alg.create_candidate_stepwise)
        up = walk(wf, alg.create_candidate_stepwise)
        got = Counter(frozenset(up(t)) for t in tasks)
        exp = Counter(frozenset(tuple(keys[i - 1] for i in p) for p in cand) for cand in exp_layers)
        if len(model_tasks) != len(tasks):
            rec["outcome"] = "model_tasks"
            return "violation", f"reduced_stepwise: {len(tasks)} candidates but {len(model_tasks)} fit tasks"
        if got != exp:
            fg = {p for c in got for p in c}
            fe = {p for c in exp for p in c}
            # the same root paths, but merged into other nodes than documented -> merge_structure
            rec["outcome"] = "merge_structure" if fg == fe and not any(n > 1 for n in got.values()) else _classify(got, exp, fg, fe)
            # layer in which the first difference shows, and how many same-feature groups (>= 2 candidates with the
            # same features) its parent layer has according to the specification
            depth = min(len(next(iter(c))) for c in (set(got) ^ set(exp)))
            parent = Counter(frozenset(next(iter(c))) for c in exp if len(next(iter(c))) == depth - 1)
            rec["mergeable_groups_in_parent_layer"] = sum(1 for n in parent.values() if n > 1)
            extra = [sorted(x)[:2] for x in list(set(got) - set(exp))[:2]]
            missing = [sorted(x)[:2] for x in list(set(exp) - set(got))[:2]]
            return "violation", (f"reduced_stepwise({text!r} minus base {case['base']}, dict order {ordered}): {sum(got.values())} candidates, "
                                 f"specification {len(exp)}; first difference in layer {depth}; extra (paths merged into the candidate) {extra} "
                                 f"missing {missing}")
        w = names_unique(rec, tasks)
        return ("violation", w) if w else ("ok", None)

    run("exhaustive", do_exhaustive)
    run("exhaustive_stepwise", do_stepwise)
    run("reduced_stepwise", do_reduced)
    return out


def _run_stepwise(tier, seed, v, items, spaces, composites):
    cases = _sw_cases(items, spaces, composites, tier, seed)
    if not cases:
        raise core.MachineryError("no enumeration cases within the budget")
    paths, combos, layers = _tlc_stepwise(cases, v)
    rng = random.Random(seed * 17 + 3)
    work = []
    for c in cases:
        text = A.render(_stmts(items, [c["space"]]))
        for order in ("listed", "shuffled"):
            work.append((c, text, paths.get(c["id"], []), combos.get(c["id"], []), layers.get(c["id"], []), order, rng.randrange(1 << 30)))
    res = core.pmap(check_stepwise, work, procs=16, chunk=1)
    stat = Counter()
    for outs in res:
        for status, rec, what in outs:
            stat[f"{rec['algo']}_{status}"] += 1
            if status == "violation":
                v.violation(rec, what)
    c0 = cases[0]
    v.add_coverage(stepwise=dict(stat), evaluations=3 * len(work), traces_validated_against_impl=3 * len(work),
                   distinct_nontrivial=sum(1 for c in cases if len(paths.get(c["id"], [])) > len(c["feats"])),
                   samples=[{"space": A.render(_stmts(items, [c0["space"]])), "base": c0["base"], "n_paths": len(paths.get(c0["id"], [])),
                             "n_combinations": len(combos.get(c0["id"], [])), "n_reduced_candidates": len(layers.get(c0["id"], []))}])


# ================================================================================================ partitions / subsets


def _tlc_partitions(tier, v):
    maxn = {"quick": 5, "thorough": 6}[tier]
    d = core.scratch("c18pt")
    try:
        cfg = d / "Partitions.cfg"
        cfg.write_text((SPEC / "Partitions.cfg").read_text().replace("MaxN = 5", f"MaxN = {maxn}"))
        res = core.run_tlc(SPEC / "Partitions.tla", cfg, workers=4, timeout=3000)
    finally:
        shutil.rmtree(d, ignore_errors=True)
    core.require_ok(res, "Partitions.tla")
    if res.violated:
        raise core.MachineryError(f"Partitions.tla: {res.violated} violated:\n" + "\n".join(res.trace[-2:])[:2000])
    core.require_actions(res, ["DoNewBlock", "DoJoin", "DoInclude", "DoExclude"], "Partitions.tla")
    core.tlc_stats_into(v, res)
    parts, subs, ref = {}, {}, {}
    for tag, c in res.prints:
        if tag == "PART":
            parts.setdefault(c["n"], []).append(frozenset(frozenset(b) for b in c["blocks"]))
        elif tag == "SUB":
            subs.setdefault(c["n"], []).append(frozenset(c["chosen"]))
        elif tag == "REF":
            ref[c["n"]] = c
    for n, r in ref.items():
        if len(parts.get(n, [])) != r["bell"] or len(set(parts.get(n, []))) != r["bell"]:
            raise core.MachineryError(f"Partitions.tla: {len(parts.get(n, []))} terminal states for n={n}, Bell(n)={r['bell']}")
        if len(subs.get(n, [])) != r["nsub"] or len(set(subs.get(n, []))) != r["nsub"]:
            raise core.MachineryError(f"Partitions.tla: {len(subs.get(n, []))} subsets for n={n}, expected {r['nsub']}")
    v.add_coverage(partitions_tlc={"MaxN": maxn, "states": res.distinct, "partitions": sum(map(len, parts.values())),
                                   "subsets": sum(map(len, subs.values()))})
    return maxn, parts, subs


def _run_partitions(tier, seed, v):
    maxn, parts, subs = _tlc_partitions(tier, v)
    from pharmpy.internals.set.partitions import partitions
    from pharmpy.internals.set.subsets import non_empty_subsets
    from pharmpy.modeling import add_iiv, add_pk_iiv, create_joint_distribution, read_model, remove_iiv, set_peripheral_compartments
    from pharmpy.tools.iivsearch.algorithms import td_exhaustive_block_structure, td_exhaustive_no_of_etas

    rng = random.Random(seed * 5 + 1)
    n_eval = 0

    def fmt(x):
        return sorted(sorted(b) for b in x) if x and isinstance(next(iter(x)), frozenset) else sorted(x)

    def cmp(rec, got: Counter, exp: Counter, what):
        nonlocal n_eval
        n_eval += 1
        if got != exp:
            extra, missing = set(got) - set(exp), set(exp) - set(got)
            rec["outcome"] = ("duplicate" if any(c > 1 for c in got.values()) else "extra_and_missing" if extra and missing
                              else "extra" if extra else "missing")
            v.violation(rec, f"{what}: {sum(got.values())} results, specification {len(exp)}; "
                             f"duplicated {[fmt(x) for x, c in got.items() if c > 1][:3]} extra {[fmt(x) for x in list(extra)[:3]]} "
                             f"missing {[fmt(x) for x in list(missing)[:3]]}")

    unsorted_names = ["ETA_VC", "ETA_MAT", "ETA_CL", "ETA_10", "ETA_2", "ETA_KA"]  # not in lexicographic order
    for n in range(0, maxn + 1):
        shuffled = list(range(1, n + 1))
        rng.shuffle(shuffled)
        for label, elems in (("ints", list(range(1, n + 1))), ("names", [f"ETA_{i}" for i in range(1, n + 1)]),
                             ("unsorted_names", unsorted_names[:n]), ("shuffled_ints", shuffled)):
            back = {e: i for i, e in enumerate(elems, 1)}
            rec = {"check": "partitions", "n": n, "elements": label, "outcome": None}
            try:
                plist = list(partitions(elems))
                got = Counter(frozenset(frozenset(back[e] for e in b) for b in p) for p in plist)
                cmp(rec, got, Counter(parts.get(n, [])), f"partitions of {n} {label}")
                # design layer: iivsearch recognises the base structure by tuple equality with the model's own
                # distributions, i.e. it relies on the caller's element order inside every part (not documented)
                if any([back[e] for e in b] != sorted(back[e] for e in b) for p in plist for b in p) and len(v.notes) < 20:
                    v.notes.append(f"drift: partitions({elems}) does not keep the caller's element order inside the parts")
            except Exception as e:
                rec["outcome"] = type(e).__name__
                v.violation(rec, f"partitions({elems}): {type(e).__name__}: {e}")
            rec = {"check": "non_empty_subsets", "n": n, "elements": label, "outcome": None}
            try:
                got = Counter(frozenset(back[e] for e in s) for s in non_empty_subsets(elems))
                cmp(rec, got, Counter(subs.get(n, [])), f"non_empty_subsets of {n} {label}")
            except Exception as e:
                rec["outcome"] = type(e).__name__
                v.violation(rec, f"non_empty_subsets({elems}): {type(e).__name__}: {e}")

    # iivsearch's exhaustive builders: candidates = partitions (minus the base structure) / non-empty subsets to remove
    base = read_model(core.REPO / "tests/testdata/nonmem/models/mox2.mod")
    big = add_pk_iiv(set_peripheral_compartments(base, 2 if maxn >= 6 else 1))
    all_etas = list(big.random_variables.iiv.names)
    models = []
    for n in range(1, min(maxn, len(all_etas)) + 1):
        keep = sorted(rng.sample(all_etas, n), key=all_etas.index)
        m = remove_iiv(big, [e for e in all_etas if e not in keep]) if len(keep) < len(all_etas) else big
        models.append((n, "diagonal", m))
        if n >= 3:
            blk = sorted(rng.sample(keep, rng.randint(2, n - 1)), key=all_etas.index)
            models.append((n, "block", create_joint_distribution(m, blk)))
    # base models whose eta names are NOT in lexicographic order in the model (ETA_1, ETA_VC, ETA_MAT, ETA_VP1, ETA_QP1) and
    # that already carry a block of such etas: the builder must still skip exactly the base model's own structure
    alt = remove_iiv(base, ["ETA_2", "ETA_3"])
    alt = add_iiv(add_iiv(alt, ["VC"], "exp"), ["MAT"], "exp")
    alt = set_peripheral_compartments(alt, 1)
    alt = add_iiv(add_iiv(alt, ["VP1"], "exp"), ["QP1"], "exp")
    alt_etas = list(alt.random_variables.iiv.names)
    if alt_etas != ["ETA_1", "ETA_VC", "ETA_MAT", "ETA_VP1", "ETA_QP1"]:
        raise core.MachineryError(f"unexpected eta names {alt_etas}")
    pick = ["ETA_VC", "ETA_MAT", "ETA_1", "ETA_VP1", "ETA_QP1"]
    for n in range(2, min(maxn, 5) + 1):
        keep = sorted(pick[:n], key=alt_etas.index)
        m = remove_iiv(alt, [e for e in alt_etas if e not in keep]) if n < 5 else alt
        models.append((n, "block_unsorted_names", create_joint_distribution(m, ["ETA_VC", "ETA_MAT"])))
        if n >= 4:
            blk = ["ETA_VC", "ETA_MAT"] + rng.sample([e for e in keep if e not in ("ETA_VC", "ETA_MAT")], rng.randint(1, n - 2))
            models.append((n, "block_unsorted_names", create_joint_distribution(m, sorted(blk, key=alt_etas.index))))
            others = [e for e in keep if e not in ("ETA_VC", "ETA_MAT")]
            models.append((n, "two_blocks_unsorted_names",
                           create_joint_distribution(create_joint_distribution(m, ["ETA_VC", "ETA_MAT"]), others[-2:])))
    for n, structure, m in models:
        etas = list(m.random_variables.iiv.names)
        back = {e: i for i, e in enumerate(etas, 1)}
        base_part = frozenset(frozenset(back[e] for e in dist.names) for dist in m.random_variables.iiv)
        rec = {"check": "td_exhaustive_block_structure", "n": n, "base_structure": structure, "outcome": None,
               "base_blocks": [list(dist.names) for dist in m.random_variables.iiv]}
        try:
            wf = td_exhaustive_block_structure(m)
            tasks = [t for t in wf.tasks if t.name == "candidate_entry"]
            got = Counter(frozenset(frozenset(back[e] for e in b) for b in t.task_input[1]) for t in tasks)
            got[base_part] += 1  # the base model itself carries its own structure
            cmp(rec, got, Counter(parts[n]), f"td_exhaustive_block_structure ({n} etas, base {structure}) plus the base structure")
            names = [t.task_input[0] for t in tasks]
            if len(set(names)) != len(names):
                v.violation(dict(rec, outcome="duplicate_names"), f"td_exhaustive_block_structure: candidate names not unique {names[:6]}")
        except Exception as e:
            rec["outcome"] = type(e).__name__
            v.violation(rec, f"td_exhaustive_block_structure ({n} etas): {type(e).__name__}: {e}")
        rec = {"check": "td_exhaustive_no_of_etas", "n": n, "base_structure": structure, "outcome": None}
        try:
            wf = td_exhaustive_no_of_etas(m)
            tasks = [t for t in wf.tasks if t.name == "candidate_entry"]
            got = Counter(frozenset(back[e] for e in t.task_input[1]) for t in tasks)
            cmp(rec, got, Counter(subs[n]), f"td_exhaustive_no_of_etas ({n} etas)")
            names = [t.task_input[0] for t in tasks]
            if len(set(names)) != len(names):
                v.violation(dict(rec, outcome="duplicate_names"), f"td_exhaustive_no_of_etas: candidate names not unique {names[:6]}")
        except Exception as e:
            rec["outcome"] = type(e).__name__
            v.violation(rec, f"td_exhaustive_no_of_etas ({n} etas): {type(e).__name__}: {e}")
    v.add_coverage(partition_checks=n_eval, evaluations=n_eval, traces_validated_against_impl=n_eval,
                   samples=[{"partitions_n": maxn, "bell": len(parts[maxn]), "non_empty_subsets": len(subs[maxn])}])


def main(tier: str, seed: int) -> int:
    v = core.Verdict("C18", tier, seed)
    v.assumptions = [
        "search spaces over the documented feature kinds; COVARIATE parameter/covariate wildcards and the automatic @symbols "
        "need a model and are not generated (LET-defined references are)",
        "the enumeration algorithms are driven the way the modelsearch tool drives them: convert_to_funcs() of the parsed "
        "space minus the base model's features; only the workflow is built, nothing is fitted",
        "reduced_stepwise candidates are identified by the set of root paths merged into them",
    ]
    core.use_repo()
    import pharmpy.modeling  # noqa: F401  (import before forking)
    import pharmpy.tools.iivsearch.algorithms  # noqa: F401
    import pharmpy.tools.mfl.parse  # noqa: F401
    import pharmpy.tools.modelsearch.algorithms  # noqa: F401

    items, spaces, composites, ex1 = _run_mfl(tier, seed, v)
    _run_stepwise(tier, seed, v, items, spaces, composites)
    _run_partitions(tier, seed, v)
    v.add_coverage(exhaustive=False, rule="MFL.tla: every sequence of <= 2 items of every focus group is a space, every pair of "
                   "spaces of a group a case (core groups fixed, the others drawn by VERIF_SEED); non-trivial pair = the spaces "
                   "need a transformation or one contains the other. Stepwise.tla: every reachable path / layer of every case; "
                   "non-trivial = more paths than features. Partitions.tla: all n <= MaxN")
    return v.finish(min_traces=300)


def replay(path: str) -> int:
    core.use_repo()
    data = json.loads(open(path).read())
    case = data["case"]
    print(json.dumps(data, indent=1)[:3000])
    from pharmpy.tools.mfl.parse import parse

    try:
        if case.get("check") == "pair":
            a, b = parse(case["text_a"], True), parse(case["text_b"], True)
            op = case["op"]
            r = {"+": lambda: a + b, "-": lambda: a - b, "==": lambda: a == b, "contain_subset": lambda: a.contain_subset(b),
                 "lnt": lambda: sorted(map(str, a.least_number_of_transformations(b)))}[op]()
            print("now:", repr(r), sorted(map(str, r.convert_to_funcs())) if hasattr(r, "convert_to_funcs") else "")
        elif case.get("check") == "space":
            mf = parse(case["text"], True)
            print("now:", repr(mf), sorted(map(str, mf.convert_to_funcs())))
    except Exception as e:
        print("now:", type(e).__name__, e)
    return 0
