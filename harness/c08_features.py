"""C08 - Structural feature setters are detectable, idempotent, reversible and total.

spec -> code : TLC explores Features.tla (history machine over the feature vector the detectors report),
               proves the design-level theorems (abstract idempotence / undo pairs / MFL rendering) and emits
               one CASE per reachable vector: every enabled request with the post-vector the property names,
               the categories the documentation leaves open, whether f.f ~ f is demanded and which request
               undoes it.  The driver walks real models level by level (models are immutable: the model reached
               for a vector serves all its out-edges) and executes every obligation of every vector it reaches
               within the tier's depth; `-simulate` histories add long walks (thorough).
code -> spec : every call made on a real model becomes an observation (pre-vector, request, outcome,
               post-vector, well-formedness, exact fingerprints for f.f / undo) and TLC judges all of them with
               the same operators (FeaturesTrace.tla).  The verdict is TLC's.
"""
from __future__ import annotations

import json
import random
import re
import shutil
import sys
import time
import traceback

from . import core

SPEC = core.SPEC / "features"

# name, path below $VERIF_REPO, start vector name in FeaturesDefs.StartVec
START_MODELS = [
    ("pheno_real", "tests/testdata/nonmem/pheno_real.mod", "iv1"),
    ("mox2", "tests/testdata/nonmem/models/mox2.mod", "oral1"),
    ("pheno_advan3", "tests/testdata/nonmem/modeling/pheno_advan3.mod", "iv2"),
    ("pheno_advan4", "tests/testdata/nonmem/modeling/pheno_advan4.mod", "oral2"),
    ("pheno_advan11", "tests/testdata/nonmem/modeling/pheno_advan11.mod", "iv3"),
    ("pheno_advan12", "tests/testdata/nonmem/modeling/pheno_advan12.mod", "oral3"),
    ("pheno_zero_order", "tests/testdata/nonmem/modeling/pheno_advan1_zero_order.mod", "zo1"),
    ("pheno_seq", "tests/testdata/nonmem/modeling/pheno_advan2_seq.mod", "seq1"),
    ("pheno_2transits", "tests/testdata/nonmem/modeling/pheno_2transits.mod", "tr2"),
    # built from mox2 (see _build_derived): derived statements read KA, Q/V3, CL + CLMM and ALAG1
    ("mox2_derived", None, "der1"),
]
START_VEC = {
    "iv1": ("INST", 0, 0, False, "iv"), "oral1": ("FO", 0, 0, True, "oral"),
    "iv2": ("INST", 1, 0, False, "iv"), "oral2": ("FO", 1, 0, True, "oral"),
    "iv3": ("INST", 2, 0, False, "iv"), "oral3": ("FO", 2, 0, True, "oral"),
    "zo1": ("ZO", 0, 0, False, "oral"), "seq1": ("SEQ", 0, 0, True, "oral"),
    "tr2": ("FO", 1, 2, True, "oral"),
    "der1": ("FO", 1, 0, True, "oral", "MIX", True),
}
MFL5 = ["A:INST", "A:FO", "A:ZO", "A:SEQ", "E:FO", "E:ZO", "E:MM", "E:MIX", "P:0", "P:1", "P:2", "P+", "P-",
        "T:0", "T:1", "T:3", "T:1N", "T:2N", "T:4N", "L:1", "L:0"]
EXT = ["B:1", "B:0", "M:BASIC", "M:PSC", "X:LIN"]
ALL_ACTS = MFL5 + EXT
IDEM_ACTS = [a for a in ALL_ACTS if a not in ("P+", "P-")]
CATS = ["abs", "elim", "periph", "tr", "depot", "lag", "bio", "metab", "effect"]
NAMED_ACTIONS = {
    "DoSetAbsorption": "A:FO", "DoSetElimination": "E:FO", "DoSetPeripherals": "P:0", "DoAddPeripheral": "P+",
    "DoRemovePeripheral": "P-", "DoSetTransits": "T:0", "DoSetTransitsNoDepot": "T:2N", "DoAddLag": "L:1",
    "DoRemoveLag": "L:0", "DoAddBio": "B:1", "DoRemoveBio": "B:0", "DoAddMetabolite": "M:BASIC",
    "DoAddEffectComp": "X:LIN", "DoRequestViaMFL": "A:FO",
}
# search space from which the MFL feature -> function table is built (must equal FeaturesDefs.MFLSpace)
MFL_SPACE = ("ABSORPTION([FO,ZO,SEQ-ZO-FO,INST]);ELIMINATION([FO,ZO,MM,MIX-FO-MM]);PERIPHERALS([0,1,2]);TRANSITS([0,1,3],*);"
             "LAGTIME([OFF,ON]);METABOLITE([BASIC,PSC]);EFFECTCOMP([LINEAR,EMAX])")
_MFL_FUNCS: dict = {}   # "TRANSITS(1,NODEPOT)" -> function stored under that key of the table

CHUNK = 4               # obligations per worker task (a task first replays the history of its state)
_MODELS: dict = {}      # start name -> pharmpy model (read in the parent, inherited by forked workers)
_SETTERS: dict = {}


# ----------------------------------------------------------------------------- pharmpy side


def _load(names=None):
    core.use_repo()
    import pharmpy.modeling as pm
    from functools import partial

    if not _SETTERS:
        _SETTERS.update({
            "A:INST": pm.set_instantaneous_absorption, "A:FO": pm.set_first_order_absorption,
            "A:ZO": pm.set_zero_order_absorption, "A:SEQ": pm.set_seq_zo_fo_absorption,
            "E:FO": pm.set_first_order_elimination, "E:ZO": pm.set_zero_order_elimination,
            "E:MM": pm.set_michaelis_menten_elimination, "E:MIX": pm.set_mixed_mm_fo_elimination,
            "P:0": partial(pm.set_peripheral_compartments, n=0), "P:1": partial(pm.set_peripheral_compartments, n=1),
            "P:2": partial(pm.set_peripheral_compartments, n=2),
            "P+": pm.add_peripheral_compartment, "P-": pm.remove_peripheral_compartment,
            "T:0": partial(pm.set_transit_compartments, n=0), "T:1": partial(pm.set_transit_compartments, n=1),
            "T:3": partial(pm.set_transit_compartments, n=3),
            "T:1N": partial(pm.set_transit_compartments, n=1, keep_depot=False),
            "T:2N": partial(pm.set_transit_compartments, n=2, keep_depot=False),
            "T:4N": partial(pm.set_transit_compartments, n=4, keep_depot=False),
            "L:1": pm.add_lag_time, "L:0": pm.remove_lag_time,
            "B:1": pm.add_bioavailability, "B:0": pm.remove_bioavailability,
            "M:BASIC": partial(pm.add_metabolite), "M:PSC": partial(pm.add_metabolite, presystemic=True),
            "X:LIN": partial(pm.add_effect_compartment, expr="linear"),
        })
    for name, rel, _ in START_MODELS:
        if (names is None or name in names) and name not in _MODELS:
            if rel is None:
                continue
            path = core.REPO / rel
            if not path.exists():
                raise core.MachineryError(f"start model {path} not found")
            _MODELS[name] = pm.read_model(path)
    if (names is None or "mox2_derived" in names) and "mox2_derived" not in _MODELS:
        if "mox2" not in _MODELS:
            _MODELS["mox2"] = pm.read_model(core.REPO / START_MODELS[1][1])
        try:
            _MODELS["mox2_derived"] = _build_derived(_MODELS["mox2"])
        except core.MachineryError:
            raise
        except Exception as e:  # noqa: BLE001 - the setters / graph queries used to build it fail: judged in the walks
            print(f"C08: derived start model could not be built ({type(e).__name__}: {str(e)[:100]}); its walk is skipped", file=sys.stderr)
    if not _MFL_FUNCS:
        # the request path of the search tools: MFL string -> ModelFeatures -> convert_to_funcs() -> {key: function}
        from pharmpy.tools.mfl.parse import ModelFeatures

        table = ModelFeatures.create_from_mfl_string(MFL_SPACE).convert_to_funcs()
        for key, fn in table.items():
            _MFL_FUNCS[f"{key[0]}({','.join(str(a) for a in key[1:])})"] = fn


def _build_derived(base):
    """An unusual but legal start model: mox2 with one peripheral, lag time and mixed elimination, plus derived
    statements that READ the structural symbols (before the ODEs: THALFA = 0.693/KA, K21D = Q/V3; after them:
    CLTOT = CL + CLMM, TLAG = ALAG1), so that every request that removes or replaces a feature meets a symbol some
    other statement still reads (the clean-up of the setters must keep such definitions)."""
    from pharmpy.basic import Expr
    from pharmpy.model import Assignment

    m = base
    for tok in ("P:1", "L:1", "E:MIX"):
        m2, out, info = apply(m, tok)
        if m2 is None:
            raise RuntimeError(f"{tok} failed while building: {info}")
        m = m2
    st = m.statements
    odes = st.ode_system
    central, depot = odes.central_compartment, odes.find_depot(st)
    per = odes.find_peripheral_compartments()[0]
    ka, k21 = odes.get_flow(depot, central), odes.get_flow(per, central)
    lag = odes.dosing_compartments[0].lag_time
    before = (st.before_odes + Assignment.create(Expr.symbol("THALFA"), Expr.float(0.693) / ka)
              + Assignment.create(Expr.symbol("K21D"), k21))
    after = (st.after_odes + Assignment.create(Expr.symbol("CLTOT"), Expr.symbol("CL") + Expr.symbol("CLMM"))
             + Assignment.create(Expr.symbol("TLAG"), lag))
    return m.replace(statements=before + odes + after).update_source()


_FEAT_RE = re.compile(r"(ABSORPTION|ELIMINATION|LAGTIME|TRANSITS|PERIPHERALS)\(([^)]*)\)")


def classify(model, route="iv", mfl=False):
    """Feature vector of a real model: the public detectors combined with get_model_features' documented priority
    (SEQ-ZO-FO > ZO > FO > INST; MIX-FO-MM > ZO > FO > MM).  With mfl=True get_model_features itself is called
    as well and must tell the same story (a difference is reported as drift, a failure as a detector error).
    Returns (vector, drift-notes)."""
    from pharmpy.modeling import (
        get_bioavailability, get_number_of_peripheral_compartments, get_number_of_transit_compartments,
        has_first_order_absorption, has_first_order_elimination, has_instantaneous_absorption,
        has_michaelis_menten_elimination, has_mixed_mm_fo_elimination, has_presystemic_metabolite,
        has_seq_zo_fo_absorption, has_zero_order_absorption, has_zero_order_elimination,
    )
    from pharmpy.modeling.odes import has_lag_time

    odes = model.statements.ode_system
    a = ("SEQ" if has_seq_zo_fo_absorption(model) else "ZO" if has_zero_order_absorption(model)
         else "FO" if has_first_order_absorption(model) else "INST" if has_instantaneous_absorption(model) else "NONE")
    e = ("MIX" if has_mixed_mm_fo_elimination(model) else "ZO" if has_zero_order_elimination(model)
         else "FO" if has_first_order_elimination(model) else "MM" if has_michaelis_menten_elimination(model) else "NONE")
    depot = odes.find_depot(model.statements) is not None
    met = odes.find_compartment("METABOLITE")
    vec = {
        "abs": a, "elim": e, "periph": int(get_number_of_peripheral_compartments(model)),
        "tr": int(get_number_of_transit_compartments(model)), "depot": bool(depot), "lag": bool(has_lag_time(model)),
        "bio": bool(get_bioavailability(model)),
        "metab": "none" if met is None else ("psc" if has_presystemic_metabolite(model) else "basic"),
        "effect": odes.find_compartment("EFFECT") is not None, "route": route,
    }
    drift = []
    if mfl:
        from pharmpy.tools.mfl.parse import get_model_features

        feats = dict(_FEAT_RE.findall(get_model_features(model, supress_warnings=True)))
        a2 = {"SEQ-ZO-FO": "SEQ", None: "NONE"}.get(feats.get("ABSORPTION"), feats.get("ABSORPTION"))
        e2 = {"MIX-FO-MM": "MIX", None: "NONE"}.get(feats.get("ELIMINATION"), feats.get("ELIMINATION"))
        tr2 = int(feats["TRANSITS"].partition(",")[0]) if "TRANSITS" in feats else 0
        p2 = int(feats["PERIPHERALS"]) if "PERIPHERALS" in feats else 0
        got = (a2, e2, p2, tr2, feats.get("LAGTIME") == "ON")
        want = (vec["abs"], vec["elim"], vec["periph"], vec["tr"], vec["lag"])
        if got != want:
            drift.append(f"get_model_features {got} != detectors with documented priority {want}")
        if "TRANSITS" in feats and feats["TRANSITS"].endswith(",DEPOT") != depot:
            drift.append(f"TRANSITS({feats['TRANSITS']}) but find_depot says {depot}")
    return vec, drift


def _graph(model):
    """compartment graph through the public API: names, non-zero flows (with 'OUT'), doses"""
    import sympy
    from pharmpy.model import output

    odes = model.statements.ode_system
    names = list(odes.compartment_names)
    comps = {n: odes.find_compartment(n) for n in names}
    edges = []
    for a in names:
        for b in names:
            if a != b and sympy.sympify(odes.get_flow(comps[a], comps[b])) != 0:
                edges.append((a, b))
        if sympy.sympify(odes.get_flow(comps[a], output)) != 0:
            edges.append((a, "OUT"))
    doses = [type(d).__name__ for n in names for d in comps[n].doses]
    return names, edges, doses


def wellformed(model):
    names, edges, doses = _graph(model)
    adj = {n: set() for n in names + ["OUT"]}
    for a, b in edges:
        adj[a].add(b)
        adj[b].add(a)
    seen, todo = {"OUT"}, ["OUT"]
    while todo:
        for y in adj[todo.pop()]:
            if y not in seen:
                seen.add(y)
                todo.append(y)
    return {"connected": len(seen) == len(names) + 1, "ndoses": len(doses)}


def shape(model):
    names, edges, doses = _graph(model)
    deg = sorted((sum(1 for a, b in edges if b == n), sum(1 for a, b in edges if a == n)) for n in names)
    return (len(names), tuple(deg), tuple(sorted(doses)))


def _norm_msg(msg: str) -> str:
    msg = msg.split("Compartment(")[0]
    msg = re.sub(r"\d+", "#", msg)
    return msg.strip()[:90]


def apply(model, tok, mfl_key=None):
    """One public setter call - or, with mfl_key, one call of the function the MFL feature -> function table
    stores under that key.  Returns (model2 | None, out, info) with out in applied / refused / error."""
    try:
        if mfl_key is not None and mfl_key not in _MFL_FUNCS:
            raise KeyError(f"the MFL table built from the search space has no entry {mfl_key}")
        m2 = (_SETTERS[tok] if mfl_key is None else _MFL_FUNCS[mfl_key])(model)
    except Exception as e:  # noqa: BLE001 - the class is the observation
        tb = traceback.extract_tb(e.__traceback__)
        inner = tb[-1]
        ph = [f for f in tb if "/pharmpy/" in f.filename]
        site = ph[-1] if ph else inner
        where = site.filename.split("/pharmpy/")[-1] + ":" + site.name
        raised_by_validation = (
            isinstance(e, (ValueError, NotImplementedError)) or type(e).__name__ == "ModelError"
        ) and "/pharmpy/modeling/" in inner.filename and (inner.line or "").lstrip().startswith("raise")
        info = {"exc": type(e).__name__, "where": where, "msg": _norm_msg(str(e))}
        return None, ("refused" if raised_by_validation else "error"), info
    return m2, "applied", {}


def observe(model, route, mfl=False):
    """classify + code generation + well-formedness of a model a setter returned; (vec, wf, drift) or error info"""
    try:
        vec, drift = classify(model, route, mfl=mfl)
    except Exception as e:  # noqa: BLE001
        return None, None, {"exc": "detect:" + type(e).__name__, "where": _site(e), "msg": _norm_msg(str(e))}
    try:
        code = model.code
        if not isinstance(code, str) or not code.strip():
            raise ValueError("empty model code")
    except Exception as e:  # noqa: BLE001
        return None, None, {"exc": "code:" + type(e).__name__, "where": _site(e), "msg": _norm_msg(str(e))}
    try:
        wf = wellformed(model)
    except Exception as e:  # noqa: BLE001
        return None, None, {"exc": "graph:" + type(e).__name__, "where": _site(e), "msg": _norm_msg(str(e))}
    return vec, wf, {"drift": drift}


def _site(e):
    tb = traceback.extract_tb(e.__traceback__)
    ph = [f for f in tb if "/pharmpy/" in f.filename]
    s = ph[-1] if ph else tb[-1]
    return s.filename.split("/pharmpy/")[-1] + ":" + s.name


# ----------------------------------------------------------------------------- exact comparison of model functions


def _fp_items(model, salt):
    """flat dict of named exact values: DVs, F, ODE flows, dose attributes (None = undefined at the probe)"""
    from . import qeval

    f = qeval.fingerprint(model, salt=salt, etas="small", eps="small")
    out = {}
    dvs = [str(k) for k in model.dependent_variables]
    for k in dvs + ["F"]:
        if k in f["vars"]:
            out[("var", k)] = f["vars"][k]
    o = f["ode"]
    if o is not None:
        out[("names",)] = tuple(sorted(o["names"]))
        for k, val in o["flows"].items():
            out[("flow",) + k] = val
        for c, d in o["comps"].items():
            for att in ("lag", "bio", "input"):
                out[(att, c)] = d[att]
            out[("ndoses", c)] = len(d["doses"])
            for i, dose in enumerate(d["doses"]):
                for kk, vv in dose.items():
                    out[("dose", c, i, kk)] = vv
    return out


def _float_items(model, salt):
    """the same items in floating point with the real exp/log (re-check of exact disagreements)"""
    import sympy
    from pharmpy.model import Assignment, CompartmentalSystem, output
    from . import qeval

    envq = qeval.probe_env(model, salt, "small", "small")
    env = {k: float(val) for k, val in envq.items() if val is not None}

    def ev(x):
        try:
            e = sympy.sympify(x)
            rep = {}
            for s in e.free_symbols:
                if s.name not in env:
                    env[s.name] = float(qeval.name_value(s.name, salt))
                rep[s] = env[s.name]
            for fn in e.atoms(sympy.core.function.AppliedUndef):
                if str(fn) not in env:
                    env[str(fn)] = float(qeval.name_value(str(fn), salt))
                rep[fn] = env[str(fn)]
            val = e.xreplace(rep)
            val = val.subs(rep).evalf()
            return float(val)
        except Exception:  # noqa: BLE001
            return None

    out = {}
    dvs = {str(k) for k in model.dependent_variables} | {"F"}
    for st in model.statements:
        if isinstance(st, Assignment):
            name = str(sympy.sympify(st.symbol))
            val = ev(st.expression)
            if val is None:
                env.pop(name, None)
            else:
                env[name] = val
            if name in dvs:
                out[("var", name)] = val
        elif isinstance(st, CompartmentalSystem):
            names = list(st.compartment_names)
            comps = [st.find_compartment(n) for n in names]
            for c in comps:
                env[str(sympy.sympify(c.amount))] = float(qeval.name_value("amount:" + c.name, 7))
            out[("names",)] = tuple(sorted(names))
            for a in comps:
                for b in comps:
                    if a is not b and sympy.sympify(st.get_flow(a, b)) != 0:
                        out[("flow", a.name, b.name)] = ev(st.get_flow(a, b))
                if sympy.sympify(st.get_flow(a, output)) != 0:
                    out[("flow", a.name, "OUT")] = ev(st.get_flow(a, output))
            for c in comps:
                out[("lag", c.name)] = ev(c.lag_time)
                out[("bio", c.name)] = ev(c.bioavailability)
                out[("input", c.name)] = ev(c.input)
                out[("ndoses", c.name)] = len(c.doses)
                for i, d in enumerate(c.doses):
                    out[("dose", c.name, i, "class")] = type(d).__name__
                    out[("dose", c.name, i, "admid")] = d.admid
                    out[("dose", c.name, i, "amount")] = ev(d.amount)
                    if hasattr(d, "rate"):
                        out[("dose", c.name, i, "rate")] = ev(d.rate) if d.rate is not None else None
                        out[("dose", c.name, i, "duration")] = ev(d.duration) if d.duration is not None else None
    return out


def _diff_items(ia, ib, tol=None):
    diffs = []
    for k in sorted(set(ia) | set(ib), key=str):
        if k not in ia or k not in ib:
            if k[0] in ("flow", "names", "ndoses", "var"):
                diffs.append((k, ia.get(k, "absent"), ib.get(k, "absent")))
            continue
        x, y = ia[k], ib[k]
        if x is None or y is None:
            continue
        if tol is not None and isinstance(x, float) and isinstance(y, float):
            if abs(x - y) > tol * max(1.0, abs(x), abs(y)):
                diffs.append((k, x, y))
        elif x != y:
            diffs.append((k, x, y))
    return diffs


def same_function(ma, mb, vec_a=None, vec_b=None):
    """'same' | 'diff' | 'skip' plus a short explanation.  Parameters are matched by name (initial estimates are
    ignored because the probes assign values by name); if the parameter name sets differ the comparison falls
    back to feature vector + graph shape (DESIGN C08)."""
    pa = {p.name for p in ma.parameters} | set(ma.random_variables.names)
    pb = {p.name for p in mb.parameters} | set(mb.random_variables.names)
    verdict, why = "same", "exact"
    try:
        for salt in (1, 2):
            d = _diff_items(_fp_items(ma, salt), _fp_items(mb, salt))
            if d:
                # re-check in floating point with the real functions before alarming
                fd = _diff_items(_float_items(ma, salt), _float_items(mb, salt), tol=1e-6)
                if fd:
                    k, x, y = fd[0]
                    verdict, why = "diff", f"salt {salt}: {k}: {x} vs {y} (exact: {d[0][0]}: {d[0][1]} vs {d[0][2]})"
                    break
                why = "model_artefact: exact values differ, floating point agrees"
    except Exception as e:  # noqa: BLE001 - the evaluator could not handle the model: not judged
        verdict, why = "skip", f"fingerprint failed: {type(e).__name__}: {str(e)[:80]}"
    if verdict == "same" or pa == pb:
        return verdict, why
    # parameter name sets differ (a parameter was renamed / re-created): the probes cannot line the two models up
    try:
        va = vec_a if vec_a is not None else classify(ma)[0]
        vb = vec_b if vec_b is not None else classify(mb)[0]
        if va == vb and shape(ma) == shape(mb):
            return "same", "fallback(vector+shape): parameter names differ " + ",".join(sorted(pa ^ pb))[:80]
        return "diff", f"fallback: vector/shape differ {va} {shape(ma)} vs {vb} {shape(mb)}"
    except Exception as e:  # noqa: BLE001
        return "skip", f"fallback failed: {type(e).__name__}"


# ----------------------------------------------------------------------------- worker: all obligations of one state


def _private_copy(start):
    """pharmpy models share their DataFrame; code generation for some (ill-formed) models adds a CMT column to it in
    place (the defect C06 reports: add_cmt / add_admid assign into the argument's dataset).  Every task therefore
    works on a private copy of the start model's dataset, so that one observation cannot influence another."""
    m = _MODELS[start]
    if m.dataset is None:
        return m
    return m.replace(dataset=m.dataset.copy())


def _guard_dataset(model, cols0, note):
    """undo an in-place mutation of the shared dataset (and say so)"""
    df = model.dataset
    if df is not None and list(df.columns) != cols0:
        extra = [c for c in df.columns if c not in cols0]
        for c in extra:
            del df[c]
        gone = [c for c in cols0 if c not in df.columns]
        return [f"shared dataset mutated in place (column(s) {extra} added{', ' + str(gone) + ' removed' if gone else ''}) by {note}"]
    return []


def _rebuild(start, hist):
    m = _private_copy(start)
    for tok in hist:
        m2, out, info = apply(m, tok)
        if m2 is None:
            raise core.MachineryError(f"history {hist} from {start} is not reproducible at {tok}: {info}")
        m = m2
    return m


def _vec_pub(vec):
    return {k: vec[k] for k in CATS + ["route"]}


def _step_obs(start, hist, pre, tok, model, route, pre_ndoses, mfl=False, mfl_key=None):
    """execute tok on model; returns (obs dict, model2 | None, post vec | None)"""
    t0 = time.process_time()
    m2, out, info = apply(model, tok, mfl_key)
    obs = {"kind": "step", "via": "setter" if mfl_key is None else "mfl", "start": start, "hist": list(hist), "act": tok,
           "pre": _vec_pub(pre), "out": out,
           "post": _vec_pub(pre), "wf": {"connected": True, "doses_same": True}, "info": info}
    post = None
    if m2 is not None:
        post, wf, extra = observe(m2, route, mfl)
        if post is None:
            obs["out"], obs["info"], m2 = "error", extra, None
        else:
            obs["post"] = _vec_pub(post)
            obs["wf"] = {"connected": wf["connected"], "doses_same": wf["ndoses"] == pre_ndoses}
            obs["info"] = {"ndoses": wf["ndoses"], "drift": extra["drift"]}
    obs["dt"] = round(time.process_time() - t0, 3)
    return obs, m2, post


def _flag(obs, ob, post):
    """clean: applied, well-formed, and exactly the vector TLC's obligation names with nothing left open in the
    absorption structure - only such steps lead to vectors that are explored further (a request that forms a
    documented 'never run' pair is tried from every clean vector, but nothing is built on its result);
    open: the obligation leaves the absorption structure open."""
    obs["open"] = bool(set(ob.get("free", [])) & {"abs", "tr", "depot"}) if "post" in ob else False
    ok = (obs["out"] == "applied" and post is not None and obs["wf"]["connected"] and obs["wf"]["doses_same"]
          and post["abs"] != "NONE" and post["elim"] != "NONE")
    obs["clean"] = bool(ok and not obs["open"] and ("post" not in ob or _on_template(ob, post)))


def _on_template(ob, post):
    """the real post-vector is the one TLC's obligation names (outside the categories it leaves open)"""
    return all(post[c] == ob["post"][c] for c in CATS if c not in ob["free"])


def expand(task):
    """Obligations of one reached state: every enabled request, f.f and undo where the spec names them."""
    start, hist, pre_key, obls, route, first, via_mfl = task
    model = _rebuild(start, hist)
    pre, _ = classify(model, route)
    if _key(pre) != pre_key:
        raise core.MachineryError(f"history {hist} from {start} reached {_key(pre)} instead of {pre_key} (non-deterministic setter?)")
    nd = wellformed(model)["ndoses"]
    cols0 = list(model.dataset.columns) if model.dataset is not None else None
    out = []
    if first:
        # get_model_features itself (the MFL rendering of this model) must tell the same story as the detectors
        try:
            _, drift = classify(model, route, mfl=True)
            out.extend({"kind": "note", "note": "detector drift: " + dn} for dn in drift)
        except Exception as e:  # noqa: BLE001 - the detector fails on a model a setter produced
            if not hist:
                raise core.MachineryError(f"get_model_features fails on start model {start}: {e}")
            prev = _rebuild(start, hist[:-1])
            ppre, _ = classify(prev, route)
            out.append({"kind": "step", "via": "setter", "start": start, "hist": list(hist[:-1]), "act": hist[-1], "pre": _vec_pub(ppre), "out": "error",
                        "post": _vec_pub(ppre), "wf": {"connected": True, "doses_same": True}, "dt": 0,
                        "info": {"exc": "detect:" + type(e).__name__, "where": _site(e), "msg": _norm_msg(str(e))}})
    for ob in obls:
        tok = ob["t"]
        out.extend({"kind": "note", "note": n} for n in _guard_dataset(model, cols0, f"the request before {tok} on {start}:{list(hist)}"))
        obs, m1, post = _step_obs(start, hist, pre, tok, model, route, nd)
        out.append(obs)
        out.extend({"kind": "note", "note": n} for n in _guard_dataset(model, cols0, f"{tok} (or its f.f / undo) on {start}:{list(hist)}"))
        _flag(obs, ob, post)
        if via_mfl and ob.get("mfl", "none") != "none":
            # the same request through the MFL feature -> function table: same obligation, judged the same way
            obsm, _mm, _pm = _step_obs(start, hist, pre, tok, model, route, nd, mfl_key=ob["mfl"])
            obsm["derived"] = "mfl"
            obsm["mfl_key"] = ob["mfl"]
            out.append(obsm)
            out.extend({"kind": "note", "note": n} for n in _guard_dataset(model, cols0, f"{tok} via MFL on {start}:{list(hist)}"))
        if not obs["clean"]:
            continue    # failed / ill-formed / off the template / never-run request: no relation is demanded on top
        nd1 = obs["info"]["ndoses"]
        h1 = list(hist) + [tok]
        if tok in IDEM_ACTS and m1 is not model:     # a setter that returned its argument is trivially idempotent
            obs2, m2, post2 = _step_obs(start, h1, post, tok, m1, route, nd1)
            obs2["derived"] = "idem"
            out.append(obs2)
            if m2 is not None:
                res, why = same_function(m1, m2, post, post2)
                out.append({"kind": "idem", "start": start, "hist": h1, "act": tok, "pre": _vec_pub(pre), "res": res, "why": why})
        inv = ob.get("inv", "none")
        if inv != "none" and _key(post) != pre_key:
            obs3, m3, post3 = _step_obs(start, h1, post, inv, m1, route, nd1)
            obs3["derived"] = "undo"
            out.append(obs3)
            if m3 is not None and _key(post3) == pre_key:
                res, why = same_function(model, m3, pre, post3)
                out.append({"kind": "undo", "start": start, "hist": h1, "act": tok, "inv": inv, "pre": _vec_pub(pre), "res": res, "why": why})
    return out


_TABLE: dict = {}       # vector key -> obligations (set in the parent before forking the history workers)


def replay_history(task):
    """one simulated history on a start model: every step is an observation; the history ends at the first step
    that is not clean (failed, ill-formed, off the template, or a 'never run' request)"""
    start, hist, route, _ = task
    model = _private_copy(start)
    cols0 = list(model.dataset.columns) if model.dataset is not None else None
    pre, _ = classify(model, route)
    out, done = [], []
    for tok in hist:
        obls = {o["t"]: o for o in _TABLE.get(_key(pre), [])}
        if tok not in obls:
            if _key(pre) not in _TABLE:
                break
            continue    # request not enabled in this vector (P+ at the upper bound)
        nd = wellformed(model)["ndoses"]
        obs, m1, post = _step_obs(start, done, pre, tok, model, route, nd)
        out.append(obs)
        out.extend({"kind": "note", "note": n} for n in _guard_dataset(model, cols0, f"{tok} on {start}:{done}"))
        _flag(obs, obls[tok], post)
        if obs["out"] != "applied":
            if obs["out"] == "refused":
                continue   # refused: the history goes on from the same model
            break
        if not obs["clean"]:
            break
        model, pre, done = m1, post, done + [tok]
        cols0 = list(model.dataset.columns) if model.dataset is not None else None
    if done:
        try:
            _, drift = classify(model, route, mfl=True)
            out.extend({"kind": "note", "note": "detector drift: " + dn} for dn in drift)
        except Exception as e:  # noqa: BLE001
            last = [o for o in out if o["kind"] == "step" and o.get("clean")][-1]
            out.append(dict(last, out="error", post=last["pre"], wf={"connected": True, "doses_same": True},
                            info={"exc": "detect:" + type(e).__name__, "where": _site(e), "msg": _norm_msg(str(e))}))
    return out


def _key(vec):
    return tuple(vec[c] for c in CATS) + (vec["route"],)


# ----------------------------------------------------------------------------- TLC side


def _check_vacuity(res, acts, what):
    miss = [n for n, tok in NAMED_ACTIONS.items() if tok in acts and res.coverage.get(n, (0, 0))[1] <= 0]
    if miss:
        raise core.MachineryError(f"{what}: actions never taken (vacuous model): {miss}")


def tlc_graph(cfg_name, acts, v: core.Verdict, timeout=1500):
    res = core.run_tlc(SPEC / "Features.tla", SPEC / cfg_name, workers=16, timeout=timeout)
    core.require_ok(res, f"Features.tla/{cfg_name}")
    if res.violated:
        raise core.MachineryError(f"Features.tla/{cfg_name}: design-level invariant {res.violated} violated:\n" + "\n".join(res.trace[-2:])[:1500])
    _check_vacuity(res, acts, f"Features.tla/{cfg_name}")
    core.tlc_stats_into(v, res)
    meta = [c for tag, c in res.prints if tag == "META"]
    if not meta or meta[0]["space"] != MFL_SPACE:
        raise core.MachineryError("the MFL search space of the harness differs from FeaturesDefs.MFLSpace")
    missing = sorted(k for k in meta[0]["keys"].values() if k not in _MFL_FUNCS)
    if missing:
        raise core.MachineryError(f"the MFL feature -> function table has no entry for {missing}")
    table = {}
    for tag, c in res.prints:
        if tag == "CASE":
            table[_key(c["s"])] = c["acts"]
    if len(table) != res.distinct:
        raise core.MachineryError(f"Features.tla/{cfg_name}: {len(table)} cases emitted for {res.distinct} distinct states")
    # every feature value of the alphabet is reachable (no dead part of the MFL alphabet)
    reach = {c: set() for c in CATS}
    for k in table:
        for c, val in zip(CATS, k):
            reach[c].add(val)
    want = {"abs": {"INST", "FO", "ZO", "SEQ"}, "elim": {"FO", "ZO", "MM", "MIX"}, "periph": {0, 1, 2, 3},
            "tr": {0, 1, 2, 3, 4}, "depot": {True, False}, "lag": {True, False}}
    if "B:1" in acts:
        want.update({"bio": {True, False}, "metab": {"none", "basic", "psc"}, "effect": {True, False}})
    dead = {c: sorted(map(str, want[c] - reach[c])) for c in want if want[c] - reach[c]}
    if dead:
        raise core.MachineryError(f"Features.tla/{cfg_name}: feature values never reached: {dead}")
    n_obl = sum(len(a) for a in table.values())
    v.add_coverage(tlc_graph={"cfg": cfg_name, "states": res.distinct, "transitions": res.generated, "depth": res.depth,
                              "obligations": n_obl, "wall_s": round(res.wall, 1),
                              "idem_obligations": sum(1 for a in table.values() for o in a if o["idem"]),
                              "undo_obligations": sum(1 for a in table.values() for o in a if o["inv"] != "none")})
    return table


def tlc_judge(records, v: core.Verdict | None, what="observations"):
    """records: list of dicts for FeaturesTrace (kinds step / idem / undo / obl).  Returns (verdicts by index, cases)"""
    if not records:
        return {}, []
    d = core.scratch("c08tr")
    f = d / "recs.json"
    f.write_text(json.dumps(records))
    try:
        res = core.run_tlc(SPEC / "FeaturesTrace.tla", SPEC / "FeaturesTrace.cfg", workers=1, timeout=1800, env={"RECS": str(f)}, coverage=False)
    finally:
        shutil.rmtree(d, ignore_errors=True)
    core.require_ok(res, f"FeaturesTrace.tla ({what})")
    if res.violated:
        raise core.MachineryError(f"FeaturesTrace.tla: unexpected {res.violated}")
    verdicts = {x["id"] - 1: x for tag, x in res.prints if tag == "V"}
    cases = [x for tag, x in res.prints if tag == "CASE"]
    n_obs = sum(1 for r in records if r["kind"] != "obl")
    if len(verdicts) != n_obs:
        raise core.MachineryError(f"FeaturesTrace.tla judged {len(verdicts)} of {n_obs} {what}")
    if v is not None:
        v.add_coverage(states=res.distinct, transitions=res.generated)
    return verdicts, cases


def tlc_simulate(n, length, seed):
    d = core.scratch("c08sim")
    cfg = d / "FeaturesSim.cfg"
    cfg.write_text((SPEC / "FeaturesSim.cfg").read_text().replace("MaxHist = 6", f"MaxHist = {length}"))
    try:
        res = core.run_tlc(SPEC / "Features.tla", cfg, workers=4, timeout=1800, simulate=f"num={max(50, n // 2)}", depth=length + 1, seed=seed, coverage=False)
    finally:
        shutil.rmtree(d, ignore_errors=True)
    core.require_ok(res, "Features.tla -simulate")
    hists = sorted({tuple(h) for tag, h in res.prints if tag == "HIST" and len(h) == length})
    if len(hists) < min(n, 20):
        raise core.MachineryError(f"Features.tla -simulate produced only {len(hists)} histories")
    random.Random(seed).shuffle(hists)
    return [list(h) for h in hists[:n]], res


# ----------------------------------------------------------------------------- the walk


class Book:
    """observations -> deduplicated TLC records, with the concrete histories that produced them"""

    def __init__(self):
        self.recs: list = []
        self.index: dict = {}
        self.conc: list = []        # per record: list of concrete observations (first few)
        self.count: list = []
        self.calls = 0
        self.drift: dict = {}
        self.notes: dict = {}
        self.times: list = []

    def add(self, obs):
        if obs["kind"] == "note":
            key = re.sub(r" on \w+:\[.*$", "", obs["note"])[:160]
            self.notes.setdefault(key, [0, obs["note"]])[0] += 1
            return
        if obs["kind"] == "step":
            rec = {"kind": "step", "via": obs.get("via", "setter"), "pre": obs["pre"], "act": obs["act"], "out": obs["out"],
                   "post": obs["post"], "wf": obs["wf"]}
            sig = json.dumps([rec, obs["info"].get("exc"), obs["info"].get("where"), obs["info"].get("msg")], sort_keys=True)
            self.calls += 1
            self.times.append(obs.get("dt", 0))
            for dn in obs["info"].get("drift", []) or []:
                self.drift[dn] = self.drift.get(dn, 0) + 1
        else:
            rec = {"kind": obs["kind"], "pre": obs["pre"], "act": obs["act"], "inv": obs.get("inv", "none"), "res": obs["res"]}
            sig = json.dumps(rec, sort_keys=True)
        i = self.index.get(sig)
        if i is None:
            i = self.index[sig] = len(self.recs)
            self.recs.append(rec)
            self.conc.append([])
            self.count.append(0)
        self.count[i] += 1
        if len(self.conc[i]) < 3:
            self.conc[i].append(obs)


def _case_record(obs, verdict):
    pre = dict(obs["pre"])
    pre["has_transits"] = pre["tr"] > 0
    pre["has_metab"] = pre["metab"] != "none"
    tok = obs["act"]
    cat = "TN" if tok.startswith("T:") and tok.endswith("N") else tok[0]
    if obs["kind"] == "step":
        full = list(obs["hist"]) + [tok]
    else:   # relation: hist already ends with the first application of tok
        full = list(obs["hist"]) + [obs["inv"] if obs["kind"] == "undo" else tok]
    info = obs.get("info", {})
    kind = verdict["v"]
    if kind == "internal-error":
        outcome = info.get("exc", "error")
    elif kind == "undocumented-refusal":
        outcome = "refusal:" + info.get("exc", "?")
    elif kind == "frame":
        outcome = "frame:" + "+".join(sorted(verdict["bad"]))
    else:
        outcome = kind
    rec = {
        "start": obs["start"], "history": {"full": full, "suffix": full[-2:]}, "act": tok, "act_cat": cat,
        "via": obs.get("via", "setter") + (":" + obs["mfl_key"] if obs.get("mfl_key") else ""),
        "pre": pre, "outcome": outcome, "where": info.get("where", ""), "msg": info.get("msg", ""),
    }
    if obs["kind"] == "step":
        rec["post"] = obs["post"] if obs["out"] == "applied" else None
        rec["wf"] = obs["wf"]
    else:
        rec["relation"] = {"kind": obs["kind"], "inv": obs.get("inv"), "res": obs["res"], "why": obs.get("why")}
    return rec


def _describe(rec):
    h = ",".join(rec["history"]["full"])
    p = rec["pre"]
    ps = f"{p['abs']}/{p['elim']}/P{p['periph']}/T{p['tr']}{'D' if p['depot'] else 'N'}/L{int(p['lag'])}/B{int(p['bio'])}/{p['metab']}/{'X' if p['effect'] else '-'}"
    via = "" if rec.get("via", "setter") == "setter" else f" through the MFL table entry {rec['via'][4:]}"
    base = f"{rec['start']}: [{h}] request {rec['act']}{via} on {ps}: {rec['outcome']}"
    if rec.get("msg"):
        base += f" ({rec['where']}: {rec['msg']})"
    if rec.get("post"):
        q = rec["post"]
        base += f" -> {q['abs']}/{q['elim']}/P{q['periph']}/T{q['tr']}{'D' if q['depot'] else 'N'}/L{int(q['lag'])}/B{int(q['bio'])}/{q['metab']}/{'X' if q['effect'] else '-'}"
    if rec.get("relation"):
        base += f" {rec['relation']['why']}"
    return base


REJECT = {"internal-error", "undocumented-refusal", "illformed", "unclassifiable", "frame", "idem", "undo"}


def judge_book(book: Book, v: core.Verdict):
    verdicts, _ = tlc_judge(book.recs, v)
    tally: dict = {}
    for i, rec in enumerate(book.recs):
        vd = verdicts[i]
        tally[vd["v"]] = tally.get(vd["v"], 0) + 1
        if vd["v"] in REJECT:
            for obs in book.conc[i][:1]:
                case = _case_record(obs, vd)
                case["occurrences"] = book.count[i]
                v.violation(_strip_volatile(case), _describe(case))
    return tally, verdicts


def _strip_volatile(case):
    c = dict(case)
    c.pop("occurrences", None)
    return c


def _ext_or_bio(obs):
    q = obs["post"]
    # first request: any of B / M / X; deeper: only the pure PK + bioavailability states (metabolite x effect
    # combinations are left to the thorough tier)
    return (obs["act"] in EXT and not obs["hist"]) or (q["bio"] and q["metab"] == "none" and not q["effect"])


def walk(v, book, start, svec, acts, depth, table, rng, expand_if=None, max_states=None, mfl_depth=0):
    """Level-synchronous walk from one start model: every obligation of every vector reached at distance < depth."""
    route = START_VEC[svec][4]
    vec0, _ = classify(_MODELS[start], route)
    exp = START_VEC[svec]
    exp_elim, exp_lag = (exp[5], exp[6]) if len(exp) > 5 else ("FO", False)
    if (vec0["abs"], vec0["periph"], vec0["tr"], vec0["depot"]) != exp[:4] or vec0["elim"] != exp_elim or vec0["lag"] != exp_lag or vec0["bio"]:
        if start == "mox2_derived":
            # built through the setters (mox2 + P:1, L:1, E:MIX): those steps are judged in the mox2 walks; if they do
            # not lead to the expected vector this walk has no footing - say so, do not mask the verdict of the others
            v.notes.append(f"derived start model reports {vec0} instead of {exp}: its walk was skipped")
            return 0, 0, 0, 0
        raise core.MachineryError(f"start model {start} reports {vec0}, the specification's start vector {svec} is {exp}")
    frontier = [(_key(vec0), ())]
    seen = {_key(vec0)}
    n_states = n_edges = n_open = 0
    for d in range(depth):
        if not frontier:
            break
        missing = [k for k, _ in frontier if k not in table]
        if missing:
            recs = [{"kind": "obl", "pre": dict(zip(CATS + ["route"], k)), "acts": list(ALL_ACTS)} for k in missing]
            _, cases = tlc_judge(recs, None, "obligation requests")
            for c in cases:
                table[_key(c["s"])] = c["acts"]
        tasks = []
        for k, hist in frontier:
            obls = [o for o in table[k] if o["t"] in acts]
            obls = [dict(o, inv=o["inv"] if o["inv"] in acts else "none") for o in obls]
            n_states += 1
            for i in range(0, len(obls), CHUNK):
                tasks.append((start, hist, k, obls[i:i + CHUNK], route, i == 0, d < mfl_depth))
        results = core.pmap(expand, tasks, procs=16, chunk=1)
        cand: dict = {}
        for (s_, hist, k, obls, _r, _f, _m), obs_list in zip(tasks, results):
            for obs in obs_list:
                book.add(obs)
                if obs["kind"] == "step" and not obs.get("derived"):
                    n_edges += 1
                    n_open += bool(obs.get("open"))
                    if obs.get("clean"):
                        pk = _key(obs["post"])
                        if pk not in seen and (expand_if is None or expand_if(obs)):
                            cand.setdefault(pk, []).append(tuple(hist) + (obs["act"],))
        frontier = []
        for pk in sorted(cand, key=str):
            seen.add(pk)
            frontier.append((pk, rng.choice(sorted(cand[pk]))))   # VERIF_SEED picks the concrete history of a vector
        if max_states is not None and len(frontier) > max_states:
            rng.shuffle(frontier)
            frontier = sorted(frontier[:max_states], key=str)
    return n_states, n_edges, len(seen), n_open


# ----------------------------------------------------------------------------- entry points


def main(tier: str, seed: int) -> int:
    v = core.Verdict("C08", tier, seed)
    v.assumptions = [
        "feature vector read through get_model_features' documented priority (SEQ-ZO-FO > ZO > FO > INST; MIX-FO-MM > ZO > FO > MM) plus get_bioavailability / has_presystemic_metabolite / compartment names METABOLITE, EFFECT",
        "documented 'never run' pairs (docs/modelsearch.rst) leave both members open; elimination is unobservable on drug-metabolite models, F on pre-systemic ones",
        "equivalence up to initial estimates = exact rational fingerprints with values assigned by symbol name (harness/qeval.py); parameter name sets that differ fall back to vector + graph shape",
        "PERIPHERALS(n, MET), TMDD and indirect-effect setters are not in the alphabet",
    ]
    rng = random.Random(seed)
    t0 = time.time()
    names = ["pheno_real", "mox2", "mox2_derived"] if tier == "quick" else None
    _load(names)
    book = Book()
    if tier == "quick":
        table = tlc_graph("Features.cfg", MFL5, v)
        plan = [
            ("pheno_real", "iv1", MFL5, 3, None, None, 2),
            ("mox2", "oral1", MFL5, 3, None, 36, 2),
            # bioavailability / metabolite / effect compartment: the requests themselves and every request after them
            ("pheno_real", "iv1", ALL_ACTS, 2, lambda o: o["act"] in EXT, None, 1),
            # ... and on the oral model everything that can be requested from the bioavailability states
            # (depot + lag + F at once is reached as B:1, L:1: dose attributes must survive every later request)
            ("mox2", "oral1", ALL_ACTS, 3, _ext_or_bio, None, 1),
            # every request on the start model whose derived statements still read what the request cleans up
            ("mox2_derived", "der1", MFL5, 1, None, None, 1),
        ]
    else:
        table = tlc_graph("FeaturesFull.cfg", ALL_ACTS, v, timeout=3000)
        hists, sres = tlc_simulate(3000, 8, seed)     # histories for the replay after the walks
        plan = [
            ("pheno_real", "iv1", ALL_ACTS, 4, None, 300, 3),
            ("mox2", "oral1", ALL_ACTS, 4, None, 300, 3),
        ] + [(n, sv, ALL_ACTS, 3, None, 100, 2) for n, _, sv in START_MODELS[2:-1]] + [("mox2_derived", "der1", ALL_ACTS, 2, None, None, 1)]
    walks = []
    table_ext: dict = {}   # obligations over the full alphabet, asked from TLC on demand (quick tier)
    for start, svec, acts, depth, expand_if, cap, mfl_depth in plan:
        if start not in _MODELS:
            v.notes.append(f"start model {start} is not available: its walk was skipped")
            continue
        tb = table if tier == "thorough" or len(acts) == len(MFL5) else table_ext
        ns, ne, nseen, nopen = walk(v, book, start, svec, set(acts), depth, tb, rng, expand_if, cap, mfl_depth)
        walks.append({"start": start, "acts": len(acts), "depth": depth, "states_expanded": ns, "edges": ne, "vectors_seen": nseen,
                      "never_run_requests": nopen,
                      "t": round(time.time() - t0, 1)})
        print(f"C08 walk {walks[-1]}", file=sys.stderr, flush=True)
    n_hist = 0
    if tier == "thorough":
        _TABLE.clear()
        _TABLE.update(table)
        tasks = []
        for i, h in enumerate(hists):
            start, _, svec = START_MODELS[i % len(START_MODELS)]
            if start in _MODELS:
                tasks.append((start, h, START_VEC[svec][4], None))
        for obs_list in core.pmap(replay_history, tasks, procs=16, chunk=4):
            for obs in obs_list:
                book.add(obs)
        n_hist = len(tasks)
        v.add_coverage(simulated_histories=n_hist, simulate_states=sres.generated)
    tally, _ = judge_book(book, v)
    steps = [r for r in book.recs if r["kind"] == "step"]
    rels = [r for r in book.recs if r["kind"] != "step"]
    executed_obl = {(_key(r["pre"]), r["act"]) for r in steps}
    reached = {k for k, _ in executed_obl}
    total_obl = sum(len([o for o in table[k]]) for k in reached if k in table)
    for dn, n in sorted(book.drift.items(), key=lambda kv: -kv[1])[:10]:
        v.notes.append(f"detector drift ({n}x): {dn}")
    for key, (n, first) in sorted(book.notes.items(), key=lambda kv: -kv[1][0])[:10]:
        v.notes.append(f"({n}x) {first}")
    times = sorted(book.times)
    v.add_coverage(
        evaluations=book.calls,
        distinct_nontrivial=len(steps),
        traces_validated_against_impl=len(book.recs),
        setter_calls=book.calls,
        distinct_step_observations=len(steps),
        distinct_relation_observations=len(rels),
        requests_through_mfl_table=sum(book.count[i] for i, r in enumerate(book.recs) if r.get("via") == "mfl"),
        vectors_reached_on_real_models=len(reached),
        obligations_executed=len(executed_obl),
        obligations_of_reached_vectors=total_obl,
        verdict_tally=tally,
        walks=walks,
        cpu_s=round(sum(__import__("os").times()[:4]), 1),   # own + children (workers, TLC): wall depends on machine load
        setter_call_cpu_ms={"median": int(1000 * times[len(times) // 2]) if times else 0, "p95": int(1000 * times[int(len(times) * 0.95)]) if times else 0},
        rule="one observation = one call of a public setter on a real model (pre-vector, request, outcome, post-vector, well-formedness) "
             "or one exact comparison f(m) vs f(f(m)) / m vs undo(f(m)); distinct = after merging identical observations from different histories; "
             "every one is judged by TLC (FeaturesTrace.tla)",
        samples=[{"start": c[0]["start"], "history": c[0]["hist"], "act": c[0]["act"], "pre": c[0]["pre"], "out": c[0].get("out", c[0].get("res")),
                  "post": c[0].get("post")} for c in book.conc[:400:60]],
        exhaustive=False,
    )
    return v.finish(min_traces=200 if tier == "quick" else 2000)


def replay(path: str) -> int:
    """Re-execute the history of a replay file on the real models and let TLC judge the last step again."""
    data = json.loads(open(path).read())
    case = data["case"]
    _load([case["start"]])
    svec = [sv for n, _, sv in START_MODELS if n == case["start"]][0]
    route = START_VEC[svec][4]
    full = case["history"]["full"]
    rel = case.get("relation")
    n_tail = 1 + (1 if rel else 0)
    hist, tail = full[: len(full) - n_tail], full[len(full) - n_tail:]
    print(f"replaying {case['start']}: {full}")
    model = _rebuild(case["start"], hist)
    pre, _ = classify(model, route)
    print("pre :", pre)
    book = Book()
    ob = {"t": tail[0], "inv": rel["inv"] if rel and rel["kind"] == "undo" else "none"}
    via = case.get("via", "setter")
    if via.startswith("mfl:"):
        ob["mfl"] = via[4:]
    for obs in expand((case["start"], tuple(hist), _key(pre), [ob], route, False, via.startswith("mfl:"))):
        if obs["kind"] == "note":
            print(" ", obs["note"])
            continue
        print(" ", obs["kind"], obs["act"], obs.get("out", obs.get("res")), obs.get("post", ""), obs.get("info", obs.get("why", "")))
        book.add(obs)
    verdicts, _ = tlc_judge(book.recs, None)
    bad = 0
    for i, rec in enumerate(book.recs):
        print("TLC:", rec["kind"], rec["act"], "->", verdicts[i]["v"], verdicts[i]["bad"])
        bad += verdicts[i]["v"] in REJECT
    return 1 if bad else 0


def selftest(seed: int) -> int:
    """Binding demonstration: TLC accepts a faithful observation and rejects corrupted ones."""
    pre = {"abs": "FO", "elim": "FO", "periph": 0, "tr": 0, "depot": True, "lag": False, "bio": True, "metab": "none", "effect": False, "route": "oral"}
    ok = {"kind": "step", "via": "setter", "pre": pre, "act": "L:1", "out": "applied", "post": dict(pre, lag=True), "wf": {"connected": True, "doses_same": True}}
    recs = [
        ok,
        dict(ok, post=dict(pre, lag=False)),                     # detector does not report the requested feature
        dict(ok, post=dict(pre, lag=True, bio=False)),           # another category silently reset
        dict(ok, out="refused"),                                 # refusal where none is documented
        dict(ok, out="error"),
        dict(ok, wf={"connected": True, "doses_same": False}),
        dict(ok, via="mfl", post=dict(pre, lag=False)),           # the MFL table entry does something else than requested
        dict(ok, via="mfl", act="P+", post=dict(pre, periph=1)),  # no MFL entry makes this request
        {"kind": "idem", "pre": pre, "act": "L:1", "inv": "none", "res": "diff"},
        {"kind": "undo", "pre": pre, "act": "L:1", "inv": "L:0", "res": "diff"},
        {"kind": "undo", "pre": pre, "act": "L:1", "inv": "L:0", "res": "same"},
    ]
    want = ["ok", "frame", "frame", "undocumented-refusal", "internal-error", "illformed", "frame", "na", "idem", "undo", "ok"]
    verdicts, _ = tlc_judge(recs, None)
    got = [verdicts[i]["v"] for i in range(len(recs))]
    print("selftest verdicts:", got)
    return 0 if got == want else 2
