"""C03 - Control streams round-trip losslessly; edits touch only what changed.

spec -> code (text level)   TLC enumerates token sequences of Stream.tla (Mode "text": generic alphabet and
               record specific alphabets) together with the split the record-splitting automaton computes;
               every sequence is rendered to text T and, whenever NMTranParser accepts it (parsing and
               per-record root / option access do not raise),  str(parse(T)) == T  and the records pharmpy
               cuts are exactly the automaton's chunks.  $THETA/$OMEGA/$SIGMA record texts of C04's layouts
               are added to the same check.
spec -> code -> spec (record level)   TLC enumerates record layouts x single-component edits (Mode "rec":
               order of records, duplicates of one kind, unknown records, parameter records first, $PRED
               models, text before the first record); the driver renders each layout into a runnable model
               (comments between records, abbreviated names, leading blanks chosen by VERIF_SEED), and also
               takes the corpus models under tests/testdata/nonmem.  For the empty edit the code must be
               unchanged; for every edit the record-level diff {edit, old, new} goes back to TLC
               (StreamTrace.tla) which validates the frame property and the placement rule.
"""
from __future__ import annotations

import glob
import json
import os
import random
import re
import shutil
import threading
import time

from . import core

SPEC = core.SPEC / "records"

TOKEN_TEXT = {"TAB": "\t", "NL": "\n", "CRLF": "\r\n", "CONT": "&\n", "NUL": "\x00", "VERB": '" FIRST=1'}

GENERIC = dict(Dollars=["$PROBLEM", "$THETA", "$THE", "$EST", "$PK", "$FOO"], Blanks=[" ", "TAB"],
               Newlines=["NL", "CRLF", "CONT"], Others=["ABC", "1", "(", ")", ",", "=", ";c", "NUL", "VERB"])
TEXT_PROFILES = {
    # name: (prefix name, classes, MaxLen quick, MaxLen thorough, sliced last position?)
    "generic3": ("none", GENERIC, 3, 4, False),
    "generic4": ("none", GENERIC, 4, 5, True),
    "wide": ("none", dict(Dollars=["$PROBLEM", "$INPUT", "$DATA", "$OMEGA", "$SIGMA", "$XY", "$ERROR", "$SUBROUTINE", "$TABLE", "$ESTIMATION"],
                          Blanks=[" "], Newlines=["NL"], Others=["ABC", "0.1", "X=1", ";c", "NUL"]), 3, 4, False),
    "data": ("data", dict(Dollars=["$INPUT"], Blanks=[" ", "TAB"], Newlines=["NL", "CONT"],
                          Others=["IGNORE=@", "IGNORE=(ID.EQ.1,", "WGT.GT.2)", "IGN(APGR.LT.3)", "ACCEPT=(DV.NE.0)", "NULL=0",
                                  "REWIND", "CHECKOUT", ";c", '"q.csv"']), 3, 4, False),
    "input": ("input", dict(Dollars=["$DATA"], Blanks=[" ", "TAB"], Newlines=["NL", "CRLF"],
                            Others=["TIME", "DV=DROP", "DROP=X", "T=TIME", "SKIP", "DATE=DAT1", ";c", "NUL"]), 3, 4, False),
    "est": ("est", dict(Dollars=["$COV"], Blanks=[" "], Newlines=["NL", "CONT"],
                        Others=["METHOD=1", "METH=COND", "METHOD=IMP", "INTER", "INTERACTION", "MAXEVAL=99", "MAX=9", "MAXE=9", "MAXEV=9",
                                "PRINT=1", "NOABORT", "LAPLACE", "-2LL", "MSFO=m", ";c", "POSTHOC"]), 3, 3, False),
    "table": ("table", dict(Dollars=["$EST"], Blanks=[" "], Newlines=["NL"],
                            Others=["TIME", "CWRES", "NOPRINT", "NOPR", "ONEHEADER", "ONEH", "NOAPPEND", "FILE=sdtab1", "FIL=t", "FORMAT=s1PE11.4",
                                    "ETA(1)", "ETAS(1:LAST)", ";c"]), 3, 3, False),
    "sub": ("sub", dict(Dollars=["$PK"], Blanks=[" "], Newlines=["NL"],
                        Others=["ADVAN1", "ADVAN=ADVAN2", "ADV5", "TRANS2", "TRANS=TRANS1", "TOL=5", "SUBROUTINES=DP", ";c"]), 3, 3, False),
    "pk": ("pk", dict(Dollars=["$ERROR"], Blanks=[" ", "TAB"], Newlines=["NL", "CRLF"],
                      Others=["CL=THETA(1)", "V = 2", "IF (A.GT.1) B=2", "IF (X.EQ.2) THEN", "ENDIF", "ELSE", "Y=EXP(ETA(1))+1", ";c", "VERB",
                              "A(1)=0", "NUL"]), 3, 4, False),
    "problem": ("problem", dict(Dollars=["$INPUT"], Blanks=[" ", "TAB"], Newlines=["NL", "CRLF"],
                                Others=["title", ";c", "NUL", "=", "a$b"]), 3, 4, False),
}


def _sset(xs):
    return "{" + ", ".join(json.dumps(x) for x in xs) + "}"


def _text_cfg(prefix, classes, maxlen, last):
    return ("CONSTANTS\n  Mode = \"text\"\n"
            f"  Dollars = {_sset(classes['Dollars'])}\n  Blanks = {_sset(classes['Blanks'])}\n"
            f"  Newlines = {_sset(classes['Newlines'])}\n  Others = {_sset(classes['Others'])}\n"
            f"  PrefixName = \"{prefix}\"\n  MaxLen = {maxlen}\n  LastTokens = {_sset(last)}\n  MaxExtra = 0\n  MaxOps = 0\n"
            "INIT Init\nNEXT Next\nINVARIANT SplitLossless\nINVARIANT SplitMatchesDefinition\nINVARIANT EmitText\nCHECK_DEADLOCK FALSE\n")


def _rec_cfg(max_extra, max_ops):
    return ("CONSTANTS\n  Mode = \"rec\"\n  Dollars = {}\n  Blanks = {}\n  Newlines = {}\n  Others = {}\n  PrefixName = \"none\"\n"
            f"  MaxLen = 0\n  LastTokens = {{}}\n  MaxExtra = {max_extra}\n  MaxOps = {max_ops}\n"
            "INIT Init\nNEXT Next\nINVARIANT Frame\nINVARIANT Placement\nINVARIANT UidsUnique\nINVARIANT EmitLayout\nCHECK_DEADLOCK FALSE\n")


def _run(name, cfgtext, out, workers, sem, quota, seed):
    """one TLC profile; its cases are extracted (and, above `quota`, sampled by the seed) here and TLC's output is
    dropped so that the thorough tier does not hold every emitted sequence of every profile in memory"""
    with sem:
        d = core.scratch("c03-" + name)
        cfg = d / f"Stream_{name}.cfg"
        cfg.write_text(cfgtext)
        try:
            res = core.run_tlc(SPEC / "Stream.tla", cfg, workers=workers, timeout=3000, heap="3g")
        finally:
            shutil.rmtree(d, ignore_errors=True)
        cases = []
        if name == "rec":
            seen = set()
            for tag, c in res.prints:
                key = (tuple(c["kinds"]), c["edit"], tuple(sorted(c.get("decor") or []))) if tag == "LAYOUT" else None
                if key and key not in seen:
                    seen.add(key)
                    cases.append(c)
        else:
            for tag, c in res.prints:
                if tag == "TEXT":
                    c["profile"] = name
                    cases.append(c)
        emitted = len(cases)
        if name != "rec" and len(cases) > quota:
            cases = random.Random(seed * 7919 + len(name)).sample(cases, quota)
        res.prints = []
        res.out = ""
        out[name] = (res, cases, emitted)


def _tlc_all(tier, seed, v):
    rng = random.Random(seed)
    plan = {}
    for name, (prefix, classes, lq, lt, sliced) in TEXT_PROFILES.items():
        alphabet = classes["Dollars"] + classes["Blanks"] + classes["Newlines"] + classes["Others"]
        last = alphabet
        if sliced:
            last = rng.sample(alphabet, max(2, len(alphabet) // (6 if tier == "quick" else 10)))
        plan[name] = _text_cfg(prefix, classes, lq if tier == "quick" else lt, last)
    plan["rec"] = _rec_cfg(2, 1 if tier == "quick" else 2)
    out: dict = {}
    sem = threading.Semaphore(11 if tier == "quick" else 4)
    quota = _n_text(tier) // 3
    ths = [threading.Thread(target=_run, args=(n, c, out, 3 if n != "rec" else 6, sem, quota, seed)) for n, c in plan.items()]
    for t in ths:
        t.start()
    for t in ths:
        t.join()
    texts, layouts, stats = [], [], {}
    emitted = 0
    for n in plan:
        if n not in out:
            raise core.MachineryError(f"Stream.tla profile {n}: TLC run failed to return")
        res, cases, nem = out[n]
        core.require_ok(res, f"Stream.tla profile {n}")
        if res.violated:
            raise core.MachineryError(f"Stream.tla profile {n}: design-level invariant {res.violated} violated:\n" + "\n".join(res.trace[-2:])[:3000])
        if n == "rec":
            core.require_actions(res, [("DoVary", "Vary"), ("DoStartEdit", "StartEdit"), ("DoOp", "Op")], "Stream.tla rec")
            layouts = cases
        else:
            core.require_actions(res, [("DoDollar", "DoBlank", "DoNewline", "DoOther", "AppendTok")], f"Stream.tla {n}")
            texts.extend(cases)
            emitted += nem
        core.tlc_stats_into(v, res)
        stats[n] = {"states": res.distinct, "cases": nem, "wall_s": round(res.wall, 1)}
    if not texts or not layouts:
        raise core.MachineryError("Stream.tla emitted no cases")
    v.add_coverage(tlc_profiles=stats, token_sequences_emitted=emitted)
    return texts, layouts


def _n_text(tier):
    scale = float(os.environ.get("VERIF_BUDGET_SCALE", "1"))  # < 1 only for fast mutant screening
    return int({"quick": 40000, "thorough": 400000}[tier] * scale)


# ----------------------------------------------------------------------------- (a) text level


def render_tokens(toks):
    return "".join(TOKEN_TEXT.get(t, t) for t in toks)


def check_text(case):
    """-> (status, record, what)"""
    from pharmpy.model.external.nonmem.nmtran_parser import NMTranParser
    from pharmpy.model.external.nonmem.records.option_record import OptionRecord

    toks = case["toks"]
    text = render_tokens(toks)
    rec = {"part": "text", "profile": case.get("profile"), "tokens": toks, "text": text}
    try:
        cs = NMTranParser().parse(text)
        parts = []
        for r in cs.records:
            parts.append(str(r))
            root = getattr(r, "root", None)
            if root is not None:
                str(root)
            if isinstance(r, OptionRecord):
                r.all_options
                r.option_pairs
    except Exception as ex:  # not accepted: acceptance is not judged by this property
        return ("skip:not_accepted:" + type(ex).__name__, rec, None)
    back = str(cs)
    if back != text:
        rec["outcome"] = "roundtrip_mismatch"
        return ("violation", rec, f"str(parse(T)) = {back!r} != T = {text!r}")
    want = [render_tokens(ch) for ch in case["split"]]
    if want and want[0] == "":
        want = want[1:]
    if parts != want:
        rec["outcome"] = "split_mismatch"
        return ("violation", rec, f"records {parts!r} != split of the specification {want!r}")
    return ("ok", rec, None)


def check_record_text(arg):
    """C04 layouts as record level round trip: (kind, text)"""
    from pharmpy.model.external.nonmem.nmtran_parser import NMTranParser

    kind, text = arg
    rec = {"part": "record_text", "profile": kind, "text": text}
    try:
        cs = NMTranParser().parse(text)
        for r in cs.records:
            str(r.root) if getattr(r, "root", None) is not None else None
            if kind == "theta" and r.name == "THETA":
                r.inits, r.bounds, r.fixs
            if kind == "omega" and r.name in ("OMEGA", "SIGMA"):
                r.parse()
    except Exception as ex:
        return ("skip:not_accepted:" + type(ex).__name__, rec, None)
    if str(cs) != text:
        rec["outcome"] = "roundtrip_mismatch"
        return ("violation", rec, f"str(parse(T)) = {str(cs)!r} != T = {text!r}")
    return ("ok", rec, None)


# ----------------------------------------------------------------------------- (b) record level

RECORD_TEXT = {
    "PROBLEM": "$PROBLEM generated layout\n",
    "INPUT": "$INPUT ID TIME AMT WGT APGR DV\n",
    "DATA": "$DATA pheno.dta IGNORE=@\n",
    "SUBROUTINES": "$SUBROUTINE ADVAN1 TRANS2\n",
    "PK": "$PK\nCL=THETA(1)*EXP(ETA(1))\nV=THETA(2)*EXP(ETA(2))\n{th3}{etas}S1=V\n",
    "PRED": "$PRED\nCL=THETA(1)*EXP(ETA(1))\nV=THETA(2)*EXP(ETA(2))\n{th3}{etas}Y=CL+V*TIME+EPS(1){eps2}\n",
    "ERROR": "$ERROR\nW=F\nY=F+W*EPS(1){eps2}\n",
    # code records with comment lines between the statements, a verbatim line, a comment directly before the last
    # statement and an unused first statement (decoration codeCmt)
    "PK_CMT": "$PK\nWT70=70\n; ---- structural parameters ----\nCL=THETA(1)*EXP(ETA(1)) ; clearance\n\" VERBATIM_LINE = 1\n"
              "V=THETA(2)*EXP(ETA(2))   ; volume\n{th3}{etas}; ---- scaling ----\nS1=V\n",
    "PRED_CMT": "$PRED\nWT70=70\n; ---- structural parameters ----\nCL=THETA(1)*EXP(ETA(1)) ; clearance\n"
                "V=THETA(2)*EXP(ETA(2))   ; volume\n{th3}{etas}; ---- prediction ----\nY=CL+V*TIME+EPS(1){eps2}\n",
    "COVARIANCE": "$COVARIANCE\n",
    "TABLE": "$TABLE ID TIME DV NOPRINT ONEHEADER FILE=sdtab1\n",
    # an option record over two lines: comment at the end of the first, continuation starting with options that
    # estimation / table edits remove and re-append
    "TABLE_ML": "$TABLE ID TIME DV ; key columns\n       NOPRINT ONEHEADER FILE=sdtab1\n",
    "UNKNOWN": "$FOO bar=1 (keep\n  this) ; as it is\n",
    "PRETEXT": ";; text before the first record\n\n",
}
MULTI = {
    "THETA": ("$THETA (0,0.005) (0,1.5)\n", ["$THETA (0,0.005) ; TVCL\n", "$THETA (0,1.5)\n"]),
    "THETA_INF": ("$THETA (0,0.005) (-INF,1.5,INF)\n", None),
    # a (v)xn repeat followed by another theta in the same record (three thetas: the code records get TV3=THETA(3))
    "THETA_REP": ("$THETA (0,0.5,10)x2\n       (-.99,.1)    ; third\n", None),
    "OMEGA": ("$OMEGA 0.03 0.04\n", ["$OMEGA 0.03\n", "$OMEGA 0.04 ; IVV\n"]),
    "SIGMA": ("$SIGMA 0.01\n", ["$SIGMA 0.01\n", "$SIGMA 0.02\n"]),
    "ESTIMATION": ("$ESTIMATION METHOD=1 INTERACTION MAXEVAL=99\n", ["$ESTIMATION METHOD=1 INTERACTION MAXEVAL=99\n", "$ESTIMATION METHOD=IMP NITER=5\n"]),
}
# two records of one kind that each hold several values (a later record must not be rewritten from an earlier one)
MULTI4 = {
    "OMEGA": ["$OMEGA 0.03 0.04\n", "$OMEGA 0.05 ; IVA\n 0.06 ; IVB\n"],
    "SIGMA": ["$SIGMA 0.01 0.02\n", "$SIGMA 0.03 0.04\n"],
}
ABBREV = {"$THETA": "$THE", "$OMEGA": "$OME", "$ESTIMATION": "$EST", "$PROBLEM": "$PROB", "$SUBROUTINE": "$SUB", "$COVARIANCE": "$COV"}


def render_layout(kinds, rng, decor=()):
    """kinds (from TLC) -> list of record texts; comments / blank lines between records, abbreviations and leading
    blanks are decoration chosen by the seed (they are part of the record's text and must survive)."""
    count = {k: kinds.count(k) for k in set(kinds)}
    seen: dict = {}
    out = []
    four = {"OMEGA": "omega4" in decor and count.get("OMEGA", 0) == 2, "SIGMA": "sigma4" in decor and count.get("SIGMA", 0) == 2}
    eps2 = "+EPS(2)" if count.get("SIGMA", 0) > 1 else ""
    if four["SIGMA"]:
        eps2 += "+EPS(3)+EPS(4)"
    etas = "E3=ETA(3)\nE4=ETA(4)\n" if four["OMEGA"] else ""
    one_theta = count.get("THETA", 0) == 1
    th3 = "TV3=THETA(3)\n" if one_theta and "thetaRep" in decor else ""
    table_ml = "tableML" in decor
    for k in kinds:
        if k in MULTI:
            i = seen.get(k, 0)
            seen[k] = i + 1
            t = MULTI[k][0] if count[k] == 1 else (MULTI4[k][i] if four.get(k) else MULTI[k][1][i])
            if k == "THETA" and one_theta and "thetaInf" in decor:
                t = MULTI["THETA_INF"][0]
            elif k == "THETA" and th3:
                t = MULTI["THETA_REP"][0]
        else:
            key = "TABLE_ML" if k == "TABLE" and table_ml else k + "_CMT" if k in ("PK", "PRED") and "codeCmt" in decor else k
            t = RECORD_TEXT[key].replace("{eps2}", eps2).replace("{etas}", etas).replace("{th3}", th3)
        if k not in ("PRETEXT",):
            r = rng.random()
            if r < 0.15:
                name = t.split()[0].split("\n")[0]
                if name in ABBREV:
                    t = ABBREV[name] + t[len(name):]
            elif r < 0.25:
                t = "  " + t
            r = rng.random()
            if r < 0.2:
                t += ";; a comment line after the record\n"
            elif r < 0.3:
                t += "\n"
            elif r < 0.35 and k not in ("PK", "PRED", "ERROR"):
                t = t[:-1] + " ; trailing comment\n"
        out.append(t)
    return out


def _records_of(model):
    """(kind, text) of the records of the first $PROBLEM; a further $PROBLEM and all that follows is one
    pseudo record NEXTPROBLEM (no edit concerns it: it must stay byte-identical)."""
    out = []
    nprob = 0
    recs = list(model.internals.control_stream.records)
    for i, r in enumerate(recs):
        if getattr(r, "name", "") == "PROBLEM":
            nprob += 1
            if nprob == 2:
                out.append(("NEXTPROBLEM", "".join(str(x) for x in recs[i:])))
                return out
        name = getattr(r, "name", "")
        text = str(r)
        if type(r).__name__ == "RawRecord":
            kind = "PRETEXT" if not r.raw_name else "UNKNOWN"
        else:
            kind = name
        out.append((kind, text))
    return out


def _first_theta(m):
    rvs = m.random_variables.free_symbols
    for p in m.parameters:
        if p.symbol not in rvs and not p.fix and p.init != 0:
            new = p.init * 1.25
            if p.lower < new < p.upper:
                return p.name, new
    return None


def _first_var(m, dists):
    for d in dists:
        names = d.parameter_names
        if len(d) == 1 and names and not m.parameters[names[0]].fix and m.parameters[names[0]].init > 0:
            return names[0], m.parameters[names[0]].init * 1.25
    return None


def apply_edit(m, edit, generated):
    """Return the edited model or None when the edit does not apply to this model."""
    import pharmpy.modeling as pm
    from pharmpy.basic import Expr

    cs = m.internals.control_stream
    has = lambda k: bool(cs.get_records(k))  # noqa: E731
    if edit == "Empty":
        return m.update_source()
    if edit == "ThetaValue":
        t = _first_theta(m)
        return pm.set_initial_estimates(m, {t[0]: t[1]}) if t else None
    if edit == "OmegaValue":
        t = _first_var(m, m.random_variables.etas)
        return pm.set_initial_estimates(m, {t[0]: t[1]}) if t else None
    if edit == "SigmaValue":
        t = _first_var(m, m.random_variables.epsilons)
        return pm.set_initial_estimates(m, {t[0]: t[1]}) if t else None
    if edit == "AddTheta":
        return pm.add_population_parameter(m, "NEWTH", 0.5, lower=0)
    if edit == "RemoveTheta":
        if not generated:
            return None
        st = m.statements.subs({Expr.symbol(_theta_names(m)[0]): Expr.integer(1)})
        return pm.remove_unused_parameters_and_rvs(m.replace(statements=st))
    if edit == "Description":
        return m.replace(description="another description").update_source()
    if edit == "EstOptions":
        if len(m.execution_steps) == 0:
            return None
        return pm.set_estimation_step(m, m.execution_steps[0].method, idx=0, maximum_evaluations=1234)
    if edit == "AddEst":
        return pm.add_estimation_step(m, "IMP", tool_options={"NITER": 3})
    if edit == "RemoveEst":
        if len(m.execution_steps) < 2:
            return None
        return pm.remove_estimation_step(m, len(m.execution_steps) - 1)
    if edit == "AddCov":
        if has("COVARIANCE") or len(m.execution_steps) == 0:
            return None
        return pm.add_parameter_uncertainty_step(m, "SANDWICH")
    if edit in ("PkStatement", "PredStatement", "ErrorStatement"):
        kind = {"PkStatement": "PK", "PredStatement": "PRED", "ErrorStatement": "ERROR"}[edit]
        recs = cs.get_records(kind)
        if not recs:
            return None
        sts = [s for s in recs[0].statements if hasattr(s, "symbol") and "Piecewise" not in repr(s.expression) and "Piecewise" not in str(type(s.expression))]
        sts = [s for s in sts if not s.expression.is_piecewise()] if sts and hasattr(sts[0].expression, "is_piecewise") else sts
        if not sts:
            return None
        target = sts[-1] if edit != "PkStatement" else sts[0]
        sym = target.symbol
        cur = m.statements.find_assignment(sym)
        if cur is None:
            return None
        if sum(1 for s in m.statements if hasattr(s, "symbol") and s.symbol == cur.symbol) != 1:
            return None
        return m.replace(statements=m.statements.reassign(cur.symbol, cur.expression * 2)).update_source()
    if edit == "AddEta":
        if not generated:
            return None
        return pm.add_iiv(m, "V", "add", eta_names=["ETA_NEW"])
    if edit == "RemoveEta":
        if not generated:
            return None
        return pm.remove_iiv(m, [m.random_variables.etas.names[-1]])
    if edit == "Rename":
        if not has("TABLE"):
            return None
        return m.replace(name="run999").update_source()
    if edit == "Dataset":
        if m.dataset is None or generated:
            return None
        return m.replace(dataset=m.dataset.iloc[:-1]).update_source()
    raise core.MachineryError(f"unknown edit {edit}")


TWO_STEP = ("CodeInsertThenEdit", "CodeRemoveThenEdit")


def two_step_code_edit(m, edit):
    """insert (remove) a statement at the top of the code record, regenerate the code, then change the record's last
    statement and regenerate again.  -> (model, kind of the record, symbols whose lines the edits concern)"""
    from pharmpy.basic import Expr
    from pharmpy.model import Assignment

    cs = m.internals.control_stream
    kind = "PK" if cs.get_records("PK") else "PRED"
    # (looked up on the record as read: the regenerated record is not inspected between the two edits)
    last = [s for s in cs.get_records(kind)[0].statements if hasattr(s, "symbol")][-1]
    sset = m.statements
    if edit == "CodeInsertThenEdit":
        m1 = m.replace(statements=Assignment.create(Expr.symbol("WT80"), Expr.integer(80)) + sset)
        concerned = ["WT80"]
    else:
        i = [k for k, s in enumerate(sset) if getattr(s, "symbol", None) == Expr.symbol("WT70")][0]
        m1 = m.replace(statements=sset[:i] + sset[i + 1:])
        concerned = ["WT70"]
    m1 = m1.update_source()
    m1.code  # the code is regenerated between the two edits
    sset = m1.statements
    i = [k for k, s in enumerate(sset) if getattr(s, "symbol", None) == last.symbol][-1]
    new = Assignment.create(last.symbol, sset[i].expression / 1000)
    m2 = m1.replace(statements=sset[:i] + new + sset[i + 1:]).update_source()
    return m2, kind, concerned + [last.symbol.name]


def _same_statements(x, y):
    """assignments compared symbol by symbol, expressions up to algebraic simplification"""
    import sympy

    if x == y:
        return True
    if len(x) != len(y):
        return False
    for a, b in zip(x, y):
        if type(a).__name__ != type(b).__name__:
            return False
        if hasattr(a, "symbol"):
            if a.symbol.name != b.symbol.name:
                return False
            if a.expression != b.expression and sympy.simplify(sympy.sympify(a.expression) - sympy.sympify(b.expression)) != 0:
                return False
        elif a != b and str(a) != str(b):
            return False
    return True


def _line_lists(old, new, kind, symbols):
    """lines of the edited code record for StreamOps.LinesHold: old as [lid, keep], new as [lid]"""
    ot = next(t for k, t in old if k == kind)
    nt = "".join(t for k, t in new if k == kind)
    ids: dict = {}
    pat = re.compile(r"^\s*(" + "|".join(re.escape(x) for x in symbols) + r")\s*=")
    oldl = []
    for ln in ot.split("\n"):
        if ln.strip() == "" or ln.lstrip().startswith("$"):
            continue
        oldl.append([ids.setdefault(ln, len(ids) + 1), not pat.match(ln)])
    newl = [ids.setdefault(ln, len(ids) + 1) for ln in nt.split("\n") if ln.strip() != "" and not ln.lstrip().startswith("$")]
    return oldl, newl


def _theta_names(m):
    rvs = m.random_variables.free_symbols
    return [p.name for p in m.parameters if p.symbol not in rvs]


CORPUS_EDITS = ["Empty", "ThetaValue", "OmegaValue", "SigmaValue", "AddTheta", "Description", "EstOptions", "AddEst", "RemoveEst",
                "AddCov", "PkStatement", "PredStatement", "ErrorStatement", "Rename", "Dataset"]


def run_model_case(arg):
    """arg = ("layout", kinds, edit, seed) | ("corpus", path, edits)  -> list of (status, record, what, trace)"""
    from pharmpy.modeling import read_model, read_model_from_string

    out = []
    if arg[0] == "layout":
        _, kinds, edit, seed, decor = arg
        texts = render_layout(kinds, random.Random(seed), decor)
        code = "".join(texts)
        base = {"part": "layout", "kinds": kinds, "decor": sorted(decor), "layout_seed": seed, "text": code}
        edits = [edit]
        try:
            m = read_model_from_string(code)
        except Exception as ex:
            return [("skip:not_accepted:" + type(ex).__name__, dict(base, edit=edit), None, None)]
        generated = True
    else:
        _, path, edits = arg
        base = {"part": "corpus", "model": path.split("testdata/")[-1]}
        try:
            code = open(path, newline="").read()
            m = read_model(path)
        except Exception as ex:
            return [("skip:not_accepted:" + type(ex).__name__, dict(base, edit="Read"), None, None)]
        generated = False
    if m.code != code:
        out.append(("violation", dict(base, edit="Read", outcome="roundtrip_mismatch"), "Model.code of the freshly read model differs from the text", None))
        return out
    old = _records_of(m)
    base = dict(base, **_features(old), multiple_dvs=len(m.dependent_variables) > 1, has_des=any(k == "DES" for k, _ in old),
                has_abbr_replace=any(k == "ABBREVIATED" and "REPLACE" in t.upper() for k, t in old))
    for edit in edits:
        rec = dict(base, edit=edit)
        lines = None
        try:
            if edit in TWO_STEP:
                m2, ckind, syms = two_step_code_edit(m, edit) if generated and "codeCmt" in base.get("decor", []) else (None, None, None)
                lines = (ckind, syms)
            else:
                m2 = apply_edit(m, edit, generated)
        except core.MachineryError:
            raise
        except Exception as ex:  # the edit itself failing is judged by other properties (C04, C08): not here
            out.append(("skip:edit_failed:" + type(ex).__name__, rec, None, None))
            continue
        if m2 is None:
            out.append(("skip:not_applicable", rec, None, None))
            continue
        new_code = m2.code
        if edit == "Empty" and new_code != code:
            a, b = code.splitlines(), new_code.splitlines()
            diff = next(((x, y) for x, y in zip(a, b) if x != y), (len(a), len(b)))
            out.append(("violation", dict(rec, outcome="empty_edit_changed_code"),
                        f"update_source of the unmodified model changed the code: {diff}", None))
            continue
        new = _records_of(m2)
        ids: dict = {}

        def uid(kt):
            return ids.setdefault(kt, len(ids) + 1)

        oldc, newc = _comment_lists(old, new)
        oldl, newl = _line_lists(old, new, *lines) if lines and lines[0] else ([], [])
        trace = {"edit": edit, "old": [[k, uid((k, t))] for k, t in old], "new": [[k, uid((k, t))] for k, t in new],
                 "oldc": oldc, "newc": newc, "oldl": oldl, "newl": newl}
        if lines and lines[0]:
            try:  # the second clause for two-step edits: the generated code means the in-memory statements
                rr = read_model_from_string(new_code)
                same = _same_statements(rr.statements, m2.statements)
            except Exception as ex:
                same = False
            if not same:
                out.append(("violation", dict(rec, outcome="reread_statements"),
                            f"{edit}: statements of the re-read code differ from the in-memory model (or the code cannot be read)", None))
        changed = sorted({k for k, t in set(old) ^ set(new)})
        out.append(("trace", dict(rec, changed_kinds=changed), None, trace))
    return out


_COMMENT = re.compile(r";[^\r\n]*")


def _comment_lists(old, new):
    """comments of the old / new records in order as [kind, cid, ext] (StreamOps.CommentsHold): cid = identity of the
    exact text, ext = cid of an old comment of which the text is a proper extension or truncation (0: none)"""
    ids: dict = {}

    def cid(c):
        return ids.setdefault(c, len(ids) + 1)

    def lst(recs):
        return [(k, c.rstrip()) for k, t in recs for c in _COMMENT.findall(t)]

    oc, nc = lst(old), lst(new)
    oldtexts = [c for _, c in oc]
    for c in oldtexts:
        cid(c)

    def ext(c):
        if c in ids and c in oldtexts:
            return 0
        for o in oldtexts:
            if len(o) >= 3 and len(c) >= 3 and o != c and (c.startswith(o) or o.startswith(c)):
                return ids[o]
        return 0

    return [[k, cid(c), 0] for k, c in oc], [[k, cid(c), ext(c)] for k, c in nc]


def _multi_theta(m):
    return any(len(r) > 1 for r in m.internals.control_stream.get_records("THETA"))


def _features(old):
    """layout features the known findings are keyed on"""
    kinds = [k for k, _ in old]
    non = False
    for k in ("THETA", "OMEGA", "SIGMA"):
        idx = [i for i, x in enumerate(kinds) if x == k]
        if idx and idx[-1] - idx[0] + 1 != len(idx):
            non = True
    inf = any(k == "THETA" and ("INF" in t.upper().split(";")[0] or "1000000" in t) and t.count("(") + len([x for x in t.split() if x[0].isdigit()]) > 1
              for k, t in old)
    return {"noncontiguous_params": non, "theta_inf_bounds_in_multi_record": inf}


def validate_traces(items, v):
    """items: list of (record, trace).  TLC (StreamTrace.tla) decides."""
    if not items:
        return 0
    d = core.scratch("c03tr")
    f = d / "traces.json"
    f.write_text(json.dumps([t for _, t in items]))
    try:
        res = core.run_tlc(SPEC / "StreamTrace.tla", SPEC / "StreamTrace.cfg", workers=1, timeout=1800, env={"TRACES": str(f)}, coverage=False, heap="3g")
    finally:
        shutil.rmtree(d, ignore_errors=True)
    core.require_ok(res, "StreamTrace.tla")
    if res.violated:
        raise core.MachineryError(f"StreamTrace: unexpected {res.violated}")
    v.add_coverage(states=res.distinct, transitions=res.generated)
    acc = {x for tag, x in res.prints if tag == "ACC"}
    rej = {x["tid"]: x for tag, x in res.prints if tag == "REJ"}
    if len(acc) + len(rej) != len(items):
        raise core.MachineryError(f"StreamTrace judged {len(acc) + len(rej)} of {len(items)} traces")
    for tid, why in sorted(rej.items()):
        rec, trace = items[tid - 1]
        rec = dict(rec, trace=trace)
        rec["outcome"] = ("unknown_edit" if not why["known"] else "frame" if not why["frame"] else
                          "placement" if not why["placement"] else "comments" if not why["comments"] else "lines")
        if rec["outcome"] == "unknown_edit":
            raise core.MachineryError(f"edit {trace['edit']} is not an edit of StreamOps.tla")
        oldk = {tuple(x) for x in trace["old"]}
        newk = {tuple(x) for x in trace["new"]}
        rec["changed_kinds"] = sorted({k for k, _ in oldk ^ newk})
        v.violation(rec, f"{trace['edit']}: record-level diff violates the {rec['outcome']} property: records of kind(s) {rec['changed_kinds']} changed")
    return len(acc)


def corpus_files():
    root = str(core.REPO / "tests" / "testdata" / "nonmem")
    return sorted(set(glob.glob(root + "/*.mod") + glob.glob(root + "/*.ctl") + glob.glob(root + "/*/*.mod")))


def _c04_record_texts(tier, seed):
    """$THETA / $OMEGA record texts generated from C04's layout alphabets (its TLC profile A cases are not re-run:
    the records are rendered from a direct product of item shapes)."""
    from . import c04_omega, c04_params

    rng = random.Random(seed)
    out = []
    lows = ["none", "inf", "mil", "val"]
    for form in (1, 2, 3, 5):
        for lk in lows:
            for uk in ["none", "inf", "mil", "val"]:
                for fix in (False, True):
                    for name in ("", "TVA"):
                        for sp in (0, 1):
                            it = dict(form=form, lk=lk, lv=[0, 1], init=[3, 2], uk=uk, uv=[5, 1], fix=fix, rep=2 if form == 5 else 1, name=name, sp=sp, id=[1, 1])
                            if uk != "none" and lk == "none":
                                continue
                            if form == 1 and (lk != "none" or uk != "none"):
                                continue
                            if form == 2 and not fix:
                                continue
                            it2 = dict(it, init=[2, 1], id=[1, 2], name="TVB" if name else "")
                            out.append(("theta", c04_params.theta_records_text([[it]])))
                            if rng.random() < (0.3 if tier == "quick" else 1.0):
                                out.append(("theta", c04_params.theta_records_text([[it, it2]])))
    for sc in ("VC", "SC", "VR", "SR", "CH"):
        for fix in (False, True):
            for named in (False, True):
                for size, vals in ((1, [[1, 4]]), (2, [[1, 4], [1, 20], [1, 25]])):
                    if size == 1 and sc not in ("VC", "SC"):
                        continue
                    rec = dict(kind="BLOCK", hdr=False, items=[], size=size, scale=sc, vals=vals, fix=fix, named=named, bare=False, first=1, rep=False,
                               names=["IVA", "IVB"][:size] if named else [""] * size)
                    same = dict(rec, kind="SAME", bare=rng.random() < 0.5)
                    for nm in ("$OMEGA", "$SIGMA"):
                        out.append(("omega", c04_omega.records_text([rec], nm)))
                        out.append(("omega", c04_omega.records_text([rec, same], nm)))
    for sd in (False, True):
        for fix in (False, True):
            for rep in (1, 2):
                for par in (False, True):
                    for hdr in (False, True):
                        if rep > 1 and not par:
                            continue
                        it = dict(sd=sd, fix=fix, rep=rep, par=par, name="" if rep > 1 else "IVA", v=[1, 4], id=[1, 1])
                        it2 = dict(sd=False, fix=False, rep=1, par=False, name="", v=[1, 25], id=[1, 2])
                        rec = dict(kind="DIAG", hdr=hdr, items=[it, it2], size=0, scale="VC", vals=[], fix=False, named=False, bare=False, first=1, rep=False, names=[])
                        out.append(("omega", c04_omega.records_text([rec])))
    return out


def _work(arg):
    kind = arg[0]
    try:
        if kind == "text":
            return [check_text(arg[1]) + (None,)]
        if kind == "rtext":
            return [check_record_text(arg[1]) + (None,)]
        return run_model_case(arg[1])
    except core.MachineryError as ex:
        return [("machinery", {}, str(ex), None)]


def _own_known(known, prop):
    """entries of this property come from its fragment only (a repaired entry may linger in the merged list)"""
    frag = json.loads((core.VERIF / "known_findings.d" / f"{prop}.json").read_text())
    ids = {x["id"] for x in frag.get("findings", [])}
    return [k for k in known if k.get("property") != prop or k.get("id") in ids]


def main(tier: str, seed: int) -> int:
    v = core.Verdict("C03", tier, seed)
    v.known = _own_known(v.known, "C03")
    v.assumptions = [
        "acceptance is whatever NMTranParser and the record classes accept: a text that raises while parsing is not judged",
        "generated layouts are rendered into one small ADVAN1 / $PRED model; comments, abbreviations and leading blanks are seeded decoration",
        "an edit that itself fails (exception) is skipped here: exactness of edits is C04 / C08",
    ]
    texts, layouts = _tlc_all(tier, seed, v)
    core.use_repo()
    import pharmpy.modeling  # noqa: F401

    rng = random.Random(seed)
    scale = float(os.environ.get("VERIF_BUDGET_SCALE", "1"))  # < 1 only for fast mutant screening
    n_text = _n_text(tier)
    if len(texts) > n_text:
        texts = rng.sample(texts, n_text)
    rtexts = _c04_record_texts(tier, seed)
    n_lay = int({"quick": 1200, "thorough": 30000}[tier] * scale)
    lay_work = [("layout", c["kinds"], c["edit"], rng.randrange(1 << 30), sorted(c.get("decor") or [])) for c in layouts]
    # classes = (record shape classes, edit): round-robin so that every class is replayed before any is repeated;
    # the empty edit is served first
    strata: dict = {}
    for w in lay_work:
        strata.setdefault((w[2] != "Empty", tuple(w[4]), w[2]), []).append(w)
    for k in strata:
        rng.shuffle(strata[k])
    lay_sel, i = [], 0
    keys = sorted(strata)
    while len(lay_sel) < n_lay and keys:
        keys = [k for k in keys if i < len(strata[k])]
        for k in keys:
            if len(lay_sel) < n_lay:
                lay_sel.append(strata[k][i])
        i += 1
    work = [("text", c) for c in texts] + [("rtext", t) for t in rtexts] + [("model", w) for w in lay_sel]
    work += [("model", ("corpus", p, CORPUS_EDITS)) for p in corpus_files()]
    rng.shuffle(work)
    results = core.pmap(_work, work, procs=16, chunk=64)
    counts: dict = {}
    traces = []
    n_ok_text = 0
    samples = []
    for (kind, _), res in zip(work, results):
        for status, rec, what, trace in res:
            counts[f"{kind}:{status}"] = counts.get(f"{kind}:{status}", 0) + 1
            if status == "machinery":
                raise core.MachineryError(what)
            if status == "violation":
                v.violation(rec, what)
            elif status == "trace":
                traces.append((rec, trace))
            elif status == "ok":
                n_ok_text += 1
                if len(samples) < 4 and kind == "text" and len(rec["tokens"]) >= 3:
                    samples.append({"tokens": rec["tokens"]})
    acc = validate_traces(traces, v)
    samples += [{"edit": t["edit"], "old": t["old"][:6], "new": t["new"][:6]} for _, t in traces[:3]]
    v.add_coverage(
        token_sequences_replayed=len(texts), record_texts=len(rtexts), layouts_x_edits_emitted=len(layouts),
        corpus_models=len(corpus_files()), evaluations=len(work), distinct_nontrivial=n_ok_text + len(traces),
        traces_validated_against_impl=acc + n_ok_text, record_traces_accepted_by_tlc=acc, record_traces=len(traces),
        outcome_counts=dict(sorted(counts.items())),
        rule="text: every token sequence TLC reaches within the bounds (longest length sliced by VERIF_SEED), judged when the parser accepts it; "
             "records: every (layout, edit) TLC reaches, Empty on all, others sampled by VERIF_SEED, plus all corpus models x applicable edits; "
             "each real old/new record stream is validated by TLC",
        samples=samples, exhaustive=False,
    )
    return v.finish(min_traces=(2000 if tier == "quick" else 20000) if scale >= 1 else 100)


def replay(path: str) -> int:
    core.use_repo()
    data = json.loads(open(path).read())
    c = data["case"]
    if c.get("part") == "text":
        toks = c["tokens"]
        # recompute the split with the automaton's rule (blanks at line start go with a following $record)
        st, rec, what = check_text({"toks": toks, "split": [], "profile": c.get("profile")})
        print(st, what)
        return 0 if st != "violation" or rec.get("outcome") == "split_mismatch" else 1
    if c.get("part") == "record_text":
        st, rec, what = check_record_text((c["profile"], c["text"]))
        print(st, what)
        return 1 if st == "violation" else 0
    if c.get("part") == "layout":
        res = run_model_case(("layout", c["kinds"], c["edit"], c["layout_seed"], c.get("decor", [])))
    else:
        res = run_model_case(("corpus", str(core.REPO / "tests" / "testdata" / c["model"]), [c["edit"]]))
    bad = 0
    v = core.Verdict("C03", "replay", 0)
    tr = [(r, t) for s, r, w, t in res if s == "trace"]
    for s, r, w, t in res:
        print(s, w or "")
        bad += s == "violation"
    validate_traces(tr, v)
    for case, what, _ in v.violations:
        print("violation", what)
    return 1 if bad or v.violations else 0
