"""C16 - Model database and run context are atomic and faithful, even across crashes.

design layer   spec/modeldb/ModelDB.tla: one action per file-system operation of transaction / store_model /
               store_modelfit_results / commit / store_key / store_annotation / snapshot / log, plus Crash and
               Restart, for one or two processes.  The default describes the code as it is now (after the repairs
               C16-F1, -F4, -F5); TLC checks exhaustively (a) the invariants it satisfies - including (A), (I),
               (D) for keys never interrupted themselves, annotations, log without torn line - and (b), in
               separate runs, the rest of the property layer: those counterexamples are *design-level findings*
               (they never decide the exit code); each is re-enacted on the real code by the driver.
property layer spec/modeldb/ModelDBAbs.tla, used by ModelDB.tla and by the trace validator ModelDBTrace.tla.
spec -> code   TLC emits the workloads (<= MaxOps operations over m1,m2 | m3) with the step sequence of every
               operation; the driver enumerates the REAL crash points of each selected workload.
code -> spec   crash injection: the workload runs in a forked child that dies (os._exit(137)) at audited
               file-system operation k (+ torn variants of the file closed last); the parent re-opens the
               tree with fresh objects, retrieves every key and name, stores the other models (also the one
               sharing the dataset), reads log and annotations; TLC validates every observation trace.
               thorough: a second writer process runs while the first one is killed; two-process design
               counterexamples are re-enacted by holding one process at the step TLC names.
drift          audit-hook sequence of each operation vs the step sequence of ModelDB.tla (reported only).
fidelity       names / descriptions / log messages over a TLC-enumerated alphabet of troublesome tokens.
"""
from __future__ import annotations

import json
import os
import random
import re
import shutil
import time

from . import core
from . import c16_real as R
from .c16_real import label_events  # noqa: F401  (re-exported: replay / tools)

SPEC = core.SPEC / "modeldb"
PROP = "C16"

TIERS = {
    "quick": dict(design=dict(MaxOps=3, MaxCrashes=1, Ops="OpsQuick"), emit=dict(MaxOps=3, Ops="OpsQuick"),
                  props=dict(MaxOps=3, MaxCrashes=1, Ops="OpsQuick"), budget=150, sem_dedupe=True,
                  text_len=2, text_budget=36, extra_workloads=0, conc=0),
    "thorough": dict(design=dict(MaxOps=4, MaxCrashes=2, Ops="OpsQuick"), emit=dict(MaxOps=3, Ops="OpsFull"),
                     props=dict(MaxOps=3, MaxCrashes=1, Ops="OpsQuick"), props2=dict(MaxOps=3, MaxCrashes=2, Ops="OpsQuick"),
                     budget=1200, sem_dedupe=False, text_len=3, text_budget=300, extra_workloads=40,
                     legacy=dict(MaxOps=3, MaxCrashes=1, Ops="OpsQuick"),
                     # two processes: 2 operations / 1 crash = 160 k states (3 operations = 3.3 M states hold as well, checked once
                     # during the build: too slow for a shared machine)
                     two=dict(MaxOps=2, MaxCrashes=1, Ops="OpsTwo"), two_props=dict(MaxOps=2, MaxCrashes=1, Ops="OpsTwo"), conc=60),
}
# invariants of ModelDB.tla the code as it is now satisfies (asserted: a violation is a machinery error = the spec is wrong)
HOLDING = ["TypeOK", "PendingGuards", "DatainfoLast", "IndexImpliesComplete", "LocksScoped", "LogHeaderOK",
           "InvI", "InvDOther", "InvA", "InvAnn", "InvLogNoTorn"]
# ... expected to FAIL (design-level findings F3, F7, F6), with their property letter
PROP_INVARIANTS = [("InvD", "D"), ("InvName", "D"), ("InvNameNoCrash", "D"), ("InvLog", "L")]
# for the record: the protocol before the repairs (Legacy <- LegacyAll) - TLC still finds F1, F2, F4, F5 there
LEGACY_HOLDING = ["TypeOK", "PendingGuards", "DatainfoLast", "LocksScoped", "CleanStoreWorks"]
LEGACY_INVARIANTS = [("InvI", "I"), ("InvIOther", "I"), ("InvDOther", "D"), ("InvAnn", "L"), ("InvLogNoTorn", "L")]
# two processes
TWO_HOLDING = ["TypeOK", "PendingGuards", "DatainfoLast", "IndexImpliesComplete", "LocksScoped", "Exclusion",
               "LogHeaderOK", "InvLogNoTorn", "InvI", "InvDOther", "InvA", "InvAnn"]
TWO_INVARIANTS = []  # nothing is expected to fail with two processes any more (F11, F12 repaired)
# for the record (Legacy <- LegacyTwo): racing constructors (log.tmp: one fails / a logged line is lost), racing store_key
TWO_LEGACY_INVARIANTS = [("InvIOpen", "I"), ("InvLogNoTorn", "L"), ("InvIStore", "I")]
ACTIONS = ["InitDirs", "InitLogTouchLock", "InitLogLockEx", "OpenLogTmp", "CloseLogTmp", "RenameLog", "InitCommon", "MkKeyDirs", "TouchLock", "LockEx", "TouchPending",
           "ListHashDir", "ReadDatainfo", "MkHashDir", "ScanDatasetNumbers", "TouchIndex", "OpenCsv", "CloseCsv",
           "OpenDatainfo", "CloseDatainfo", "MkModelDir", "OpenModel", "CloseModel", "MkMetaDir", "OpenResults",
           "CloseResults", "UnlinkPending", "Unlock", "StatLink", "Symlink", "AnnTouchLock", "AnnLockEx", "AnnReadAll",
           "AnnOpenTmp", "AnnCloseTmp", "AnnRename", "RMkKeyDirs", "RTouchLock", "LockSh", "ReadEntry", "LogTouchLock", "LogLockEx",
           "LogOpenAppend", "LogWrite", "Begin", "Crash", "Restart"]


# ----------------------------------------------------------------------------- TLC side


def _cfg(base: str, scratch, name, consts: dict, invariants: list[str]):
    txt = (SPEC / base).read_text()
    for k, v in consts.items():
        if k == "Ops":
            txt = re.sub(r"Ops <- \w+", f"Ops <- {v}", txt)
        else:
            txt = re.sub(rf"{k} = \w+", f"{k} = {v}", txt)
    lines = [ln for ln in txt.splitlines() if not ln.startswith("INVARIANT")]
    i = lines.index("CHECK_DEADLOCK FALSE")
    lines[i:i] = [f"INVARIANT {x}" for x in invariants]
    p = scratch / name
    p.write_text("\n".join(lines) + "\n")
    return p


def _bg(fn, *args):
    """run fn(*args) in a forked helper process (no threads in the driver: it forks children later)"""
    import multiprocessing as mp

    ctx = mp.get_context("fork")
    rx, tx = ctx.Pipe(duplex=False)

    def run():
        try:
            tx.send(("ok", fn(*args)))
        except BaseException as e:  # noqa: BLE001
            tx.send(("err", repr(e)))
        finally:
            tx.close()

    p = ctx.Process(target=run)
    p.start()
    tx.close()

    def wait():
        try:
            st, val = rx.recv()
        except EOFError:
            st, val = "err", "helper process died"
        p.join()
        if st != "ok":
            raise core.MachineryError(f"background TLC helper failed: {val}")
        return val

    return wait


def _run_design(cfg, workers):
    res = core.run_tlc(SPEC / "ModelDB.tla", cfg, workers=workers, timeout=6000)
    res.out = res.out[-4000:]
    return res


def _run_emit(cfg):
    res = core.run_tlc(SPEC / "ModelDB.tla", cfg, workers=4, timeout=6000, coverage=False)
    res.out = res.out[-4000:]
    return res


def _run_text(cfg):
    res = core.run_tlc(SPEC / "ModelDBText.tla", cfg, workers=2, timeout=600, coverage=False)
    res.out = res.out[-4000:]
    return res


def _run_prop(cfg, dump, workers, cfg2=None):
    """one property-layer invariant over the design; if it holds in the first bound, try the larger one (cfg2)"""
    res = core.run_tlc(SPEC / "ModelDB.tla", cfg, workers=workers, timeout=6000, coverage=False,
                       extra=["-dumpTrace", "json", str(dump)])
    if cfg2 is not None and res.error is None and not res.violated:
        first = res
        res = core.run_tlc(SPEC / "ModelDB.tla", cfg2, workers=workers, timeout=6000, coverage=False,
                           extra=["-dumpTrace", "json", str(dump)])
        res.distinct += first.distinct
        res.generated += first.generated
    res.out = res.out[-4000:]
    res.trace = []
    scen = None
    if os.path.exists(dump):
        try:
            scen = _scenario(json.loads(open(dump).read()))
        except Exception as e:  # noqa: BLE001
            scen = {"error": repr(e)}
    return res, scen


def _fate(prev, st, p):
    """what became of the file process p had open when it died (two consecutive states of a counterexample):
    kill = nothing of the pending write arrived, thalf = a part, complete = all of it"""
    v, o, fs = prev["vol"][p], prev["cur"][p], st["fs"]
    f = v["openf"]
    if f == "log":
        if len(fs["loglines"]) == len(prev["fs"]["loglines"]):
            return "kill"
        return "thalf" if fs["loglines"][-1] == "TORN" else "complete"
    val = {"csv": lambda: fs["csv"][v["n"] - 1], "dinfo": lambda: fs["dinfo"][v["n"] - 1], "model": lambda: fs["mfile"][o["m"]]["st"],
           "results": lambda: fs["rfile"][o["m"]], "loghdr": lambda: fs["loghdr"]}.get(f)
    if val is None:
        return "kill"
    x = val()
    return "thalf" if x == "torn" else "kill" if x == "empty" else "complete"


def _scenario(dump):
    """counterexample of TLC (-dumpTrace json) -> per process: operations, crashes; global order of steps"""
    states = [s[1] if isinstance(s, list) else s for s in dump["counterexample"]["state"]]
    nproc = len(states[0]["cur"])
    segs = {p: [[]] for p in range(nproc)}   # per process: list of segments (operations begun until a crash)
    crashes = {p: [] for p in range(nproc)}  # per process: one record per segment that ended in a crash
    order = []                               # global sequence of (process, label, operation index in its segment)
    prev = None
    for st in states:
        if prev is not None:
            for p in range(nproc):
                pcur, cur = prev["cur"][p], st["cur"][p]
                if pcur.get("op") == "none" and cur.get("op") not in ("none", "Open"):
                    segs[p][-1].append(_op_from_spec(cur))
                if prev["proc"][p] == "up" and st["proc"][p] == "down":
                    crashes[p].append({"op_index": len(segs[p][-1]) if pcur.get("op") != "Open" else 0, "before": prev["pc"][p],
                                       "in": pcur.get("op"), "fate": _fate(prev, st, p)})
                    segs[p].append([])
                elif prev["pc"][p] != st["pc"][p] and prev["proc"][p] == "up" and pcur.get("op") != "none":
                    order.append((p, prev["pc"][p], len(segs[p][-1]) if pcur.get("op") != "Open" else 0))
        prev = st
    last = states[-1]
    return {"nproc": nproc, "segs": segs, "crashes": crashes, "order": order, "S": last["S"], "viol": last["viol"],
            "length": len(states), "ncrash": sum(len(c) for c in crashes.values())}


def _op_from_spec(o):
    if o["op"] == "Store":
        return {"e": "Store", "m": o["m"], "n": o["n"], "d": o["d"]}
    if o["op"] == "Retrieve":
        return {"e": "Retrieve", "m": o["m"]}
    if o["op"] == "Log":
        return {"e": "Log", "g": o["g"]}
    raise core.MachineryError(f"unknown spec operation {o}")


# ----------------------------------------------------------------------------- design-layer labels of real events (c16_real.label_events)


def _collapse(labels):
    out = []
    for x in labels:
        if not out or out[-1] != x:
            out.append(x)
    return out


SILENT = {"Unlock", "StatLink", "ReadEntry"}  # steps without an audit event of their own / optional

OPEN_STEPS = ("InitDirs", "InitLogTouchLock", "InitLogLockEx", "OpenLogTmp", "CloseLogTmp", "RenameLog", "OpenLogHeader", "WriteLogHeader", "InitCommon")
ANN_STEPS = ("Symlink", "AnnTouchLock", "AnnLockEx", "AnnReadAll", "AnnOpenTmp", "AnnCloseTmp", "AnnRename", "AnnTruncate", "AnnWrite")


def _window(before, after, mid):
    if before in OPEN_STEPS:
        return "Open"
    if before in ("ScanDatasetNumbers", "TouchIndex", "OpenCsv", "CloseCsv", "OpenDatainfo", "CloseDatainfo") or (before == "MkHashDir" and mid):
        return "DatasetStore"
    if before in ("MkKeyDirs", "TouchLock", "LockEx", "TouchPending", "MkHashDir"):
        return "Begin"
    if before in ("ListHashDir", "ReadDatainfo"):
        return "DatasetReuse"
    if before in ("MkModelDir", "OpenModel", "CloseModel"):
        # with the index touched last, MkModelDir follows TouchIndex / ReadDatainfo: the dataset part is complete
        return "ModelFile"
    if before in ("MkMetaDir", "OpenResults", "CloseResults"):
        return "Results"
    if before == "UnlinkPending":
        return "Commit"
    if before in ANN_STEPS:
        return "NameAndAnnotation"
    if before.startswith("Log"):
        return "Log"
    if before in ("RMkKeyDirs", "RTouchLock", "LockSh", "ReadEntry"):
        return "Read"
    return "Other"


# ----------------------------------------------------------------------------- crash injection on the real code


def _run_dry(root, ops, status):
    """run Open + ops without crash in a child on `root` (fresh or surviving tree); per-op audited events + outcomes"""
    code, recs = R.run_child(root, ops, None, status)
    if code != 0 or not recs or "events" not in recs[-1]:
        return {"error": f"dry run failed (exit {code})"}
    events = recs[-1]["events"]
    bounds, evs = {}, {}
    for r in recs[:-1]:
        if r["ph"] == "b":
            bounds[r["i"]] = [r["n"], None]
        else:
            bounds[r["i"]][1] = r["n"]
            evs[r["i"]] = r["ev"]
    labels = []
    for i in sorted(bounds):
        a, b = bounds[i]
        kind = "Open" if i == 0 else ops[i - 1]["e"]
        labels += R.label_events(events[a:b], kind)
    return {"events": events, "labels": labels, "bounds": bounds, "evs": evs}


def _dry(arg):
    base, wid, ops = arg
    d = os.path.join(base, f"dry{wid}")
    os.makedirs(d)
    out = _run_dry(os.path.join(d, "root"), ops, os.path.join(d, "status"))
    shutil.rmtree(d, ignore_errors=True)
    out["wid"] = wid
    return out


def _crash_info(ops, dry, k, variant):
    """describe the crash point in spec terms.  kill: the process dies BEFORE audited event k (1-based).
    torn (t0/thalf): it dies while event k-1 - the close of a written file - flushes: only part of the data arrives."""
    labels, events, bounds = dry["labels"], dry["events"], dry["bounds"]
    owner = k if variant == "kill" else k - 1  # the event that did not (fully) happen
    opi = None
    for i, (a, b) in sorted(bounds.items()):
        if a < owner <= b:
            opi = i
    if opi is None:
        raise core.MachineryError(f"crash point {k} outside the operations {bounds}")
    a, b = bounds[opi]
    before = labels[owner - 1]
    j = owner - 2  # index of the last event before `owner`
    mid = False
    while j >= a and labels[j] == before:
        j -= 1
        mid = True
    after = labels[j] if j >= a else "Begin"
    if variant != "kill":
        mid = True  # the step `before` (a Close*/Write step) happened partially
    op = {"e": "Open"} if opi == 0 else ops[opi - 1]
    committed_before = {o["m"] for o in ops[: max(opi - 1, 0)] if o["e"] == "Store"}
    info = {"k": k, "variant": variant, "op_index": opi, "op": op["e"], "m": op.get("m", "none"), "n": op.get("n", "none"),
            "before": before, "after": after, "mid": mid, "window": _window(before, after, mid),
            "restore": op["e"] == "Store" and op.get("m") in committed_before}
    if variant != "kill":
        info["torn_file"] = os.path.basename(events[k - 2][1])
    return info


NO_CRASH = {"variant": "none", "op_index": 0, "op": "none", "m": "none", "n": "none", "before": "End", "after": "End",
            "mid": False, "window": "none", "restore": False}


def _followups(ops, crash, rng):
    """store each model whose store was not the interrupted one: the one with the other dataset and the one sharing it"""
    crashed = crash["m"] if crash["op"] == "Store" else None
    others = [m for m in ("m1", "m2", "m3") if m != crashed]
    rng.shuffle(others)
    fu = [{"e": "Store", "m": m, "n": "f" + m, "d": "dF"} for m in others]
    fu.append({"e": "Log", "g": "gF"})
    return fu, crashed


def _kill_at(root, ops, k, variant, n_total, status, events):
    """child dies before event k (k = n_total + 1: runs to its end); torn variants truncate the file closed by event k-1"""
    code, recs = R.run_child(root, ops, k if k <= n_total else None, status)
    if code != (137 if k <= n_total else 0):
        return None, f"child exited {code} instead of dying at event {k}"
    if variant in ("t0", "thalf"):
        prev = events[k - 2]
        R.tear(root, prev[1], prev[2], variant)
    return [r["ev"] for r in recs if r.get("ph") == "e"], None


def _prepared(d, case, head, names, followups, crashed):
    root = os.path.join(d, "root")
    return {"dir": d, "case": case, "head": head, "names": names, "followups": followups, "crashed": crashed,
            "digest": R.tree_digest(root), "sem": _sem_digest(root)}


def _job_crash(arg):
    """one crash point of a workload: child dies at event k (+ torn variant)"""
    base, cid, ops, k, variant, dry, crash, fu, crashed = arg
    d = os.path.join(base, f"c{cid}")
    os.makedirs(d)
    pre, err = _kill_at(os.path.join(d, "root"), ops, k, variant, len(dry["events"]), os.path.join(d, "status"), dry["events"])
    if err:
        return {"error": err}
    case = {"kind": "crash", "workload": ops, "crash": crash, "followups": [o["m"] for o in fu if o["e"] == "Store"]}
    return _prepared(d, case, _trace_events(ops, crash if variant != "none" else None, pre, []), _names_of(ops), fu, crashed)


def _job_conc(arg):
    """as _job_crash, but a second writer process stores another model while the first one runs and is killed"""
    base, cid, ops, k, dry, fu, other = arg
    d = os.path.join(base, f"cc{cid}")
    os.makedirs(d)
    root = os.path.join(d, "root")
    sa, sb = os.path.join(d, "statusA"), os.path.join(d, "statusB")
    bops = [{"e": "Store", "m": other, "n": "c" + other, "d": "dF"}]
    pb = R.spawn_child(root, bops, None, sb, wait_for=sa)
    pa = R.spawn_child(root, ops, k, sa)
    code, recs = R.reap_child(pa, sa)
    codeb, recsb = R.reap_child(pb, sb, timeout=600)
    if code not in (137, 0):
        return {"error": f"first writer exited {code}"}
    pre = [r["ev"] for r in recs if r.get("ph") == "e"]
    began = max((r["i"] for r in recs if r.get("ph") == "b"), default=0)
    # the second writer changes which files exist, so event k need not be the one of the dry run: trust the child's own record
    if code == 137 and began >= 1 and len(pre) <= began:
        op = ops[began - 1]
        crash = {"k": k, "variant": "kill", "op_index": began, "op": op["e"], "m": op.get("m", "none"), "n": op.get("n", "none"),
                 "before": "unknown", "after": "unknown", "mid": False, "window": "Concurrent",
                 "restore": op["e"] == "Store" and op.get("m") in {o["m"] for o in ops[: began - 1] if o["e"] == "Store"}}
    elif code == 137:
        crash = dict(NO_CRASH, variant="kill", k=k, op="Open", window="Concurrent")
    else:
        crash = dict(NO_CRASH, k=k)
    # one time line for both processes, in order of completion; the second writer's store is "inflight" from its begin on
    # (it may or may not be visible to the first process), the interrupted operation and the Crash marker follow the
    # last record of the first process
    line = []
    a_events = _trace_events(ops, crash if code == 137 else None, pre, [])
    a_times = [r["t"] for r in recs if r.get("ph") == "e"]
    t_last = max([r["t"] for r in recs if "t" in r], default=0.0)
    for i, e in enumerate(a_events):
        line.append((a_times[i] if i < len(a_times) and e.get("out") != "crash" and e["e"] != "Crash" else t_last + 1e-6 * (i + 1), e))
    for r in recsb:
        if r.get("ph") == "b" and r["i"] == 1:
            line.append((r["t"], dict(bops[0], out="inflight", troublesome=False)))
        elif r.get("ph") == "e":
            line.append((r["t"], dict(r["ev"])))
    done_b = [r for r in recsb if r.get("ph") == "e"]
    if codeb == -9 or len(done_b) < 2:
        line.append((time.time(), dict(bops[0], out="error:Timeout" if codeb == -9 else f"error:Exit{codeb}", troublesome=False)))
    head = []
    for _, e in sorted(line, key=lambda x: x[0]):
        e.setdefault("phase", "concurrent")
        if e["e"] == "Store":
            e.setdefault("troublesome", False)
            e.setdefault("nlog", R.LOG_LEN.get(e.get("m"), 0))
        head.append(e)
    crashed = crash["m"] if crash["op"] == "Store" else None
    fu = [o for o in fu if o.get("m") != crashed]
    case = {"kind": "concurrent", "schedule": {"race": "none", "second_writer": other}, "workload": ops, "crash": crash,
            "followups": [o["m"] for o in fu if o["e"] == "Store"]}
    return _prepared(d, case, head, _names_of(ops + bops), fu, crashed)


def _job_enact(arg):
    """a single-process design counterexample: segments of operations each ending in a crash, then follow-up operations"""
    base, idx, inv, letter, segs, crashes = arg
    d = os.path.join(base, f"e{idx}")
    os.makedirs(d)
    root = os.path.join(d, "root")
    head, done_ops, crash, notes = [], [], dict(NO_CRASH), []
    for si, cr in enumerate(crashes):
        ops = segs[si]
        # where is the step of the counterexample in the real operation?  dry run on a copy of the surviving tree
        dd = os.path.join(d, f"dry{si}")
        os.makedirs(dd)
        if os.path.isdir(root):
            R.copy_tree(root, os.path.join(dd, "root"))
        dry = _run_dry(os.path.join(dd, "root"), ops, os.path.join(dd, "status"))
        shutil.rmtree(dd, ignore_errors=True)
        if "error" in dry:
            return {"error": dry["error"]}
        a, b = dry["bounds"][cr["op_index"]]
        ks = [k for k in range(a + 1, b + 1) if dry["labels"][k - 1] == cr["before"]]
        if not ks:
            return {"skip": f"the counterexample of {inv} crashes before {cr['before']}, a step the real operation does not perform"}
        k, variant = ks[0], "kill"
        if cr["fate"] in ("thalf", "t0", "complete") and dry["events"][k - 1][0] == "close":
            k, variant = k + 1, (cr["fate"] if cr["fate"] != "complete" else "kill")
        pre, err = _kill_at(root, ops, k, variant, len(dry["events"]), os.path.join(d, f"status{si}"), dry["events"])
        if err:
            return {"error": err}
        crash = _crash_info(ops, dry, k, variant)
        head += _trace_events(ops, crash, pre, [])
        done_ops += ops
    rest = segs[len(crashes)]
    if not crashes:
        # no crash: the operations run in a child, then the observation
        code, recs = R.run_child(root, rest, None, os.path.join(d, "status"))
        head += _trace_events(rest, None, [r["ev"] for r in recs if r.get("ph") == "e"], [])
        done_ops, rest = rest, []
    crashed = crash["m"] if crash["op"] == "Store" else None
    case = {"kind": "design", "invariant": inv, "workload": done_ops, "crash": crash, "followups": rest, "segments": len(crashes)}
    out = _prepared(d, case, head, _names_of(done_ops + rest), rest, crashed)
    out["predicted"] = letter
    return out


SCHED_SILENT = SILENT | {"InitCommon"}  # steps that need not produce an audited event: no hold points


def _blocks(scen):
    """the interleaving of a two-process counterexample as alternating blocks (process, first audited step, its operation index)"""
    out = []
    for p, lab, opi in scen["order"]:
        if lab in SCHED_SILENT:
            continue
        if not out or out[-1][0] != p:
            out.append((p, lab, opi))
    return out


def _job_pair(arg):
    """a crash-free two-process design counterexample: the real processes are run block by block in TLC's order; a process
    is held (audit hook) before the first audited step of its next block while the other one moves"""
    base, idx, inv, letter, ops_by_proc, blocks = arg
    d = os.path.join(base, f"p{idx}")
    os.makedirs(d)
    root = os.path.join(d, "root")
    procs = sorted({b[0] for b in blocks})
    status = {p: os.path.join(d, f"status{p}") for p in procs}
    holds = {p: [] for p in procs}
    for bi, (p, lab, opi) in enumerate(blocks):
        if any(b[0] == p for b in blocks[:bi]):
            holds[p].append({"label": lab, "opi": opi, "paused": os.path.join(d, f"paused{bi}"), "go": os.path.join(d, f"go{bi}"), "block": bi})
    pid, nxt, alive = {}, {p: 0 for p in procs}, {}
    skip = None
    for bi, (p, lab, opi) in enumerate(blocks):
        if p not in pid:
            pid[p] = R.spawn_child(root, ops_by_proc[p], None, status[p], pause=holds[p])
            alive[p] = True
        else:
            h = holds[p][nxt[p]]
            open(h["go"], "w").close()
            nxt[p] += 1
        if not alive[p]:
            continue
        # p moves until it is held before its next block, or ends
        t0 = time.time()
        target = holds[p][nxt[p]]["paused"] if nxt[p] < len(holds[p]) else None
        while time.time() - t0 < 600:
            if target is not None and os.path.exists(target):
                break
            r, _ = os.waitpid(pid[p], os.WNOHANG)
            if r != 0:
                alive[p] = False
                if target is not None:
                    skip = f"process {p} ended before reaching the step {holds[p][nxt[p]]['label']} (block {bi + 1} of {len(blocks)})"
                break
            time.sleep(0.01)
        else:
            skip = f"time-out in block {bi + 1} of {len(blocks)} (process {p} blocked)"
        if skip:
            break
    for p in pid:  # release everything and collect
        for h in holds[p]:
            if not os.path.exists(h["go"]):
                open(h["go"], "w").close()
    recs = []
    for p in pid:
        if alive[p]:
            recs += R.reap_child(pid[p], status[p], timeout=600)[1]
        else:
            recs += R.read_status(status[p])
    if skip:
        shutil.rmtree(d, ignore_errors=True)
        return {"skip": f"the two-process counterexample of {inv} could not be scheduled on the real code: {skip}"}
    recs = sorted([r for r in recs if r.get("ph") == "e"], key=lambda r: r["t"])  # order of completion
    head = []
    for r in recs:
        e = dict(r["ev"])
        e["phase"] = "pre"
        if e["e"] == "Store":
            e.setdefault("troublesome", False)
            e.setdefault("nlog", R.LOG_LEN.get(e.get("m"), 0))
        head.append(e)
    last = blocks[-1][1]
    race = "constructors" if last in OPEN_STEPS else "store_key" if last == "Symlink" else last
    allops = [o for p in procs for o in ops_by_proc[p]]
    case = {"kind": "concurrent", "invariant": inv, "schedule": {"race": race, "blocks": [list(b) for b in blocks], "ops": {str(p): ops_by_proc[p] for p in procs},
                                                                 "held": allops, "second_writer": "none"},
            "workload": ops_by_proc[procs[0]], "crash": dict(NO_CRASH), "followups": []}
    out = _prepared(d, case, head, _names_of(allops), [], None)
    out["predicted"] = letter
    return out


def _sem_digest(root):
    """digest ignoring lock files and empty directories (quick tier de-duplication of equivalent post-crash trees)"""
    import hashlib

    h = hashlib.sha256()
    for dp, dn, fn in os.walk(root):
        dn.sort()
        rel = os.path.relpath(dp, root)
        for f in sorted(fn) + [x for x in dn if os.path.islink(os.path.join(dp, x))]:
            p = os.path.join(dp, f)
            if f.endswith(".lock") or f == "common_options":
                continue
            if os.path.islink(p):
                h.update(b"L" + rel.encode() + b"/" + f.encode() + b">" + os.readlink(p).encode() + b"\0")
                continue
            with R.A._real_open(p, "rb") as fh:
                data = fh.read()
            if f == "log.csv":
                data = R._TS.sub(b"T", data)
            h.update(b"F" + rel.encode() + b"/" + f.encode() + b"\0" + hashlib.sha256(data).digest())
    return h.hexdigest()


def _observe(arg):
    d, names, followups, crashed, keep = arg
    t0 = time.time()
    evs = R.observe(os.path.join(d, "root"), names, followups, crashed)
    if not keep:
        shutil.rmtree(d, ignore_errors=True)
    return evs, time.time() - t0


def _names_of(ops):
    out = []
    for o in ops:
        if o["e"] == "Store" and o["n"] not in out:
            out.append(o["n"])
    return out


def _trace_events(ops, crash, pre, obs):
    """workload outcomes before the crash + the interrupted operation + Crash + observation events (shape of ModelDBTrace.tla)"""
    evs = []
    opi = crash["op_index"] if crash is not None else len(ops) + 1
    done = -1
    for ev in pre:
        done += 1  # pre[0] is Open, pre[i] operation i
        if done >= opi and crash is not None:
            break  # torn variant: the operation whose last write is torn did not return
        e = dict(ev)
        e["phase"] = "pre"
        evs.append(e)
    if crash is not None:
        if opi >= 1 and ops[opi - 1]["e"] in ("Store", "Log"):
            e = dict(ops[opi - 1])
            e["out"] = "crash"
            e["phase"] = "pre"
            evs.append(e)
        evs.append({"e": "Crash", "phase": "crash"})
    evs += obs
    for e in evs:
        if e["e"] == "Store":
            e.setdefault("troublesome", False)
            e.setdefault("nlog", R.LOG_LEN.get(e.get("m"), 0))
    return evs


# ----------------------------------------------------------------------------- fidelity over inputs


def _fidelity(arg):
    """one TLC-enumerated text through one of the three places a caller's text goes: fresh context per case"""
    base, idx, case = arg
    d = os.path.join(base, f"f{idx}")
    os.makedirs(d)
    kind, text = case["kind"], list(case["text"])
    evs = []
    try:
        ctx = R.open_ctx(d)
        A_ = ["A"]
        if kind == "log":
            if case["variant"] == "after":
                evs.append(R.do_op(ctx, {"e": "Log", "g": A_}, tok=True))
            evs.append(R.do_op(ctx, {"e": "Log", "g": text}, tok=True))
            evs.append(R.do_op(R.open_ctx(d), {"e": "ReadLog"}, tok=True))
        else:
            n, dd = (text, A_) if kind == "name" else (A_, text)
            evs.append(R.do_op(ctx, {"e": "Store", "m": "m1", "n": n, "d": dd}, tok=True, fresh=idx + 1))
            ctx2 = R.open_ctx(d)
            evs.append(R.do_op(ctx2, {"e": "ResolveName", "n": n}, tok=True))
            evs.append(R.do_op(ctx2, {"e": "ReadAnn", "n": n}, tok=True))
            evs.append(R.do_op(ctx2, {"e": "RetrieveName", "n": n}, tok=True))
    except BaseException as e:  # noqa: BLE001
        evs.append({"e": "Reopen", "out": R.outcome_of(e), "detail": R._detail(e)})
    shutil.rmtree(d, ignore_errors=True)
    for e in evs:
        e["phase"] = "fidelity"
    return evs


# ----------------------------------------------------------------------------- trace validation by TLC


def _validate(traces, v: core.Verdict):
    """traces: list of {"case": record, "events": [...]}; returns per-trace list of bads from TLC"""
    if not traces:
        return []
    d = core.scratch("c16tr")
    f = d / "traces.json"
    f.write_text(json.dumps([{"events": t["events"]} for t in traces]))
    res = core.run_tlc(SPEC / "ModelDBTrace.tla", SPEC / "ModelDBTrace.cfg", workers=1, timeout=6000, env={"TRACES": str(f)}, coverage=False)
    shutil.rmtree(d, ignore_errors=True)
    core.require_ok(res, "ModelDBTrace.tla")
    if res.violated:
        raise core.MachineryError(f"ModelDBTrace: unexpected {res.violated}\n" + "\n".join(res.trace[-2:])[:2000])
    verdicts = {x["tid"]: x["bads"] for tag, x in res.prints if tag == "VERDICT"}
    missing = [i for i in range(1, len(traces) + 1) if i not in verdicts]
    if missing:
        raise core.MachineryError(f"ModelDBTrace: {len(missing)} traces were not consumed to the end (first: {missing[0]}: "
                                  f"{json.dumps(traces[missing[0] - 1]['events'])[:600]})")
    v.add_coverage(states=res.distinct, transitions=res.generated)
    return [verdicts[i] if isinstance(verdicts[i], list) else [] for i in range(1, len(traces) + 1)]


def _outcome(ev, bad):
    """name of what was observed (part of every known-finding key)"""
    if ev["out"] != "ok":
        return ev["out"]
    exp = bad.get("exp")
    e = ev["e"]
    if e in ("Retrieve", "RetrieveName"):
        c = ev["c"]
        cands = []
        if isinstance(exp, dict):
            cands = [dict(exp)]
        elif isinstance(exp, list):
            cands = [dict(x) for x in exp if isinstance(x, dict)]  # expected entries of the candidate bindings
        best = None
        for cand in cands:
            diff = sorted(k for k, val in cand.items() if c.get(k) != val)
            if best is None or len(diff) < len(best):
                best = diff
        if best is None:
            return "unexpected_entry"
        if "model" in best:
            return "mismatch:other_model"      # the entry of a different model
        if "data" in best:
            # the right model bound to the dataset of another model / to something that is no stored dataset at all
            return "mismatch:other_dataset" if c.get("data") in ("d1", "d2") else "mismatch:corrupt_dataset"
        if "hash" in best:
            return "mismatch:hash"
        if "res" in best:
            return "mismatch:results"
        if "rlog" in best:
            return "mismatch:results_log"         # the log inside the stored results: not in order / not verbatim
        return "mismatch:" + ",".join(best)   # name / desc
    if e == "ResolveName":
        return "mismatch:key"
    if e == "ReadAnn":
        return "mismatch:desc"
    if e == "ReadLog":
        return "mismatch:lines"
    return "ok"


LETTER = {"A": "no partial visibility", "D": "durability/fidelity of a committed entry", "I": "isolation of failures",
          "L": "log / annotations", "U": "unspecified"}


def _report(traces, bads_per_trace, v: core.Verdict, counts):
    for t, bads in zip(traces, bads_per_trace):
        case = t["case"]
        for bad in bads:
            ev = t["events"][bad["l"] - 1]
            if bad["p"] == "U":
                counts["unspecified"] += 1
                continue
            crashed = case.get("crash", {}).get("m")
            target = ev.get("m")
            if target is None and ev["e"] in ("ResolveName", "RetrieveName", "ReadAnn") and isinstance(bad.get("exp"), list):
                ms = sorted({x["hash"] if isinstance(x, dict) else x[0] for x in bad["exp"]})
                target = ms[-1] if ms else None
            nm = ev.get("n")
            all_ops = list(case.get("workload", [])) + list(case.get("schedule", {}).get("held", []) or [])
            stored_as = {o["m"] for o in all_ops if o["e"] == "Store" and o.get("n") == nm} if isinstance(nm, str) else set()
            fu = {"op": ev["e"], "phase": ev.get("phase"), "m": target or "none", "n": ev.get("n", "none") if not isinstance(ev.get("n"), list) else "text",
                  "name_rebound": len(stored_as) > 1,
                  "is_crashed_model": bool(crashed and target == crashed),
                  "shares_dataset": bool(crashed and target and target != crashed and R.DATA_OF.get(target) == R.DATA_OF.get(crashed))}
            rec = dict(case)
            rec["followup"] = fu
            rec["prop"] = bad["p"]
            rec["outcome"] = _outcome(ev, bad)
            rec["observed"] = {k: ev[k] for k in ("out", "c", "key", "d", "lines", "detail", "stage") if k in ev}
            rec["expected"] = bad.get("exp")
            what = (f"({bad['p']}: {LETTER.get(bad['p'], '?')}) {ev['e']} "
                    f"{ev.get('m') or ev.get('n') or ''} -> {rec['outcome']}"
                    + (f" [{ev['detail'].get('where')}: {ev['detail'].get('msg', '')[:80]}]" if "detail" in ev else "")
                    + f" after {json.dumps(case.get('crash', case.get('text', '')))[:200]}")
            st = v.violation(rec, what)
            counts[st] = counts.get(st, 0) + 1
            if st == "new":
                # keep the full trace next to the replay record
                rec["trace"] = t["events"]


# ----------------------------------------------------------------------------- main


def _select_workloads(cases, tier, rng, extra):
    """one representative workload per signature of its LAST operation (its step sequence in the design + the
    context it runs in); crash points are enumerated inside the last operation only - a crash inside an
    earlier operation is the crash of a prefix workload, and all prefixes are workloads themselves."""
    by_sig = {}
    for c in cases:
        h = c["hist"][1:]  # drop Open
        if not h:
            continue
        last = h[-1]
        before = h[:-1]
        names_before = {x["op"]["n"] for x in before if x["op"]["op"] == "Store"}
        stored_before = {x["op"]["m"] for x in before if x["op"]["op"] == "Store"}
        is_store = last["op"]["op"] == "Store"
        new_data = is_store and "MkHashDir" in last["steps"]
        sig = (tuple(last["steps"]), last["out"],
               # the name is already bound (store_key keeps the old link; the annotation line is replaced)
               last["op"].get("n") in names_before if is_store else None,
               # a new dataset next to a committed model with another dataset (dataset numbers > 1)
               bool({R.DATA_OF[m] for m in stored_before} - {R.DATA_OF.get(last["op"].get("m"))}) if new_data else None)
        if tier != "quick":
            sig += (bool(names_before), any(x["op"]["op"] == "Log" for x in before),
                    bool({R.DATA_OF[m] for m in stored_before} - {R.DATA_OF.get(last["op"].get("m"))}) if is_store else None)
        by_sig.setdefault(sig, []).append(c)
    chosen = []
    for sig in sorted(by_sig, key=repr):
        group = sorted(by_sig[sig], key=lambda c: (len(c["hist"]), json.dumps(c["hist"], sort_keys=True)))
        shortest = [c for c in group if len(c["hist"]) == len(group[0]["hist"])]
        chosen.append(rng.choice(shortest))
    rest = [c for c in cases if len(c["hist"]) > 1 and c not in chosen]
    rng.shuffle(rest)
    chosen += rest[:extra]
    return chosen, len(by_sig)


def _ops_of_case(c):
    return [_op_from_spec(x["op"]) for x in c["hist"][1:]]


def _design_entry(inv, letter, res, scen, what):
    core.require_ok(res, f"ModelDB.tla {what} {inv}")
    if res.violated and res.violated != inv:
        raise core.MachineryError(f"{what} {inv}: unexpected violation of {res.violated}")
    e = {"invariant": inv, "property": letter, "violated": bool(res.violated), "states": res.distinct, "wall_s": round(res.wall, 1)}
    if res.violated and scen and "error" not in scen:
        e["scenario"] = {"operations": scen["segs"], "crashes": scen["crashes"], "trace_length": scen["length"]}
    return e


def main(tier: str, seed: int) -> int:
    t_start = time.time()
    T = TIERS[tier]
    v = core.Verdict(PROP, tier, seed)
    v.assumptions = [
        "crash model = process death (os._exit from an audit hook, before the k-th audited file-system operation) with a torn final write "
        "(file closed last truncated to nothing / half of what was written); no power-loss reordering, no fsync semantics",
        "quick: one process at a time; thorough: also a second writer process (real fcntl locks; their exclusion itself is C15's subject) "
        "and two-process design counterexamples re-enacted by holding one process at a named step",
        "models: pheno_real (m1), m1 with another initial estimate (m2, same dataset), m1 with one changed data value (m3, other dataset, same columns)",
    ]
    rng = random.Random(seed)
    sc = core.scratch("c16")
    counts = {"unspecified": 0, "new": 0, "known": 0, "dup": 0}
    try:
        # ---- TLC: design exhaustive (background), emit workloads, texts
        w_design = _bg(_run_design, _cfg("ModelDB.cfg", sc, "design.cfg", T["design"], HOLDING), 8 if tier == "quick" else 16)
        w_emit = _bg(_run_emit, _cfg("ModelDBEmit.cfg", sc, "emit.cfg", T["emit"], ["TypeOK", "EmitCase"]))
        tcfg = sc / "text.cfg"
        tcfg.write_text((SPEC / "ModelDBText.cfg").read_text().replace("MaxLen = 2", f"MaxLen = {T['text_len']}"))
        w_text = _bg(_run_text, tcfg)

        core.use_repo()
        import pharmpy.modeling  # noqa: F401
        import pharmpy.workflows  # noqa: F401  (import before forking)

        R.world(core.REPO)
        emit = w_emit()
        core.require_ok(emit, "ModelDB.tla (emit)")
        if emit.violated:
            raise core.MachineryError(f"ModelDB.tla emit run: {emit.violated} violated")
        cases = [c for tag, c in emit.prints if tag == "CASE"]
        if len(cases) < 10:
            raise core.MachineryError("ModelDB.tla emitted too few workloads")
        core.tlc_stats_into(v, emit)
        # property-layer runs start now (they overlap with the dry runs / crash injection)
        nw = 2 if tier == "quick" else 4
        w_props = []
        for inv, letter in PROP_INVARIANTS:
            cfgp = _cfg("ModelDB.cfg", sc, f"prop_{inv}.cfg", T["props"], [inv])
            cfgp2 = _cfg("ModelDB.cfg", sc, f"prop2_{inv}.cfg", T["props2"], [inv]) if T.get("props2") else None
            w_props.append((inv, letter, _bg(_run_prop, cfgp, sc / f"trace_{inv}.json", nw, cfgp2)))
        w_legacy, w_two, w_twoprops = [], None, []
        if T.get("legacy"):
            w_legacy.append(("holding", "-", _bg(_run_prop, _cfg("ModelDBLegacy.cfg", sc, "legacy.cfg", T["legacy"], LEGACY_HOLDING), sc / "trace_legacy.json", nw)))
            for inv, letter in LEGACY_INVARIANTS:
                w_legacy.append((inv, letter, _bg(_run_prop, _cfg("ModelDBLegacy.cfg", sc, f"legacy_{inv}.cfg", T["legacy"], [inv]), sc / f"trace_legacy_{inv}.json", nw)))
        if T.get("two"):
            w_two = _bg(_run_design, _cfg("ModelDB2P.cfg", sc, "two.cfg", T["two"], TWO_HOLDING), 8)
            for inv, letter in TWO_INVARIANTS:
                w_twoprops.append((inv, letter, _bg(_run_prop, _cfg("ModelDB2P.cfg", sc, f"two_{inv}.cfg", T["two_props"], [inv]), sc / f"trace_two_{inv}.json", nw)))
            for inv, letter in TWO_LEGACY_INVARIANTS:
                cfgl = _cfg("ModelDB2P.cfg", sc, f"twolegacy_{inv}.cfg", T["two_props"], [inv])
                cfgl.write_text(cfgl.read_text().replace("Legacy = {}", "Legacy <- LegacyTwo"))
                w_legacy.append(("2P:" + inv, letter, _bg(_run_prop, cfgl, sc / f"trace_twolegacy_{inv}.json", nw)))

        chosen, nsig = _select_workloads(cases, tier, rng, T["extra_workloads"])
        workloads = [_ops_of_case(c) for c in chosen]
        base = str(sc)
        dries = core.pmap(_dry, [(base, i, ops) for i, ops in enumerate(workloads)], procs=16)
        bad = [d for d in dries if "error" in d]
        if bad:
            raise core.MachineryError(f"dry runs failed: {bad[0]}")

        # ---- (b) operation-order conformance (drift only)
        drift = []
        conf_ok = 0
        for c, ops, dry in zip(chosen, workloads, dries):
            for i, h in enumerate(c["hist"]):
                a, b = dry["bounds"][i]
                real = [x for x in _collapse(dry["labels"][a:b]) if x not in SILENT]
                spec = [x for x in _collapse(h["steps"]) if x not in SILENT]
                real_out = dry["evs"][i]["out"]
                if real == spec and real_out == h["out"]:
                    conf_ok += 1
                else:
                    drift.append({"op": h["op"], "spec": spec, "real": real, "spec_out": h["out"], "real_out": real_out})
        if drift:
            v.notes.append(f"drift: {len(drift)} operation(s) whose audited file-system sequence differs from ModelDB.tla, first: {json.dumps(drift[0])[:500]}")

        # ---- (a) crash points: inside the last operation of each workload (and inside Open for the first)
        points = []
        for wid, (ops, dry) in enumerate(zip(workloads, dries)):
            n = len(dry["events"])
            a, b = dry["bounds"][len(ops)]
            lo = 1 if wid == 0 else a + 1
            for k in range(lo, b + 2):  # b+1 = after the last event of the operation (only useful for torn variants)
                if k <= b:
                    points.append((wid, k, "kill"))
                prev = dry["events"][k - 2] if k >= 2 else None
                if prev is not None and prev[0] == "close" and k - 1 > (0 if wid == 0 else a):
                    points.append((wid, k, "t0"))
                    points.append((wid, k, "thalf"))
            points.append((wid, n + 1, "none"))  # the workload runs to its end: happy-path observation
        total_points = len(points)
        jobs = []
        for cid, (wid, k, var) in enumerate(points):
            ops, dry = workloads[wid], dries[wid]
            crash = dict(NO_CRASH, k=k, op_index=len(ops) + 1) if var == "none" else _crash_info(ops, dry, k, var)
            # the order of the follow-up stores (sharing model first / other dataset first) varies with seed, workload, window
            fu, crashed = _followups(ops, crash, random.Random(f"{seed}/{wid}/{crash['window']}/{crash['variant']}"))
            small = {"events": dry["events"]}
            jobs.append((_job_crash, (base, cid, ops, k, var, small, crash, fu, crashed)))
        # a second writer process while the first one is killed (thorough)
        n_conc = 0
        if T["conc"]:
            kills = [(wid, k) for wid, k, var in points if var == "kill" and k > dries[wid]["bounds"][0][1]]  # after Open
            rng.shuffle(kills)
            for cid, (wid, k) in enumerate(kills[: T["conc"]]):
                ops = workloads[wid]
                crash = _crash_info(ops, dries[wid], k, "kill")
                others = [m for m in ("m1", "m2", "m3") if m != crash["m"]]
                fu, _ = _followups(ops, crash, random.Random(f"{seed}/c/{wid}/{k}"))
                jobs.append((_job_conc, (base, cid, ops, k, {"events": dries[wid]["events"]}, fu, rng.choice(others))))
                n_conc += 1

        # design-level counterexamples: re-enacted on the real code
        design_findings, legacy_findings, two_findings = [], [], []
        n_enact = 0
        for inv, letter, wait in w_props:
            res, scen = wait()
            e = _design_entry(inv, letter, res, scen, "property run")
            if "scenario" in e:
                jobs.append((_job_enact, (base, n_enact, inv, letter, scen["segs"][0], scen["crashes"][0])))
                n_enact += 1
            design_findings.append(e)
            v.add_coverage(states=res.distinct, transitions=res.generated)
        for inv, letter, wait in w_twoprops:
            res, scen = wait()
            e = _design_entry(inv, letter, res, scen, "two-process property run")
            e["processes"] = 2
            if "scenario" in e:
                if scen["ncrash"] > 0:
                    e["reproduced_on_real_code"] = "not re-enacted (needs a crash inside a two-process schedule)"
                else:
                    blocks = _blocks(scen)
                    e["schedule"] = [list(b) for b in blocks]
                    jobs.append((_job_pair, (base, len(two_findings), inv, letter, {p: scen["segs"][p][0] for p in scen["segs"]}, blocks)))
            two_findings.append(e)
            v.add_coverage(states=res.distinct, transitions=res.generated)

        t0 = time.time()
        prepared = core.pmap(_run_job, jobs, procs=16, chunk=2)
        t_inject = time.time() - t0
        bad = [x for x in prepared if "error" in x]
        if bad:
            raise core.MachineryError(f"crash injection failed: {bad[0]['error']}")
        for x in prepared:
            if "skip" in x:
                v.notes.append("drift: " + x["skip"])
        prepared = [x for x in prepared if "skip" not in x]

        # ---- observations (deduplicated by post-crash tree; above the tier budget: sampled by seed, one of each kind first)
        dkey = "sem" if T["sem_dedupe"] else "digest"
        groups = {}
        for i, x in enumerate(prepared):
            key = (json.dumps(x["case"].get("workload")), x[dkey], json.dumps(x["followups"]), x["crashed"], json.dumps(x["names"]))
            x["key"] = key
            groups.setdefault(key, []).append(i)
        keys = list(groups)
        states_total = len(keys)
        must = {prepared[i]["key"] for i in range(len(prepared)) if prepared[i]["case"]["kind"] != "crash"}
        if len(keys) > T["budget"]:
            random.Random(seed + 17).shuffle(keys)
            seen, first, later = set(), [], []
            for key in keys:
                c = prepared[groups[key][0]]["case"]["crash"]
                kind = (c["op"], c["before"], c["variant"], c["restore"], c["window"])
                (later if kind in seen and key not in must else first).append(key)
                seen.add(kind)
            keys = (first + later)[: max(T["budget"], len(first))]
        keep = {k: n for n, k in enumerate(keys)}
        obs_jobs = [None] * len(keys)
        traces = []
        for x in prepared:
            n = keep.get(x["key"])
            if n is None or obs_jobs[n] is not None:
                shutil.rmtree(x["dir"], ignore_errors=True)
            if n is None:
                continue
            if obs_jobs[n] is None:
                obs_jobs[n] = (x["dir"], x["names"], x["followups"], x["crashed"], False)
            traces.append({"case": x["case"], "head": x["head"], "job": n, "predicted": x.get("predicted")})
        t0 = time.time()
        obs = core.pmap(_observe, obs_jobs, procs=16, chunk=1)
        t_observe = time.time() - t0
        for t in traces:
            t["events"] = t["head"] + [dict(e) for e in obs[t["job"]][0]]
        n_crash_traces = len(traces)

        # ---- (c) fidelity over inputs
        text = w_text()
        core.require_ok(text, "ModelDBText.tla")
        texts = [c for tag, c in text.prints if tag == "TEXT"]
        core.tlc_stats_into(v, text)
        unspecified_texts = sum(1 for c in texts if not c["specified"])
        fcases = []
        for c in texts:
            if not c["specified"]:
                continue
            if c["kind"] == "log":
                fcases.append(dict(c, variant="alone"))
                fcases.append(dict(c, variant="after"))
            else:
                fcases.append(dict(c, variant="store"))
        cheap = [c for c in fcases if c["kind"] == "log"]
        costly = [c for c in fcases if c["kind"] != "log"]
        short = [c for c in costly if len(c["text"]) <= 1]
        longer = [c for c in costly if len(c["text"]) > 1]
        rng.shuffle(longer)
        if len(cheap) > 20 * T["text_budget"]:
            rng.shuffle(cheap)
            cheap = cheap[: 20 * T["text_budget"]]
        fsel = cheap + short + longer[: T["text_budget"]]
        t0 = time.time()
        fres = core.pmap(_fidelity, [(base, i, c) for i, c in enumerate(fsel)], procs=16, chunk=4)
        t_fid = time.time() - t0
        for c, evs in zip(fsel, fres):
            traces.append({"case": {"kind": "fidelity." + c["kind"], "text": c["text"], "features": c["features"], "variant": c["variant"]}, "events": evs})

        # ---- TLC validates every trace against the property layer
        t0 = time.time()
        bads = _validate(traces, v)
        t_validate = time.time() - t0
        _report(traces, bads, v, counts)

        # design findings: reproduced on the real code?
        for t, b in zip(traces, bads):
            if t.get("predicted"):
                got = sorted({x["p"] for x in b if x["p"] != "U"})
                for e in design_findings + two_findings:
                    if e["invariant"] == t["case"]["invariant"] and ("processes" in e) == (t["case"]["kind"] == "concurrent"):
                        e["real_code_letters"] = got
                        e["reproduced_on_real_code"] = t["predicted"] in got
                        if not e["reproduced_on_real_code"]:
                            v.notes.append(f"drift: the design-level counterexample of {e['invariant']} does not show on the real code (observed letters {got})")

        for inv, letter, wait in w_legacy:
            res, scen = wait()
            core.require_ok(res, f"ModelDB.tla legacy run {inv}")
            if inv == "holding":
                if res.violated:
                    raise core.MachineryError(f"ModelDB.tla (legacy protocol): {res.violated} violated")
            else:
                legacy_findings.append(dict(_design_entry(inv.replace("2P:", ""), letter, res, scen, "legacy run"), invariant=inv))
            v.add_coverage(states=res.distinct, transitions=res.generated)
        if w_two is not None:
            two = w_two()
            core.require_ok(two, "ModelDB.tla (two processes)")
            if two.violated:
                raise core.MachineryError(f"ModelDB.tla (two processes): invariant {two.violated} violated:\n" + "\n".join(two.trace[-1:])[:1500])
            v.add_coverage(states=two.distinct, transitions=two.generated,
                           two_process_design={"constants": T["two"], "states": two.distinct, "invariants_holding": TWO_HOLDING, "findings": two_findings})

        design = w_design()
        core.require_ok(design, "ModelDB.tla (design, exhaustive)")
        if design.violated:
            raise core.MachineryError(f"ModelDB.tla: design-level invariant {design.violated} violated:\n" + "\n".join(design.trace[-2:])[:1500])
        core.require_actions(design, ACTIONS, "ModelDB.tla")
        core.tlc_stats_into(v, design)

        crash_traces = [t for t in traces[:n_crash_traces] if t["case"]["kind"] == "crash"]
        nontrivial = sum(1 for t in crash_traces if t["case"]["crash"]["window"] not in ("Open", "Begin", "Read", "none"))
        sample = []
        for t in crash_traces[:: max(1, len(crash_traces) // 4)][:4]:
            sample.append({"workload": t["case"]["workload"], "crash": t["case"]["crash"], "events": [{k: e[k] for k in ("e", "m", "n", "out") if k in e} for e in t["events"]][:14]})
        v.add_coverage(
            design_states=design.distinct, design_transitions=design.generated, design_depth=design.depth, design_wall_s=round(design.wall, 1),
            design_constants=T["design"], design_invariants_holding=HOLDING,
            design_findings=design_findings, legacy_protocol_findings=legacy_findings,
            workloads_emitted_by_tlc=len(cases), workload_signatures=nsig, workloads_run=len(workloads),
            conformance_ops_equal=conf_ok, conformance_ops_drift=len(drift),
            crash_points_total=total_points, second_writer_runs=n_conc, design_counterexamples_reenacted=n_enact,
            distinct_post_crash_states=states_total, distinct_post_crash_states_observed=len(obs_jobs),
            dedupe="semantic (lock files, empty directories ignored)" if T["sem_dedupe"] else "exact tree digest",
            evaluations=len(traces), distinct_nontrivial=nontrivial,
            traces_validated_against_impl=len(traces),
            fidelity_cases=len(fsel), fidelity_texts_enumerated=len(texts), texts_unspecified=unspecified_texts,
            outcomes_unspecified=counts["unspecified"], violations_known=counts.get("known", 0),
            timings_s={"inject": round(t_inject, 1), "observe": round(t_observe, 1), "fidelity": round(t_fid, 1), "validate": round(t_validate, 1),
                       "observe_mean_per_state": round(sum(o[1] for o in obs) / max(1, len(obs)), 2)},
            rule="every workload TLC reaches (<= MaxOps operations) is a case; one representative per signature of the last operation; every audited "
                 "file-system operation of that operation is a crash point (plus torn variants after each close); non-trivial = crash inside the "
                 "dataset / model file / results / commit / name+annotation / log windows; sampled by VERIF_SEED above the tier budget",
            samples=sample,
            exhaustive=len(keys) >= states_total,
        )
    finally:
        shutil.rmtree(sc, ignore_errors=True)
    v.add_coverage(total_wall_s=round(time.time() - t_start, 1))
    return v.finish(min_traces=40 if tier == "quick" else 400)


def _run_job(job):
    fn, arg = job
    return fn(arg)


def replay(path: str) -> int:
    """re-run the crash point / scenario / fidelity case of a replay file on the real code and print the observation trace"""
    core.use_repo()
    import pharmpy.modeling  # noqa: F401
    import pharmpy.workflows  # noqa: F401

    R.world(core.REPO)
    data = json.loads(open(path).read())
    case = data["case"]
    print(json.dumps({k: case[k] for k in case if k not in ("trace",)}, indent=1)[:3000])
    sc = core.scratch("c16rp")
    v = core.Verdict(PROP, "replay", 0)
    try:
        kind = case["kind"]
        if kind.startswith("fidelity"):
            c = {"kind": kind.split(".")[1], "text": case["text"], "variant": case["variant"]}
            traces = [{"case": case, "events": _fidelity((str(sc), 0, c))}]
        else:
            ops, crash = case["workload"], case["crash"]
            fus = case.get("followups", [])
            fu = ([{"e": "Store", "m": m, "n": "f" + m, "d": "dF"} for m in fus] + [{"e": "Log", "g": "gF"}]) if fus and isinstance(fus[0], str) else fus
            if kind == "concurrent" and case["schedule"].get("blocks"):
                sch = case["schedule"]
                x = _job_pair((str(sc), 0, case.get("invariant", "-"), "-", {int(p): o for p, o in sch["ops"].items()}, [tuple(b) for b in sch["blocks"]]))
            elif kind == "concurrent":
                dry = _dry((str(sc), 0, ops))
                x = _job_conc((str(sc), 0, ops, crash["k"], {"events": dry["events"]}, fu, case["schedule"]["second_writer"]))
            elif kind == "design" and case.get("segments", 0) > 1:
                print("a counterexample with several crashes is re-enacted from the TLC trace only: run the check")
                return 2
            else:
                dry = _dry((str(sc), 0, ops))
                var = crash.get("variant", "none")
                k = crash.get("k", len(dry["events"]) + 1) if var != "none" else len(dry["events"]) + 1
                crashed = crash["m"] if crash["op"] == "Store" else None
                x = _job_crash((str(sc), 0, ops, k, var, {"events": dry["events"]}, crash, fu, crashed))
            if "error" in x or "skip" in x:
                print(x)
                return 2
            obs, _ = _observe((x["dir"], x["names"], x["followups"], x["crashed"], False))
            traces = [{"case": case, "events": x["head"] + obs}]
        bads = _validate(traces, v)
        for e in traces[0]["events"]:
            print("  ", json.dumps({k: e[k] for k in e if k not in ("troublesome",)})[:300])
        print("TLC verdict:", json.dumps(bads[0]))
        return 1 if any(b["p"] != "U" for b in bads[0]) else 0
    finally:
        shutil.rmtree(sc, ignore_errors=True)
