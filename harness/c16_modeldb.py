"""C16 - Model database and run context are atomic and faithful, even across crashes.

design layer   spec/modeldb/ModelDB.tla: one action per file-system operation of transaction / store_model /
               store_modelfit_results / commit / store_key / store_annotation / snapshot / log, plus Crash and
               Restart.  TLC checks exhaustively (a) the invariants the protocol as written satisfies and
               (b) - in separate runs - the property layer over the design: the counterexamples it finds
               are *design-level findings* (they never decide the exit code); each is re-enacted on the real
               code by the driver.
property layer spec/modeldb/ModelDBAbs.tla, used by ModelDB.tla and by the trace validator ModelDBTrace.tla.
spec -> code   TLC emits the workloads (<= MaxOps operations over m1,m2 | m3) with the step sequence of every
               operation; the driver enumerates the REAL crash points of each selected workload.
code -> spec   crash injection: the workload runs in a forked child that dies (os._exit(137)) at audited
               file-system operation k (+ torn variants of the file closed last); the parent re-opens the
               tree with fresh objects, retrieves every key and name, stores the other models (also the one
               sharing the dataset), reads log and annotations; TLC validates every observation trace.
drift          audit-hook sequence of each operation vs the step sequence of ModelDB.tla (reported only).
fidelity       names / descriptions / log messages over a TLC-enumerated alphabet of troublesome tokens.
"""
from __future__ import annotations

import json
import os
import random
import re
import shutil
import time

from . import core
from . import c16_real as R

SPEC = core.SPEC / "modeldb"
PROP = "C16"

TIERS = {
    #           design run (no hist)            emit run            props runs             crash budget  fidelity
    "quick": dict(design=dict(MaxOps=3, MaxCrashes=1, Ops="OpsQuick"), emit=dict(MaxOps=3, Ops="OpsQuick"),
                  props=dict(MaxOps=3, MaxCrashes=1, Ops="OpsQuick"), budget=150, sem_dedupe=True,
                  text_len=2, text_budget=36, extra_workloads=0),
    "thorough": dict(design=dict(MaxOps=4, MaxCrashes=2, Ops="OpsQuick"), emit=dict(MaxOps=3, Ops="OpsFull"),
                     props=dict(MaxOps=3, MaxCrashes=1, Ops="OpsQuick"), props2=dict(MaxOps=3, MaxCrashes=2, Ops="OpsQuick"),
                     budget=1200, sem_dedupe=False,
                     text_len=3, text_budget=300, extra_workloads=40, fixed=dict(MaxOps=3, MaxCrashes=2, Ops="OpsQuick")),
}
# invariants of ModelDB.tla expected to FAIL on the protocol as written (design-level findings), property letter
PROP_INVARIANTS = [("InvI", "I"), ("InvIOther", "I"), ("InvD", "D"), ("InvDOther", "D"), ("InvA", "A"),
                   ("InvLog", "L"), ("InvAnn", "L"), ("InvName", "D"), ("InvNameNoCrash", "D")]
HOLDING = ["TypeOK", "PendingGuards", "DatainfoLast", "LocksScoped", "CleanStoreWorks"]
# the protocol with the proposed repairs (proposed_fixes/C16-F1, -F4, -F5): these hold
FIXED_HOLDING = ["TypeOK", "PendingGuards", "LocksScoped", "LogHeaderOK", "InvLogNoTorn", "InvI", "InvDOther", "InvA", "InvAnn"]
ACTIONS = ["InitDirs", "OpenLogHeader", "WriteLogHeader", "InitCommon", "MkKeyDirs", "TouchLock", "LockEx", "TouchPending",
           "ListHashDir", "ReadDatainfo", "MkHashDir", "ScanDatasetNumbers", "TouchIndex", "OpenCsv", "CloseCsv",
           "OpenDatainfo", "CloseDatainfo", "MkModelDir", "OpenModel", "CloseModel", "MkMetaDir", "OpenResults",
           "CloseResults", "UnlinkPending", "Unlock", "SymlinkIfAbsent", "AnnTouchLock", "AnnLockEx", "AnnReadAll",
           "AnnTruncate", "AnnWrite", "RMkKeyDirs", "RTouchLock", "LockSh", "ReadEntry", "LogTouchLock", "LogLockEx",
           "LogOpenAppend", "LogWrite", "Begin", "Crash", "Restart"]


# ----------------------------------------------------------------------------- TLC side


def _cfg(base: str, scratch, name, consts: dict, invariants: list[str]):
    txt = (SPEC / base).read_text()
    for k, v in consts.items():
        if k == "Ops":
            txt = re.sub(r"Ops <- \w+", f"Ops <- {v}", txt)
        else:
            txt = re.sub(rf"{k} = \w+", f"{k} = {v}", txt)
    lines = [ln for ln in txt.splitlines() if not ln.startswith("INVARIANT")]
    i = lines.index("CHECK_DEADLOCK FALSE")
    lines[i:i] = [f"INVARIANT {x}" for x in invariants]
    p = scratch / name
    p.write_text("\n".join(lines) + "\n")
    return p


def _bg(fn, *args):
    """run fn(*args) in a forked helper process (no threads in the driver: it forks children later)"""
    import multiprocessing as mp

    ctx = mp.get_context("fork")
    rx, tx = ctx.Pipe(duplex=False)

    def run():
        try:
            tx.send(("ok", fn(*args)))
        except BaseException as e:  # noqa: BLE001
            tx.send(("err", repr(e)))
        finally:
            tx.close()

    p = ctx.Process(target=run)
    p.start()
    tx.close()

    def wait():
        try:
            st, val = rx.recv()
        except EOFError:
            st, val = "err", "helper process died"
        p.join()
        if st != "ok":
            raise core.MachineryError(f"background TLC helper failed: {val}")
        return val

    return wait


def _run_design(cfg, workers):
    res = core.run_tlc(SPEC / "ModelDB.tla", cfg, workers=workers, timeout=3000)
    res.out = res.out[-4000:]
    return res


def _run_emit(cfg):
    res = core.run_tlc(SPEC / "ModelDB.tla", cfg, workers=4, timeout=3000, coverage=False)
    res.out = res.out[-4000:]
    return res


def _run_text(cfg):
    res = core.run_tlc(SPEC / "ModelDBText.tla", cfg, workers=2, timeout=600, coverage=False)
    res.out = res.out[-4000:]
    return res


def _run_prop(cfg, dump, workers, cfg2=None):
    """one property-layer invariant over the design; if it holds in the first bound, try the larger one (cfg2)"""
    res = core.run_tlc(SPEC / "ModelDB.tla", cfg, workers=workers, timeout=3000, coverage=False,
                       extra=["-dumpTrace", "json", str(dump)])
    if cfg2 is not None and res.error is None and not res.violated:
        first = res
        res = core.run_tlc(SPEC / "ModelDB.tla", cfg2, workers=workers, timeout=3000, coverage=False,
                           extra=["-dumpTrace", "json", str(dump)])
        res.distinct += first.distinct
        res.generated += first.generated
    res.out = res.out[-4000:]
    res.trace = []
    scen = None
    if os.path.exists(dump):
        try:
            scen = _scenario(json.loads(open(dump).read()))
        except Exception as e:  # noqa: BLE001
            scen = {"error": repr(e)}
    return res, scen


def _scenario(dump):
    """counterexample of TLC (-dumpTrace json) -> operations, crash point, follow-up operations"""
    states = [s[1] if isinstance(s, list) else s for s in dump["counterexample"]["state"]]
    ops, crash, prev, ncr = [], None, None, 0
    for st in states:
        cur = st["cur"]
        if prev is not None:
            pcur = prev["cur"]
            if pcur.get("op") == "none" and cur.get("op") not in ("none", "Open"):
                ops.append(_op_from_spec(cur))
            if prev["proc"] == "up" and st["proc"] == "down":
                ncr += 1
                crash = {"op_index": len(ops), "before": prev["pc"], "in": pcur.get("op")}
        prev = st
    last = states[-1]
    return {"ops": ops, "crash": crash, "crashes": ncr, "S": last["S"], "viol": last["viol"], "length": len(states)}


def _op_from_spec(o):
    if o["op"] == "Store":
        return {"e": "Store", "m": o["m"], "n": o["n"], "d": o["d"]}
    if o["op"] == "Retrieve":
        return {"e": "Retrieve", "m": o["m"]}
    if o["op"] == "Log":
        return {"e": "Log", "g": o["g"]}
    raise core.MachineryError(f"unknown spec operation {o}")


# ----------------------------------------------------------------------------- design-layer labels of real events


def label_events(events, opkind):
    """map audited events of ONE operation to the step names of ModelDB.tla (conformance: drift only)"""
    out = []
    seen_pending = False
    for kind, rel, detail in events:
        base = os.path.basename(rel)
        parent = os.path.basename(os.path.dirname(rel))
        lab = "?" + kind + ":" + base
        if "/.modeldb/" not in rel + "/":
            if base in ("", "ctx", "subcontexts", "models") and kind == "os.mkdir":
                lab = "InitDirs"
            elif parent == "models" and kind == "os.symlink":
                lab = "SymlinkIfAbsent"
            elif base == "annotations":
                if kind in ("os.utime",) or (kind == "open" and str(detail).startswith("fd:")):
                    lab = "InitDirs"
                elif kind == "open":
                    lab = "AnnReadAll" if detail == "r" else "AnnTruncate"
                elif kind == "close":
                    lab = "AnnWrite"
            elif base == "annotations.lock":
                lab = "AnnLockEx" if detail == "fd:rw" else "AnnTouchLock"
            elif base == "log.lock":
                lab = "LogLockEx" if detail == "fd:rw" else "LogTouchLock"
            elif base == "log.csv":
                if kind == "open":
                    lab = {"w": "OpenLogHeader", "a": "LogOpenAppend", "r": "ReadLog"}.get(detail, lab)
                elif kind == "close":
                    lab = "WriteLogHeader" if opkind == "Open" else "LogWrite"
            elif base == "common_options":
                lab = "InitCommon"
        else:
            if base == ".modeldb":
                lab = "InitDirs"
            elif base == ".lock":
                if detail == "fd:rw":
                    lab = "LockSh" if opkind in ("Retrieve", "RetrieveName", "ResolveName") else "LockEx"
                else:
                    lab = "RTouchLock" if opkind in ("Retrieve", "RetrieveName", "ResolveName") else "TouchLock"
            elif base == "PENDING":
                lab = "UnlinkPending" if kind == "os.remove" else "TouchPending"
                seen_pending = True
            elif "/.datasets" in rel:
                if kind == "os.mkdir":
                    lab = "MkHashDir"
                elif kind in ("os.listdir", "os.scandir"):
                    lab = "ScanDatasetNumbers" if base == ".datasets" else "ListHashDir"
                elif "/.hash/" in rel:
                    lab = "TouchIndex"
                elif base.endswith(".csv"):
                    lab = {"open": "OpenCsv" if detail == "w" else "ReadEntry", "close": "CloseCsv"}.get(kind, lab)
                elif base.endswith(".datainfo"):
                    if kind == "close":
                        lab = "CloseDatainfo"
                    elif detail == "w":
                        lab = "OpenDatainfo"
                    else:
                        lab = "ReadDatainfo" if opkind == "Store" else "ReadEntry"
            elif base.startswith("model."):
                lab = {"open": "OpenModel" if detail == "w" else "ReadEntry", "close": "CloseModel"}.get(kind, lab)
            elif base == "results.json":
                lab = {"open": "OpenResults" if detail == "w" else "ReadEntry", "close": "CloseResults"}.get(kind, lab)
            elif kind == "os.mkdir":
                if not seen_pending:
                    lab = "RMkKeyDirs" if opkind in ("Retrieve", "RetrieveName", "ResolveName") else "MkKeyDirs"
                else:
                    lab = "MkMetaDir" if base == ".pharmpy" else "MkModelDir"
        out.append(lab)
    return out


def _collapse(labels):
    out = []
    for x in labels:
        if not out or out[-1] != x:
            out.append(x)
    return out


SILENT = {"Unlock", "SymlinkIfAbsent", "ReadEntry"}  # steps without an audit event of their own / optional


def _window(before, after, mid):
    if before in ("InitDirs", "OpenLogHeader", "WriteLogHeader", "InitCommon"):
        return "Open"
    if before in ("ScanDatasetNumbers", "TouchIndex", "OpenCsv", "CloseCsv", "OpenDatainfo", "CloseDatainfo") or (before == "MkHashDir" and mid):
        return "DatasetStore"
    if before in ("MkKeyDirs", "TouchLock", "LockEx", "TouchPending", "MkHashDir"):
        return "Begin"
    if before in ("ListHashDir", "ReadDatainfo"):
        return "DatasetReuse"
    if before in ("MkModelDir", "OpenModel", "CloseModel"):
        return "ModelFile"
    if before in ("MkMetaDir", "OpenResults", "CloseResults"):
        return "Results"
    if before == "UnlinkPending":
        return "Commit"
    if before in ("SymlinkIfAbsent", "AnnTouchLock", "AnnLockEx", "AnnReadAll", "AnnTruncate", "AnnWrite"):
        return "NameAndAnnotation"
    if before.startswith("Log"):
        return "Log"
    if before in ("RMkKeyDirs", "RTouchLock", "LockSh", "ReadEntry"):
        return "Read"
    if before == "End":
        return {"CloseCsv": "DatasetStore", "CloseDatainfo": "DatasetStore", "CloseModel": "ModelFile", "CloseResults": "Results",
                "AnnWrite": "NameAndAnnotation", "LogWrite": "Log", "InitCommon": "Open", "WriteLogHeader": "Open"}.get(after, "End")
    return "Other"


# ----------------------------------------------------------------------------- crash injection on the real code


def _dry(arg):
    """run a workload without crash in a child; returns per-op audited events + outcomes"""
    base, wid, ops = arg
    d = os.path.join(base, f"dry{wid}")
    os.makedirs(d)
    code, recs = R.run_child(os.path.join(d, "root"), ops, None, os.path.join(d, "status"))
    shutil.rmtree(d, ignore_errors=True)
    if code != 0 or not recs or "events" not in recs[-1]:
        return {"wid": wid, "error": f"dry run failed (exit {code})"}
    events = recs[-1]["events"]
    bounds, evs = {}, {}
    for r in recs[:-1]:
        if r["ph"] == "b":
            bounds[r["i"]] = [r["n"], None]
        else:
            bounds[r["i"]][1] = r["n"]
            evs[r["i"]] = r["ev"]
    labels = []
    for i in sorted(bounds):
        a, b = bounds[i]
        kind = "Open" if i == 0 else ops[i - 1]["e"]
        labels += label_events(events[a:b], kind)
    return {"wid": wid, "events": events, "labels": labels, "bounds": bounds, "evs": evs}


def _crash_info(ops, dry, k, variant):
    """describe the crash point in spec terms.  kill: the process dies BEFORE audited event k (1-based).
    torn (t0/thalf): it dies while event k-1 - the close of a written file - flushes: only part of the data arrives."""
    labels, events, bounds = dry["labels"], dry["events"], dry["bounds"]
    owner = k if variant == "kill" else k - 1  # the event that did not (fully) happen
    opi = None
    for i, (a, b) in sorted(bounds.items()):
        if a < owner <= b:
            opi = i
    if opi is None:
        raise core.MachineryError(f"crash point {k} outside the operations {bounds}")
    a, b = bounds[opi]
    before = labels[owner - 1]
    j = owner - 2  # index of the last event before `owner`
    mid = False
    while j >= a and labels[j] == before:
        j -= 1
        mid = True
    after = labels[j] if j >= a else "Begin"
    if variant != "kill":
        mid = True  # the step `before` (a Close*/Write step) happened partially
    op = {"e": "Open"} if opi == 0 else ops[opi - 1]
    committed_before = {o["m"] for o in ops[: max(opi - 1, 0)] if o["e"] == "Store"}
    info = {"k": k, "variant": variant, "op_index": opi, "op": op["e"], "m": op.get("m", "none"), "n": op.get("n", "none"),
            "before": before, "after": after, "mid": mid, "window": _window(before, after, mid),
            "restore": op["e"] == "Store" and op.get("m") in committed_before}
    if variant != "kill":
        info["torn_file"] = os.path.basename(events[k - 2][1])
    return info


def _followups(ops, crash, rng):
    """store each model whose store was not the interrupted one: the one with the other dataset and the one sharing it"""
    crashed = crash["m"] if crash["op"] == "Store" else None
    others = [m for m in ("m1", "m2", "m3") if m != crashed]
    rng.shuffle(others)
    fu = [{"e": "Store", "m": m, "n": "f" + m, "d": "dF"} for m in others]
    fu.append({"e": "Log", "g": "gF"})
    return fu, crashed


def _inject(arg):
    """one crash point: child dies at event k (+ torn variant); returns digest + info needed for the observation"""
    base, cid, ops, k, variant, size0_rel, n_total = arg
    d = os.path.join(base, f"c{cid}")
    os.makedirs(d)
    root = os.path.join(d, "root")
    code, recs = R.run_child(root, ops, k if k <= n_total else None, os.path.join(d, "status"))
    if code != (137 if k <= n_total else 0):
        return {"cid": cid, "error": f"child exited {code} instead of dying at event {k}"}
    if variant in ("t0", "thalf"):
        rel, size0 = size0_rel
        R.tear(root, rel, size0, variant)
    pre = [r["ev"] for r in recs if r.get("ph") == "e"]
    began = max((r["i"] for r in recs if r.get("ph") == "b"), default=0)
    return {"cid": cid, "dir": d, "pre": pre, "began": began, "digest": R.tree_digest(root), "sem": _sem_digest(root)}


def _sem_digest(root):
    """digest ignoring lock files and empty directories (quick tier de-duplication of equivalent post-crash trees)"""
    import hashlib

    h = hashlib.sha256()
    for dp, dn, fn in os.walk(root):
        dn.sort()
        rel = os.path.relpath(dp, root)
        for f in sorted(fn) + [x for x in dn if os.path.islink(os.path.join(dp, x))]:
            p = os.path.join(dp, f)
            if f.endswith(".lock") or f == "common_options":
                continue
            if os.path.islink(p):
                h.update(b"L" + rel.encode() + b"/" + f.encode() + b">" + os.readlink(p).encode() + b"\0")
                continue
            with R.A._real_open(p, "rb") as fh:
                data = fh.read()
            if f == "log.csv":
                data = R._TS.sub(b"T", data)
            h.update(b"F" + rel.encode() + b"/" + f.encode() + b"\0" + hashlib.sha256(data).digest())
    return h.hexdigest()


def _observe(arg):
    d, names, followups, crashed, keep = arg
    t0 = time.time()
    evs = R.observe(os.path.join(d, "root"), names, followups, crashed)
    if not keep:
        shutil.rmtree(d, ignore_errors=True)
    return evs, time.time() - t0


def _names_of(ops):
    out = []
    for o in ops:
        if o["e"] == "Store" and o["n"] not in out:
            out.append(o["n"])
    return out


def _trace_events(ops, crash, pre, obs):
    """workload outcomes before the crash + the interrupted operation + Crash + observation events (shape of ModelDBTrace.tla)"""
    evs = []
    opi = crash["op_index"] if crash is not None else len(ops) + 1
    done = -1
    for ev in pre:
        done += 1  # pre[0] is Open, pre[i] operation i
        if done >= opi and crash is not None:
            break  # torn variant: the operation whose last write is torn did not return
        e = dict(ev)
        e["phase"] = "pre"
        evs.append(e)
    if crash is not None:
        if opi >= 1 and ops[opi - 1]["e"] in ("Store", "Log"):
            e = dict(ops[opi - 1])
            e["out"] = "crash"
            e["phase"] = "pre"
            evs.append(e)
        evs.append({"e": "Crash", "phase": "crash"})
    evs += obs
    for e in evs:
        if e["e"] == "Store":
            e.setdefault("troublesome", False)
    return evs


# ----------------------------------------------------------------------------- fidelity over inputs


def _fidelity(arg):
    """one TLC-enumerated text through one of the three places a caller's text goes: fresh context per case"""
    base, idx, case = arg
    d = os.path.join(base, f"f{idx}")
    os.makedirs(d)
    kind, text = case["kind"], list(case["text"])
    evs = []
    try:
        ctx = R.open_ctx(d)
        A_ = ["A"]
        if kind == "log":
            if case["variant"] == "after":
                evs.append(R.do_op(ctx, {"e": "Log", "g": A_}, tok=True))
            evs.append(R.do_op(ctx, {"e": "Log", "g": text}, tok=True))
            evs.append(R.do_op(R.open_ctx(d), {"e": "ReadLog"}, tok=True))
        else:
            n, dd = (text, A_) if kind == "name" else (A_, text)
            evs.append(R.do_op(ctx, {"e": "Store", "m": "m1", "n": n, "d": dd}, tok=True, fresh=idx + 1))
            ctx2 = R.open_ctx(d)
            evs.append(R.do_op(ctx2, {"e": "ResolveName", "n": n}, tok=True))
            evs.append(R.do_op(ctx2, {"e": "ReadAnn", "n": n}, tok=True))
            evs.append(R.do_op(ctx2, {"e": "RetrieveName", "n": n}, tok=True))
    except BaseException as e:  # noqa: BLE001
        evs.append({"e": "Reopen", "out": R.outcome_of(e), "detail": R._detail(e)})
    shutil.rmtree(d, ignore_errors=True)
    for e in evs:
        e["phase"] = "fidelity"
    return evs


# ----------------------------------------------------------------------------- trace validation by TLC


def _validate(traces, v: core.Verdict):
    """traces: list of {"case": record, "events": [...]}; returns per-trace list of bads from TLC"""
    if not traces:
        return []
    d = core.scratch("c16tr")
    f = d / "traces.json"
    f.write_text(json.dumps([{"events": t["events"]} for t in traces]))
    res = core.run_tlc(SPEC / "ModelDBTrace.tla", SPEC / "ModelDBTrace.cfg", workers=1, timeout=3000, env={"TRACES": str(f)}, coverage=False)
    shutil.rmtree(d, ignore_errors=True)
    core.require_ok(res, "ModelDBTrace.tla")
    if res.violated:
        raise core.MachineryError(f"ModelDBTrace: unexpected {res.violated}\n" + "\n".join(res.trace[-2:])[:2000])
    verdicts = {x["tid"]: x["bads"] for tag, x in res.prints if tag == "VERDICT"}
    missing = [i for i in range(1, len(traces) + 1) if i not in verdicts]
    if missing:
        raise core.MachineryError(f"ModelDBTrace: {len(missing)} traces were not consumed to the end (first: {missing[0]}: "
                                  f"{json.dumps(traces[missing[0] - 1]['events'])[:600]})")
    v.add_coverage(states=res.distinct, transitions=res.generated)
    return [verdicts[i] if isinstance(verdicts[i], list) else [] for i in range(1, len(traces) + 1)]


def _outcome(ev, bad):
    """name of what was observed (part of every known-finding key)"""
    if ev["out"] != "ok":
        return ev["out"]
    exp = bad.get("exp")
    e = ev["e"]
    if e in ("Retrieve", "RetrieveName"):
        c = ev["c"]
        cands = []
        if isinstance(exp, dict):
            cands = [dict(exp)]
        elif isinstance(exp, list):
            for x in exp:  # candidates <<model, descr>>
                m = x[0]
                cands.append({"model": R.PARAM_OF.get(m), "data": R.DATA_OF.get(m), "hash": m, "res": m, "name": ev.get("n"), "desc": x[1]})
        best = None
        for cand in cands:
            diff = sorted(k for k, val in cand.items() if c.get(k) != val)
            if best is None or len(diff) < len(best):
                best = diff
        if best is None:
            return "unexpected_entry"
        if "model" in best:
            return "mismatch:other_model"      # the entry of a different model
        if "data" in best:
            # the right model bound to the dataset of another model / to something that is no stored dataset at all
            return "mismatch:other_dataset" if c.get("data") in ("d1", "d2") else "mismatch:corrupt_dataset"
        if "hash" in best:
            return "mismatch:hash"
        if "res" in best:
            return "mismatch:results"
        return "mismatch:" + ",".join(best)   # name / desc
    if e == "ResolveName":
        return "mismatch:key"
    if e == "ReadAnn":
        return "mismatch:desc"
    if e == "ReadLog":
        return "mismatch:lines"
    return "ok"


LETTER = {"A": "no partial visibility", "D": "durability/fidelity of a committed entry", "I": "isolation of failures",
          "L": "log / annotations", "U": "unspecified"}


def _report(traces, bads_per_trace, v: core.Verdict, counts):
    for t, bads in zip(traces, bads_per_trace):
        case = t["case"]
        for bad in bads:
            ev = t["events"][bad["l"] - 1]
            if bad["p"] == "U":
                counts["unspecified"] += 1
                continue
            crashed = case.get("crash", {}).get("m")
            target = ev.get("m")
            if target is None and ev["e"] in ("ResolveName", "RetrieveName", "ReadAnn") and isinstance(bad.get("exp"), list):
                ms = sorted({x[0] for x in bad["exp"]})
                target = ms[-1] if ms else None
            nm = ev.get("n")
            stored_as = {o["m"] for o in case.get("workload", []) if o["e"] == "Store" and o.get("n") == nm} if isinstance(nm, str) else set()
            fu = {"op": ev["e"], "phase": ev.get("phase"), "m": target or "none", "n": ev.get("n", "none") if not isinstance(ev.get("n"), list) else "text",
                  "name_rebound": len(stored_as) > 1,
                  "is_crashed_model": bool(crashed and target == crashed),
                  "shares_dataset": bool(crashed and target and target != crashed and R.DATA_OF.get(target) == R.DATA_OF.get(crashed))}
            rec = dict(case)
            rec["followup"] = fu
            rec["prop"] = bad["p"]
            rec["outcome"] = _outcome(ev, bad)
            rec["observed"] = {k: ev[k] for k in ("out", "c", "key", "d", "lines", "detail", "stage") if k in ev}
            rec["expected"] = bad.get("exp")
            what = (f"({bad['p']}: {LETTER.get(bad['p'], '?')}) {ev['e']} "
                    f"{ev.get('m') or ev.get('n') or ''} -> {rec['outcome']}"
                    + (f" [{ev['detail'].get('where')}: {ev['detail'].get('msg', '')[:80]}]" if "detail" in ev else "")
                    + f" after {json.dumps(case.get('crash', case.get('text', '')))[:200]}")
            st = v.violation(rec, what)
            counts[st] = counts.get(st, 0) + 1
            if st == "new":
                # keep the full trace next to the replay record
                rec["trace"] = t["events"]


# ----------------------------------------------------------------------------- main


def _select_workloads(cases, tier, rng, extra):
    """one representative workload per signature of its LAST operation (its step sequence in the design + the
    context it runs in); crash points are enumerated inside the last operation only - a crash inside an
    earlier operation is the crash of a prefix workload, and all prefixes are workloads themselves."""
    by_sig = {}
    for c in cases:
        h = c["hist"][1:]  # drop Open
        if not h:
            continue
        last = h[-1]
        before = h[:-1]
        names_before = {x["op"]["n"] for x in before if x["op"]["op"] == "Store"}
        stored_before = {x["op"]["m"] for x in before if x["op"]["op"] == "Store"}
        is_store = last["op"]["op"] == "Store"
        new_data = is_store and "MkHashDir" in last["steps"]
        sig = (tuple(last["steps"]), last["out"],
               # the name is already bound (store_key keeps the old link; the annotation line is replaced)
               last["op"].get("n") in names_before if is_store else None,
               # a new dataset next to a committed model with another dataset (dataset numbers > 1)
               bool({R.DATA_OF[m] for m in stored_before} - {R.DATA_OF.get(last["op"].get("m"))}) if new_data else None)
        if tier != "quick":
            sig += (bool(names_before), any(x["op"]["op"] == "Log" for x in before),
                    bool({R.DATA_OF[m] for m in stored_before} - {R.DATA_OF.get(last["op"].get("m"))}) if is_store else None)
        by_sig.setdefault(sig, []).append(c)
    chosen = []
    for sig in sorted(by_sig, key=repr):
        group = sorted(by_sig[sig], key=lambda c: (len(c["hist"]), json.dumps(c["hist"], sort_keys=True)))
        shortest = [c for c in group if len(c["hist"]) == len(group[0]["hist"])]
        chosen.append(rng.choice(shortest))
    rest = [c for c in cases if len(c["hist"]) > 1 and c not in chosen]
    rng.shuffle(rest)
    chosen += rest[:extra]
    return chosen, len(by_sig)


def _ops_of_case(c):
    return [_op_from_spec(x["op"]) for x in c["hist"][1:]]


def main(tier: str, seed: int) -> int:
    t_start = time.time()
    T = TIERS[tier]
    v = core.Verdict(PROP, tier, seed)
    v.assumptions = [
        "crash model = process death (os._exit from an audit hook, before the k-th audited file-system operation) with a torn final write "
        "(file closed last truncated to nothing / half of what was written); no power-loss reordering, no fsync semantics",
        "one writer process at a time (the exclusion of concurrent processes is C15's subject)",
        "models: pheno_real (m1), m1 with another initial estimate (m2, same dataset), m1 with one changed data value (m3, other dataset, same columns)",
    ]
    rng = random.Random(seed)
    sc = core.scratch("c16")
    counts = {"unspecified": 0, "new": 0, "known": 0, "dup": 0}
    try:
        # ---- TLC: design exhaustive (background), emit workloads, property-layer runs, texts
        w_design = _bg(_run_design, _cfg("ModelDB.cfg", sc, "design.cfg", T["design"], HOLDING), 8 if tier == "quick" else 16)
        w_emit = _bg(_run_emit, _cfg("ModelDBEmit.cfg", sc, "emit.cfg", T["emit"], ["TypeOK", "EmitCase"]))
        tcfg = sc / "text.cfg"
        tcfg.write_text((SPEC / "ModelDBText.cfg").read_text().replace("MaxLen = 2", f"MaxLen = {T['text_len']}"))
        w_text = _bg(_run_text, tcfg)
        w_fixed = None
        if T.get("fixed"):
            w_fixed = _bg(_run_design, _cfg("ModelDBFixed.cfg", sc, "fixed.cfg", T["fixed"], FIXED_HOLDING), 8)

        core.use_repo()
        import pharmpy.modeling  # noqa: F401
        import pharmpy.workflows  # noqa: F401  (import before forking)

        R.world(core.REPO)
        emit = w_emit()
        core.require_ok(emit, "ModelDB.tla (emit)")
        if emit.violated:
            raise core.MachineryError(f"ModelDB.tla emit run: {emit.violated} violated")
        cases = [c for tag, c in emit.prints if tag == "CASE"]
        if len(cases) < 10:
            raise core.MachineryError("ModelDB.tla emitted too few workloads")
        core.tlc_stats_into(v, emit)
        # property-layer runs start now (they overlap with the dry runs / crash injection)
        w_props = []
        for inv, letter in PROP_INVARIANTS:
            cfgp = _cfg("ModelDB.cfg", sc, f"prop_{inv}.cfg", T["props"], [inv])
            cfgp2 = _cfg("ModelDB.cfg", sc, f"prop2_{inv}.cfg", T["props2"], [inv]) if T.get("props2") else None
            w_props.append((inv, letter, _bg(_run_prop, cfgp, sc / f"trace_{inv}.json", 2 if tier == "quick" else 4, cfgp2)))

        chosen, nsig = _select_workloads(cases, tier, rng, T["extra_workloads"])
        workloads = [_ops_of_case(c) for c in chosen]
        base = str(sc)
        dries = core.pmap(_dry, [(base, i, ops) for i, ops in enumerate(workloads)], procs=16)
        bad = [d for d in dries if "error" in d]
        if bad:
            raise core.MachineryError(f"dry runs failed: {bad[0]}")

        # ---- (b) operation-order conformance (drift only)
        drift = []
        conf_ok = 0
        for c, ops, dry in zip(chosen, workloads, dries):
            for i, h in enumerate(c["hist"]):
                a, b = dry["bounds"][i]
                real = [x for x in _collapse(dry["labels"][a:b]) if x not in SILENT]
                spec = [x for x in _collapse(h["steps"]) if x not in SILENT]
                real_out = dry["evs"][i]["out"]
                if real == spec and real_out == h["out"]:
                    conf_ok += 1
                elif len(drift) < 10:
                    drift.append({"op": h["op"], "spec": spec, "real": real, "spec_out": h["out"], "real_out": real_out})
        if drift:
            v.notes.append(f"drift: {len(drift)} operation(s) whose audited file-system sequence differs from ModelDB.tla, first: {json.dumps(drift[0])[:500]}")

        # ---- (a) crash points: inside the last operation of each workload (and inside Open for the first)
        points = []
        for wid, (ops, dry) in enumerate(zip(workloads, dries)):
            n = len(dry["events"])
            a, b = dry["bounds"][len(ops)]
            lo = 1 if wid == 0 else a + 1
            for k in range(lo, b + 2):  # b+1 = after the last event of the operation (only useful for torn variants)
                if k <= b:
                    points.append((wid, k, "kill", None))
                prev = dry["events"][k - 2] if k >= 2 else None
                if prev is not None and prev[0] == "close" and k - 1 > (0 if wid == 0 else a):
                    for var in ("t0", "thalf"):
                        points.append((wid, k, var, (prev[1], prev[2])))
            assert n >= b
            points.append((wid, n + 1, "none", None))  # the workload runs to its end: happy-path observation
        total_points = len(points)
        # design-level counterexamples re-enacted on the real code
        scen_runs = []
        design_findings = []
        for inv, letter, wait in w_props:
            res, scen = wait()
            core.require_ok(res, f"ModelDB.tla property run {inv}")
            entry = {"invariant": inv, "property": letter, "violated": bool(res.violated), "states": res.distinct, "wall_s": round(res.wall, 1)}
            if res.violated and res.violated != inv:
                raise core.MachineryError(f"property run {inv}: unexpected violation of {res.violated}")
            if res.violated and scen and "error" not in scen:
                entry["scenario"] = {"ops": scen["ops"], "crash": scen["crash"], "crashes": scen["crashes"], "trace_length": scen["length"]}
                simple = scen["crashes"] == 0 or (scen["crashes"] == 1 and not (scen["crash"]["in"] == "Open" and scen["crash"]["op_index"] > 0))
                if simple:
                    scen_runs.append((inv, letter, scen))
                else:
                    entry["reproduced_on_real_code"] = "not re-enacted (more than one crash in the counterexample)"
            design_findings.append(entry)
            v.add_coverage(states=res.distinct, transitions=res.generated)

        inj_args = [(base, cid, workloads[wid], k, var, sz, len(dries[wid]["events"])) for cid, (wid, k, var, sz) in enumerate(points)]
        t0 = time.time()
        injected = core.pmap(_inject, inj_args, procs=16, chunk=2)
        t_inject = time.time() - t0
        bad = [x for x in injected if "error" in x]
        if bad:
            raise core.MachineryError(f"crash injection failed: {bad[0]['error']}")

        # scenario runs: crash inside an EARLIER operation of the counterexample, remaining operations are the follow-ups
        scen_jobs = []
        for inv, letter, scen in scen_runs:
            ops = scen["ops"]
            cr = scen["crash"]
            if cr is None:
                scen_jobs.append((inv, letter, ops, None, None, []))
                continue
            prefix = ops[: cr["op_index"]]
            scen_jobs.append((inv, letter, prefix, cr, ops[cr["op_index"]:], None))
        sdries = core.pmap(_dry, [(base, 1000 + i, j[2]) for i, j in enumerate(scen_jobs)], procs=16)
        sinj = []
        for i, (job, dry) in enumerate(zip(scen_jobs, sdries)):
            inv, letter, prefix, cr, rest, _ = job
            if "error" in dry:
                raise core.MachineryError(f"scenario dry run failed: {dry}")
            if cr is None:
                sinj.append(None)
                continue
            a, b = dry["bounds"][cr["op_index"]]
            ks = [k for k in range(a + 1, b + 1) if dry["labels"][k - 1] == cr["before"]]
            if not ks:
                v.notes.append(f"drift: design counterexample of {inv} crashes before {cr['before']}, a step the real operation does not perform")
                sinj.append(None)
                continue
            sinj.append((base, 2000 + i, prefix, ks[0], "kill", None, len(dry["events"])))
        sres = core.pmap(_inject, [x for x in sinj if x is not None], procs=16)
        sres_it = iter(sres)

        # ---- observations (deduplicated by post-crash tree; above the tier budget: sampled by seed, one of each kind first)
        obs_jobs, job_of, traces = [], {}, []
        dkey = "sem" if T["sem_dedupe"] else "digest"
        cand, groups = [], {}
        for (wid, k, var, sz), inj in zip(points, injected):
            ops, dry = workloads[wid], dries[wid]
            if var == "none":
                crash = {"k": k, "variant": "none", "op_index": len(ops) + 1, "op": "none", "m": "none", "n": "none", "before": "End",
                         "after": "End", "mid": False, "window": "none", "restore": False}
            else:
                crash = _crash_info(ops, dry, k, var)
            # the order of the follow-up stores (sharing model first / other dataset first) varies with seed, workload, window
            fu, crashed = _followups(ops, crash, random.Random(f"{seed}/{wid}/{crash['window']}/{crash['variant']}"))
            key = (wid, inj[dkey], json.dumps(fu), crashed, crash["op_index"])
            cand.append((key, wid, crash, fu, crashed, inj))
            groups.setdefault(key, []).append(len(cand) - 1)
        keys = list(groups)
        if len(keys) > T["budget"]:
            random.Random(seed + 17).shuffle(keys)
            seen, first, later = set(), [], []
            for key in keys:
                c = cand[groups[key][0]][2]
                kind = (c["op"], c["before"], c["variant"], c["restore"], c["window"])
                (later if kind in seen else first).append(key)
                seen.add(kind)
            keys = (first + later)[: max(T["budget"], len(first))]
        keep = set(keys)
        for key, wid, crash, fu, crashed, inj in cand:
            ops = workloads[wid]
            if key not in keep:
                shutil.rmtree(inj["dir"], ignore_errors=True)
                continue
            if key in job_of:
                shutil.rmtree(inj["dir"], ignore_errors=True)
            else:
                job_of[key] = len(obs_jobs)
                obs_jobs.append((inj["dir"], _names_of(ops), fu, crashed, False))
            traces.append({"case": {"kind": "crash", "workload": ops, "crash": crash, "followups": [o["m"] for o in fu if o["e"] == "Store"]},
                           "pre": inj["pre"], "job": job_of[key], "ops": ops})
        states_total = len(groups)
        n_crash_traces = len(traces)
        for i, (job, dry, sj) in enumerate(zip(scen_jobs, sdries, sinj)):
            inv, letter, prefix, cr, rest, _ = job
            if cr is None:
                # no crash in the counterexample: run the operations, then look
                d = os.path.join(base, f"s{i}")
                os.makedirs(d)
                code, recs = R.run_child(os.path.join(d, "root"), prefix, None, os.path.join(d, "status"))
                pre = [r["ev"] for r in recs if r.get("ph") == "e"]
                obs_jobs.append((d, _names_of(prefix), [], None, False))
                traces.append({"case": {"kind": "design", "invariant": inv, "workload": prefix, "crash": {"variant": "none", "window": "none", "op": "none", "m": "none", "restore": False}},
                               "pre": pre, "job": len(obs_jobs) - 1, "ops": prefix, "predicted": letter})
                continue
            if sj is None:
                continue
            inj = next(sres_it)
            if "error" in inj:
                raise core.MachineryError(f"scenario crash injection failed: {inj['error']}")
            crash = _crash_info(prefix, dry, sj[3], "kill")
            obs_jobs.append((inj["dir"], _names_of(prefix + rest), rest, crash["m"] if crash["op"] == "Store" else None, False))
            traces.append({"case": {"kind": "design", "invariant": inv, "workload": prefix, "crash": crash, "followups": rest},
                           "pre": inj["pre"], "job": len(obs_jobs) - 1, "ops": prefix, "predicted": letter})

        t0 = time.time()
        obs = core.pmap(_observe, obs_jobs, procs=16, chunk=1)
        t_observe = time.time() - t0
        for t in traces:
            t["events"] = _trace_events(t["ops"], t["case"]["crash"] if t["case"]["crash"].get("variant") != "none" else None, t["pre"], [dict(e) for e in obs[t["job"]][0]])

        # ---- (c) fidelity over inputs
        text = w_text()
        core.require_ok(text, "ModelDBText.tla")
        texts = [c for tag, c in text.prints if tag == "TEXT"]
        core.tlc_stats_into(v, text)
        unspecified_texts = sum(1 for c in texts if not c["specified"])
        fcases = []
        for c in texts:
            if not c["specified"]:
                continue
            if c["kind"] == "log":
                fcases.append(dict(c, variant="alone"))
                fcases.append(dict(c, variant="after"))
            else:
                fcases.append(dict(c, variant="store"))
        cheap = [c for c in fcases if c["kind"] == "log"]
        costly = [c for c in fcases if c["kind"] != "log"]
        short = [c for c in costly if len(c["text"]) <= 1]
        longer = [c for c in costly if len(c["text"]) > 1]
        rng.shuffle(longer)
        if len(cheap) > 20 * T["text_budget"]:
            rng.shuffle(cheap)
            cheap = cheap[: 20 * T["text_budget"]]
        fsel = cheap + short + longer[: T["text_budget"]]
        t0 = time.time()
        fres = core.pmap(_fidelity, [(base, i, c) for i, c in enumerate(fsel)], procs=16, chunk=4)
        t_fid = time.time() - t0
        for c, evs in zip(fsel, fres):
            traces.append({"case": {"kind": "fidelity." + c["kind"], "text": c["text"], "features": c["features"], "variant": c["variant"]}, "events": evs})

        # ---- TLC validates every trace against the property layer
        t0 = time.time()
        bads = _validate(traces, v)
        t_validate = time.time() - t0
        _report(traces, bads, v, counts)

        # design findings: reproduced on the real code?
        for t, b in zip(traces, bads):
            if t["case"]["kind"] == "design":
                got = sorted({x["p"] for x in b if x["p"] != "U"})
                for e in design_findings:
                    if e["invariant"] == t["case"]["invariant"]:
                        e["real_code_letters"] = got
                        e["reproduced_on_real_code"] = t["predicted"] in got
                        if not e["reproduced_on_real_code"]:
                            v.notes.append(f"drift: the design-level counterexample of {e['invariant']} does not show on the real code (observed letters {got})")

        design = w_design()
        core.require_ok(design, "ModelDB.tla (design, exhaustive)")
        if design.violated:
            raise core.MachineryError(f"ModelDB.tla: design-level invariant {design.violated} violated:\n" + "\n".join(design.trace[-2:])[:1500])
        core.require_actions(design, ACTIONS, "ModelDB.tla")
        core.tlc_stats_into(v, design)

        if w_fixed is not None:
            fixed = w_fixed()
            core.require_ok(fixed, "ModelDB.tla (repaired protocol)")
            v.add_coverage(states=fixed.distinct, transitions=fixed.generated,
                           repaired_protocol={"fix": ["IndexLast", "AtomicAnn", "LogHeader"], "invariants": FIXED_HOLDING, "constants": T["fixed"],
                                              "states": fixed.distinct, "holds": fixed.violated is None, "violated": fixed.violated})
            if fixed.violated:
                v.notes.append(f"design: the repaired protocol violates {fixed.violated} (proposed fix is incomplete)")
        nontrivial = sum(1 for t in traces[:n_crash_traces] if t["case"]["crash"]["window"] not in ("Open", "Begin", "Read", "End"))
        sample = []
        for t in traces[:n_crash_traces][:: max(1, n_crash_traces // 4)][:4]:
            sample.append({"workload": t["case"]["workload"], "crash": t["case"]["crash"], "events": [{k: e[k] for k in ("e", "m", "n", "out") if k in e} for e in t["events"]][:14]})
        v.add_coverage(
            design_states=design.distinct, design_transitions=design.generated, design_depth=design.depth, design_wall_s=round(design.wall, 1),
            design_constants=T["design"], design_invariants_holding=HOLDING,
            design_findings=design_findings,
            workloads_emitted_by_tlc=len(cases), workload_signatures=nsig, workloads_run=len(workloads),
            conformance_ops_equal=conf_ok, conformance_ops_drift=len(drift),
            crash_points_total=total_points, crash_points_injected=len(points), distinct_post_crash_states=states_total,
            distinct_post_crash_states_observed=len(obs_jobs), dedupe="semantic (lock files, empty directories ignored)" if T["sem_dedupe"] else "exact tree digest",
            evaluations=len(traces), distinct_nontrivial=nontrivial,
            traces_validated_against_impl=len(traces),
            fidelity_cases=len(fsel), fidelity_texts_enumerated=len(texts), texts_unspecified=unspecified_texts,
            outcomes_unspecified=counts["unspecified"], violations_known=counts.get("known", 0),
            timings_s={"inject": round(t_inject, 1), "observe": round(t_observe, 1), "fidelity": round(t_fid, 1), "validate": round(t_validate, 1),
                       "observe_mean_per_state": round(sum(o[1] for o in obs) / max(1, len(obs)), 2)},
            rule="every workload TLC reaches (<= MaxOps operations) is a case; one representative per signature of the last operation; every audited "
                 "file-system operation of that operation is a crash point (plus torn variants after each close); non-trivial = crash inside the "
                 "dataset / model file / results / commit / name+annotation / log windows; sampled by VERIF_SEED above the tier budget",
            samples=sample,
            exhaustive=len(keep) >= states_total,
        )
    finally:
        shutil.rmtree(sc, ignore_errors=True)
    v.add_coverage(total_wall_s=round(time.time() - t_start, 1))
    return v.finish(min_traces=40 if tier == "quick" else 400)


def replay(path: str) -> int:
    """re-run the crash point / fidelity case of a replay file on the real code and print the observation trace"""
    core.use_repo()
    import pharmpy.modeling  # noqa: F401
    import pharmpy.workflows  # noqa: F401

    R.world(core.REPO)
    data = json.loads(open(path).read())
    case = data["case"]
    print(json.dumps({k: case[k] for k in case if k not in ("trace",)}, indent=1)[:3000])
    sc = core.scratch("c16rp")
    v = core.Verdict(PROP, "replay", 0)
    try:
        if case["kind"].startswith("fidelity"):
            c = {"kind": case["kind"].split(".")[1], "text": case["text"], "variant": case["variant"]}
            evs = _fidelity((str(sc), 0, c))
            traces = [{"case": case, "events": evs}]
        else:
            ops = case["workload"]
            dry = _dry((str(sc), 0, ops))
            crash = case["crash"]
            if crash.get("variant", "none") == "none":
                d = os.path.join(str(sc), "s")
                os.makedirs(d)
                code, recs = R.run_child(os.path.join(d, "root"), ops, None, os.path.join(d, "status"))
                pre = [r["ev"] for r in recs if r.get("ph") == "e"]
                obs, _ = _observe((d, _names_of(ops), [], None, False))
                evs = _trace_events(ops, None, pre, obs)
            else:
                k, var = crash["k"], crash["variant"]
                prev = dry["events"][k - 2] if k >= 2 else None
                inj = _inject((str(sc), 1, ops, k, var, (prev[1], prev[2]) if var != "kill" else None, len(dry["events"])))
                fus = case.get("followups", [])
                fu = [{"e": "Store", "m": m, "n": "f" + m, "d": "dF"} for m in fus] + [{"e": "Log", "g": "gF"}] if fus and isinstance(fus[0], str) else fus
                crashed = crash["m"] if crash["op"] == "Store" else None
                obs, _ = _observe((inj["dir"], _names_of(ops + [o for o in fu if o["e"] == "Store" and not o["n"].startswith("f")]), fu, crashed, False))
                evs = _trace_events(ops, crash, inj["pre"], obs)
            traces = [{"case": case, "events": evs}]
        bads = _validate(traces, v)
        for e in traces[0]["events"]:
            print("  ", json.dumps({k: e[k] for k in e if k not in ("troublesome",)})[:300])
        print("TLC verdict:", json.dumps(bads[0]))
        return 1 if any(b["p"] != "U" for b in bads[0]) else 0
    finally:
        shutil.rmtree(sc, ignore_errors=True)
