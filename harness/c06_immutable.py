"""C06 - Models are immutable values: no API call changes its input; equal means equal.

spec (spec/features/Transform.tla): contract over an object store (snap / wf / eq+hash observations); TLC explores
     it in bounded instances (Transform.cfg: calls and frame; TransformValues.cfg: equality / hash / copy on values),
     checks that each invariant is violated by the matching faulty implementation (TransformBad.cfg, Fault=...),
     and enumerates call plans over the function alphabet (TransformPlans.cfg)        [spec -> code].
code -> spec: a monitor (c06_monitor.Session) records sessions on real pharmpy objects:
     (a) sweep: every function of pharmpy.modeling.__all__ that takes a model, with generated arguments, on corpus
         and transformed models, each also on an independently built equal model;
     (b) the TLC-chosen call plans (chains and siblings sharing one base object);
     (c) a zoo of components built twice through the constructors (incl. systems without a dose);
     every session is validated by TLC against TransformTrace.tla; an event no action explains
     (digest of a pre-existing object changed, ill-formed result, a == b with unequal hashes, == raising,
     non-reflexive / symmetric / transitive ==, copy not equal) is the violation.
"""
from __future__ import annotations

import json
import os
import random
import shutil
import threading
import time

from . import core
from . import c06_monitor as M

SPEC = core.SPEC / "features"

# function alphabet of the call plans: token -> (function, kwargs builder from Info)
ALPHABET = {
    "FO": ("set_first_order_absorption", lambda I: {}),
    "ZO": ("set_zero_order_absorption", lambda I: {}),
    "SEQ": ("set_seq_zo_fo_absorption", lambda I: {}),
    "INST": ("set_instantaneous_absorption", lambda I: {}),
    "LAG": ("add_lag_time", lambda I: {}),
    "NOLAG": ("remove_lag_time", lambda I: {}),
    "TR2": ("set_transit_compartments", lambda I: {"n": 2}),
    "P+": ("add_peripheral_compartment", lambda I: {}),
    "P-": ("remove_peripheral_compartment", lambda I: {}),
    "MM": ("set_michaelis_menten_elimination", lambda I: {}),
    "FOEL": ("set_first_order_elimination", lambda I: {}),
    "MIXEL": ("set_mixed_mm_fo_elimination", lambda I: {}),
    "BIO": ("add_bioavailability", lambda I: {}),
    "PROP": ("set_proportional_error_model", lambda I: {}),
    "ADD": ("set_additive_error_model", lambda I: {}),
    "COMB": ("set_combined_error_model", lambda I: {}),
    "IIVRUV": ("set_iiv_on_ruv", lambda I: {}),
    "POWRUV": ("set_power_on_ruv", lambda I: {}),
    "PKIIV": ("add_pk_iiv", lambda I: {}),
    "RMIIV": ("remove_iiv", lambda I: {"to_remove": [I.eta()]}),
    "JOINT": ("create_joint_distribution", lambda I: {}),
    "SPLIT": ("split_joint_distribution", lambda I: {}),
    "IOV": ("add_iov", lambda I: {"occ": I.occ}),
    "BOXCOX": ("transform_etas_boxcox", lambda I: {"list_of_etas": [I.eta()]}),
    "COV": ("add_covariate_effect", lambda I: {"parameter": I.ip(), "covariate": I.covs[0], "effect": "exp"}),
    "ALLO": ("add_allometry", lambda I: {"allometric_variable": I.covs[0]}),
    "FIX": ("fix_parameters", lambda I: {"parameter_names": [I.th()]}),
    "INIT": ("set_initial_estimates", lambda I: {"inits": {I.th(): I.init(I.th()) * 1.05}}),
    "ADMID": ("add_admid", lambda I: {}),
    "CMT": ("add_cmt", lambda I: {}),
    "TAD": ("add_time_after_dose", lambda I: {}),
    "DROP": ("drop_columns", lambda I: {"column_names": [I.covs[-1]]}),
    "FILTER": ("filter_dataset", lambda I: {"expr": "ID < 20"}),
    "GENERIC": ("convert_model", lambda I: {"to_format": "generic"}),
    "NLMIXR": ("convert_model", lambda I: {"to_format": "nlmixr"}),
    "DECL": ("make_declarative", lambda I: {}),
    "CLEAN": ("cleanup_model", lambda I: {}),
    "MUREF": ("mu_reference_model", lambda I: {}),
    "EST": ("set_estimation_step", lambda I: {"method": "IMP", "idx": 0}),
    "EVAL": ("set_evaluation_step", lambda I: {}),
    "UNC": ("add_parameter_uncertainty_step", lambda I: {"parameter_uncertainty_method": "SANDWICH"}),
    "UNUSED": ("remove_unused_parameters_and_rvs", lambda I: {}),
    "BLQ": ("transform_blq", lambda I: {"method": "m4", "lloq": 10}),
    "UNLOAD": ("unload_dataset", lambda I: {}),
    "NAME": ("set_name", lambda I: {"new_name": "renamed"}),
}

CALL_TIMEOUT = {"quick": 25, "thorough": 90}

# ----------------------------------------------------------------------------- TLC on the spec itself


def _cfg_with(src: str, repl: dict, d) -> str:
    txt = (SPEC / src).read_text()
    for a, b in repl.items():
        if a not in txt:
            raise core.MachineryError(f"{src}: '{a}' not found")
        txt = txt.replace(a, b)
    p = d / src
    p.write_text(txt)
    return p


def _explore(tier: str, v: core.Verdict, out: dict):
    """Bounded exploration of the contract + negative controls.  Runs in a thread next to the sweep."""
    try:
        d = core.scratch("c06cfg")
        big = tier == "thorough"
        c1 = _cfg_with("Transform.cfg", {"Funcs = {f}": "Funcs = {f, g}"} if big else {}, d)
        # quick: one label (== compares everything the digest sees); thorough: two labels (== ignores part of the digest)
        c2 = _cfg_with("TransformValues.cfg", {} if big else {"Labels = {n1, n2}": "Labels = {n1}"}, d)
        r1 = core.run_tlc(SPEC / "Transform.tla", c1, workers=4, timeout=1500, heap="3g")
        core.require_ok(r1, "Transform.cfg")
        if r1.violated:
            raise core.MachineryError(f"Transform.cfg: design-level {r1.violated} violated\n" + "\n".join(r1.trace[-2:]))
        core.require_actions(r1, ["Load", "DoCallFresh", "DoCallSame", "DoCallValue", "DoCallRaise"], "Transform.cfg")
        r2 = core.run_tlc(SPEC / "Transform.tla", c2, workers=4, timeout=2400, heap="3g")
        core.require_ok(r2, "TransformValues.cfg")
        if r2.violated:
            raise core.MachineryError(f"TransformValues.cfg: design-level {r2.violated} violated\n" + "\n".join(r2.trace[-2:]))
        core.require_actions(r2, ["Load", "DoCopy", "DoObserve"], "TransformValues.cfg")
        expect = {"mutate": {"Frame"}, "idhash": {"EqImpliesHash"}, "stalehash": {"EqImpliesHash"}, "novalidate": {"ResultsWellFormed"},
                  "badcopy": {"CopyEqual"}, "eqstate": {"EqReflexive", "EqSymmetric", "EqTransitive"}}
        controls = {}
        for fault, invs in expect.items():
            cb = _cfg_with("TransformBad.cfg", {'Fault = "mutate"': f'Fault = "{fault}"'}, d)
            rb = core.run_tlc(SPEC / "Transform.tla", cb, workers=2, timeout=600, coverage=False, heap="1g")
            if rb.error or rb.violated not in invs:
                raise core.MachineryError(f"negative control {fault}: expected a violation of {sorted(invs)}, got {rb.violated} {rb.error}")
            controls[fault] = rb.violated
        shutil.rmtree(d, ignore_errors=True)
        out["ok"] = dict(states=r1.distinct + r2.distinct, transitions=r1.generated + r2.generated,
                         calls_cfg=[r1.distinct, r1.generated, r1.depth, round(r1.wall, 1)],
                         values_cfg=[r2.distinct, r2.generated, r2.depth, round(r2.wall, 1)], controls=controls)
    except BaseException as e:  # reported by the main thread
        out["err"] = e


def _plans(tier: str, seed: int, v: core.Verdict):
    d = core.scratch("c06plans")
    funcs = "{" + ", ".join(f'"{t}"' for t in ALPHABET) + "}"
    cfg = _cfg_with("TransformPlans.cfg", {'Funcs = {"f", "g"}': f"Funcs = {funcs}"}, d)
    res = core.run_tlc(SPEC / "Transform.tla", cfg, workers=4, timeout=900, heap="2g")
    core.require_ok(res, "TransformPlans.cfg")
    if res.violated:
        raise core.MachineryError(f"TransformPlans.cfg: {res.violated}")
    core.require_actions(res, ["Load", "DoCallFresh"], "TransformPlans.cfg")
    plans = {json.dumps(c) for tag, c in res.prints if tag == "CASE"}
    plans = [json.loads(p) for p in sorted(plans)]
    n = len(ALPHABET)
    if len(plans) != n + 2 * n * n:
        raise core.MachineryError(f"TransformPlans: {len(plans)} plans emitted, expected {n + 2 * n * n}")
    stats = dict(states=res.distinct, transitions=res.generated)
    long_plans = []
    if tier == "thorough":
        # histories of length 3: random behaviours of the same spec (-simulate), seeded
        cfg3 = _cfg_with("TransformPlans.cfg", {'Funcs = {"f", "g"}': f"Funcs = {funcs}", "MaxObjs = 3": "MaxObjs = 4", "MaxCalls = 2": "MaxCalls = 3"}, d)
        r3 = core.run_tlc(SPEC / "Transform.tla", cfg3, workers=4, timeout=900, simulate="num=6000", depth=5, seed=seed, coverage=False, heap="2g")
        if r3.error and "timed out" in r3.error:
            raise core.MachineryError("TransformPlans simulate: " + r3.error)
        lp = {json.dumps(c) for tag, c in r3.prints if tag == "CASE" and len(c) == 3}
        long_plans = [json.loads(p) for p in sorted(lp)]
        stats["states"] += r3.distinct
        stats["transitions"] += r3.generated
    shutil.rmtree(d, ignore_errors=True)
    return plans, long_plans, stats


# ----------------------------------------------------------------------------- workers (forked; pharmpy imported in the parent)

_BASES: dict = {}
_TMP = None
_TIER = "quick"
_RUN = os.getpid()  # scratch directories of the forked workers carry the parent's pid


def _tmpdir():
    global _TMP
    if _TMP is None or not os.path.isdir(_TMP):
        _TMP = str(core.scratch(f"c06tmp{_RUN}"))
    return _TMP


def _bases(key):
    if key not in _BASES:
        a, b = M.build_base(key), M.build_base(key)
        _BASES[key] = (a, b, M.Info(a), M.Info(b))
    return _BASES[key]


def _finish(S: M.Session, keys):
    S.audit()
    # a base object that changed is not used again
    for inf in S.info:
        if inf.get("changed"):
            for k in keys:
                _BASES.pop(k, None)
            break
    return {"trace": S.trace(), "info": S.info, "meta": S.meta, "timeouts": S.timeouts}


def _observe_result(S: M.Session, m, m2, r, r2, components=True):
    from pharmpy.model import Model

    S.copies(r)
    S.observe(r, r, "reflexive")
    S.observe(r, m, "result~base")
    S.observe(m, r, "base~result")
    if components:
        for name in ("datainfo", "parameters", "random_variables", "execution_steps"):
            x, y = getattr(r, name), getattr(m, name)
            if x is not y:
                S.load(x, name)
                S.load(y, name)
                S.observe(x, y, name + " result~base")
                S.observe(y, x, name + " base~result")
    if isinstance(r2, Model) and r2 is not r:
        S.observe(r, r2, "result~rebuilt")
        S.observe(r2, r, "rebuilt~result")
        S.observe(r2, m, "rebuilt~base")
        S.observe(m, r2, "base~rebuilt")
        # the same pair without the compartmental system (whose hash is a known finding): Model.__hash__ /
        # Statements.__hash__ themselves are then judged
        try:
            if r.statements.ode_system is not None and r2.statements.ode_system is not None:
                t1 = r.replace(statements=r.statements.before_odes)
                t2 = r2.replace(statements=r2.statements.before_odes)
                S.load(t1, "replace(statements=before_odes)", wf=[])  # helper objects: well-formedness not evaluated
                S.load(t2, "replace(statements=before_odes)", wf=[])
                S.observe(t1, t2, "result~rebuilt without ODE system")
                S.observe(t2, t1, "rebuilt~result without ODE system")
                if components:
                    for x, y in ((t1.statements, t2.statements), (r.statements.after_odes, r2.statements.after_odes)):
                        S.load(x, "statements part")
                        S.load(y, "statements part")
                        S.observe(x, y, "statements without ODE system")
                        S.observe(y, x, "statements without ODE system")
        except Exception:
            pass
        if components:
            for name in ("parameters", "random_variables", "statements", "datainfo", "execution_steps"):
                x, y = getattr(r, name), getattr(r2, name)
                if x is y:
                    continue
                S.load(x, name)
                S.load(y, name)
                S.observe(x, y, name)
                S.observe(y, x, name)
            ox, oy = r.statements.ode_system, r2.statements.ode_system
            if ox is not None and oy is not None and ox is not oy:
                S.load(ox, "ode_system")
                S.load(oy, "ode_system")
                S.observe(ox, oy, "ode_system")
                S.observe(oy, ox, "ode_system")


def _never_hashed(x):
    """An equal copy of x on which hash() has never been evaluated (the cached models of a worker have been hashed by
    earlier sessions): what a client holds who derives from a model without ever having put it in a set."""
    import pickle

    try:
        c = pickle.loads(pickle.dumps(x))
    except Exception:
        return x
    getattr(c, "__dict__", {}).pop("_hash", None)
    return c


def sweep_task(task):
    key, fname, vi = task
    import pharmpy.modeling as pm
    from pharmpy.model import Model

    try:
        m, m2, I, I2 = _bases(key)
    except Exception as e:
        return {"skip": f"base {key}: {type(e).__name__}"}
    S = M.Session({"kind": "sweep", "base": key, "function": fname, "variant": vi})
    fn = getattr(pm, fname)
    tmp = _tmpdir()

    def build(mm, II):
        if fname in M.SPECIAL_VARIANTS:
            a, kw, desc = M.special_call(fname, pm, mm, II, vi)
            return a, kw, desc
        kw = M.arg_variants(fname, II, tmp)[vi]
        return (mm,), dict(kw), M.describe_kwargs(kw)

    # "hash first, then derive" (m) against "derive from an equal model that was never hashed" (m2)
    m2 = _never_hashed(m2)
    try:
        a1, k1, desc = build(m, I)
        a2, k2, _ = build(m2, I2)
    except Exception as e:
        return {"skip": f"arguments for {fname}: {type(e).__name__}: {e}"[:200]}
    S.meta["kwargs"] = desc
    S.load(m, "base")
    S.observe(m, m, "base hashed before the call")
    S.load(m2, "base2 (never hashed)")
    to = CALL_TIMEOUT[_TIER]
    out, r = S.call(fname, fn, a1, k1, timeout=to, describe=desc, on=[m])
    out2, r2 = S.call(fname, fn, a2, k2, timeout=to, describe=desc, on=[m2])
    if out == "returned" and isinstance(r, Model) and r is not m:
        _observe_result(S, m, m2, r, r2 if out2 == "returned" else None)
    S.observe(m, m2, "base~base2")
    S.observe(m2, m, "base2~base")
    S.meta["out"] = out
    return _finish(S, [key])


def plan_task(task):
    key, plan, rebuild = task
    import pharmpy.modeling as pm
    from pharmpy.model import Model

    try:
        m, m2, I, I2 = _bases(key)
    except Exception as e:
        return {"skip": f"base {key}: {type(e).__name__}"}
    S = M.Session({"kind": "plan", "base": key, "plan": [[c["f"], c["arg"]] for c in plan], "function": "+".join(c["f"] for c in plan)})
    m2 = _never_hashed(m2) if rebuild else m2
    S.load(m, "base")
    S.observe(m, m, "base hashed before the calls")
    S.load(m2, "base2 (never hashed)")
    to = CALL_TIMEOUT[_TIER]

    def run(root, record):
        objs = {1: root}
        last = None
        for i, c in enumerate(plan):
            arg = objs.get(c["arg"])
            if arg is None:
                return None, i
            fname, kwf = ALPHABET[c["f"]]
            try:
                kw = kwf(M.Info(arg) if arg is not root else (I if root is m else I2))
            except Exception:
                return None, i
            out, r = S.call(fname, getattr(pm, fname), (arg,), kw, timeout=to, describe=M.describe_kwargs(kw))
            if out == "returned" and isinstance(r, Model):
                objs[i + 2] = r
                last = r
            else:
                last = None
        return last, len(plan)

    r, done = run(m, True)
    S.meta["steps_done"] = done
    if r is not None and r is not m:
        r2 = None
        if rebuild:
            r2, _ = run(m2, False)
        _observe_result(S, m, m2, r, r2, components=False)
    return _finish(S, [key])


def zoo_task(idx):
    """Components built twice, independently, through the public constructors; == / hash / copy observed."""
    from pharmpy.basic import Expr
    from pharmpy.model import (Assignment, Bolus, ColumnInfo, Compartment, CompartmentalSystem, CompartmentalSystemBuilder,
                               DataInfo, EstimationStep, ExecutionSteps, Infusion, JointNormalDistribution, NormalDistribution,
                               Parameter, Parameters, RandomVariables, Statements, output)

    def cs(dose=True, order=0, peripheral=True):
        cb = CompartmentalSystemBuilder()
        central = Compartment.create("CENTRAL", doses=(Bolus.create("AMT"),) if dose else ())
        per = Compartment.create("PERIPHERAL")
        comps = [central, per] if peripheral else [central]
        for c in (comps if order == 0 else list(reversed(comps))):
            cb.add_compartment(c)
        flows = [(central, output, "CL/V")] + ([(central, per, "K12"), (per, central, "K21")] if peripheral else [])
        for a, b, r in (flows if order == 0 else list(reversed(flows))):
            cb.add_flow(a, b, r)
        return CompartmentalSystem(cb)

    makers = {
        "Parameter": lambda: Parameter.create("TH", 1.0, lower=0.0, upper=5.0),
        "Parameters": lambda: Parameters.create([Parameter.create("TH", 1.0, lower=0.0), Parameter.create("OM", 0.1)]),
        "NormalDistribution": lambda: NormalDistribution.create("ETA", "iiv", 0, "OM"),
        "JointNormalDistribution": lambda: JointNormalDistribution.create(["E1", "E2"], "iiv", [0, 0], [["O11", "O21"], ["O21", "O22"]]),
        "RandomVariables": lambda: RandomVariables.create([NormalDistribution.create("ETA", "iiv", 0, "OM")]),
        "Assignment": lambda: Assignment.create("CL", Expr.symbol("TH") * Expr.symbol("ETA").exp()),
        "Bolus": lambda: Bolus.create("AMT", admid=1),
        "Infusion": lambda: Infusion.create("AMT", rate="R"),
        "Compartment": lambda: Compartment.create("CENTRAL", doses=(Bolus.create("AMT"),), lag_time="ALAG"),
        "CompartmentalSystem": lambda: cs(True),
        "CompartmentalSystem/nodose": lambda: cs(False),
        "CompartmentalSystem/nodose/1comp": lambda: cs(False, peripheral=False),
        "Statements": lambda: Statements([Assignment.create("CL", "TH"), Assignment.create("Y", "CL + EPS")]),
        "Statements/ode": lambda: Statements([Assignment.create("CL", "TH"), cs(True), Assignment.create("Y", "A_CENTRAL")]),
        "ColumnInfo": lambda: ColumnInfo.create("WGT", type="covariate", unit="kg"),
        "DataInfo": lambda: DataInfo.create([ColumnInfo.create("ID", type="id"), ColumnInfo.create("DV", type="dv")]),
        "EstimationStep": lambda: EstimationStep.create("foce", interaction=True),
        "ExecutionSteps": lambda: ExecutionSteps.create([EstimationStep.create("foce")]),
    }
    names = sorted(makers)
    name = names[idx % len(names)]
    S = M.Session({"kind": "zoo", "function": name, "base": "constructors"})
    try:
        a, b = makers[name](), makers[name]()
    except Exception as e:
        return {"skip": f"zoo {name}: {type(e).__name__}: {e}"[:200]}
    S.meta["types"] = type(a).__name__
    S.load(a, "a")
    S.load(b, "b")
    S.copies(a)
    for x, y in ((a, a), (a, b), (b, a), (b, b)):
        S.observe(x, y, name)
    if hasattr(a, "to_dict") and hasattr(type(a), "from_dict"):
        try:
            c = type(a).from_dict(a.to_dict())
        except Exception:
            c = None
        if c is not None:
            S.load(c, "from_dict(to_dict(a))")
            S.observe(a, c, name + " ~ from_dict")
            S.observe(c, a, name + " ~ from_dict")
            S.observe(b, c, name + " ~ from_dict")
    if name == "ColumnInfo":
        o = ColumnInfo.create("WGT", type="covariate", unit="kg", descriptor="body weight")
        S.load(o, "other descriptor")
        S.observe(a, o, name + " ~ other descriptor")
        S.observe(o, a, name + " ~ other descriptor")
    if name.startswith("CompartmentalSystem") and "nodose" not in name:
        o = cs(True, order=1)
        S.load(o, "other insertion order")
        S.observe(a, o, name + " ~ reordered")
        S.observe(o, a, name + " ~ reordered")
    return _finish(S, [])


def _dispatch(task):
    kind = task[0]
    t0 = time.time()
    try:
        if kind == "sweep":
            r = sweep_task(task[1:])
        elif kind == "plan":
            r = plan_task(task[1:])
        else:
            r = zoo_task(task[1])
        r["wall"] = round(time.time() - t0, 2)
        return r
    except core.MachineryError as e:
        return {"skip": f"machinery: {e}"[:200], "fatal": True}


# ----------------------------------------------------------------------------- validation by TLC


def _validate(results, v: core.Verdict, tier: str):
    sessions = [r for r in results if "trace" in r]
    if not sessions:
        raise core.MachineryError("no session recorded")
    nchunks = 8 if tier == "thorough" else 4
    chunks = [list(range(i, len(sessions), nchunks)) for i in range(nchunks)]
    chunks = [c for c in chunks if c]
    d = core.scratch("c06tr")
    outs = [None] * len(chunks)

    def run(ci):
        f = d / f"traces{ci}.json"
        f.write_text(json.dumps([sessions[i]["trace"] for i in chunks[ci]]))
        outs[ci] = core.run_tlc(SPEC / "TransformTrace.tla", SPEC / "TransformTrace.cfg", workers=1, timeout=3000,
                                env={"TRACES": str(f)}, coverage=False, heap="2g")

    ths = [threading.Thread(target=run, args=(i,)) for i in range(len(chunks))]
    for t in ths:
        t.start()
    for t in ths:
        t.join()
    shutil.rmtree(d, ignore_errors=True)
    accepted, rejected = 0, 0
    events = 0
    for ci, res in enumerate(outs):
        core.require_ok(res, "TransformTrace.tla")
        if res.violated:
            raise core.MachineryError(f"TransformTrace: unexpected {res.violated}")
        acc = {x for tag, x in res.prints if tag == "ACC"}
        rej = {}
        for tag, x in res.prints:
            if tag == "REJ":
                rej.setdefault(x["tid"], {})[x["l"]] = x["why"]
        v.add_coverage(states=res.distinct, transitions=res.generated)
        for j, si in enumerate(chunks[ci]):
            s = sessions[si]
            tid = j + 1
            events += len(s["trace"]["events"])
            if tid in acc and tid not in rej:
                accepted += 1
                continue
            if tid not in rej:
                raise core.MachineryError(f"TransformTrace: session {s['meta']} neither accepted nor rejected")
            rejected += 1
            for l, why in sorted(rej[tid].items()):
                _report(v, s, l, why)
    return accepted, rejected, events


def _report(v: core.Verdict, s, l, why):
    ev = s["trace"]["events"][l - 1]
    inf = s["info"][l - 1]
    meta = s["meta"]
    case = {"kind": why["k"], "outcome": why["what"], "session": meta.get("kind"), "base": meta.get("base"),
            "function": inf.get("function") or meta.get("function"), "event": ev["ev"], "line": l}
    if meta.get("kind") == "sweep":
        case["variant"] = meta.get("variant")
        case["kwargs"] = meta.get("kwargs")
    if meta.get("kind") == "plan":
        case["plan"] = meta.get("plan")
    if why["k"] == "frame":
        parts = sorted({p for o in why["objs"] for p in inf.get("changed", {}).get(o, inf.get("changed", {}).get(str(o), []))})
        case["changed_parts"] = parts
        cd = inf.get("coldiff", {})
        for key in ("added", "removed", "modified"):
            case[key + "_columns"] = sorted({c for o in why["objs"] for c in cd.get(o, cd.get(str(o), {})).get(key, [])})
        case["call_outcome"] = ev.get("out")
        what = f"{case['function']}({meta.get('base')}) changed {'/'.join(parts) or '?'} of an object that existed before the call (call {ev.get('out', ev['ev'])})"
    elif why["k"] == "wf":
        missing = sorted(set(M.WF_BITS) - set(ev.get("wf", [])))
        case["missing"] = missing
        if inf.get("undefined"):
            case["undefined"] = inf["undefined"]
            case["undefined_in"] = inf.get("where")
        what = f"{case['function']}({meta.get('base')}, {meta.get('kwargs') or meta.get('plan')}) returned a model that is not well formed: {missing}"
    elif why["k"] == "obs":
        case["types"] = ",".join(inf.get("types", []))
        case["exception"] = inf.get("exception")
        case["culprit"] = inf.get("culprit")
        case["why"] = inf.get("why")
        what = f"{why['what']} on {case['types']} ({inf.get('why')}; culprit {inf.get('culprit')}; {inf.get('exception') or ''} {inf.get('message') or ''})"
    else:
        case["detail"] = {k: inf.get(k) for k in ("how", "type", "exception")}
        what = f"{why['what']}: {case['detail']}"
    v.violation(case, what)


# ----------------------------------------------------------------------------- main


# quick tier: on the synthetic / zero-order-input start models only the functions of the modules whose branches they open
FOCUS = {
    "syn_date": {"data"},
    "syn_events": {"data", "odes"},
    "syn_des": {"parameter_variability", "common"},
    "pheno+zoi": {"parameter_variability", "common", "odes"},
    "syn_cov": {"covariate_effect"},
    "syn_events+textcmt": {"odes"},
}
ALL_VARIANTS = {"syn_cov"}  # bases on which the quick tier runs every argument variant of the focused functions


def _tasks(tier: str, seed: int, plans, long_plans):
    import pharmpy.modeling as pm

    rng = random.Random(seed)
    corpus = list(M.CORPUS)
    synthetic = list(M.SYNTHETIC)
    transformed = sorted(k for k in M.TRANSFORMED if k not in FOCUS)
    rng.shuffle(transformed)
    tbases = transformed if tier == "thorough" else transformed[:1]
    skipped = dict(M.SKIP)
    tasks = []
    nfun = 0
    dummy = None
    kinfo: dict = {}
    for fname in pm.__all__:
        if fname in skipped:
            continue
        fn = getattr(pm, fname)
        if fname not in M.SPECIAL_VARIANTS and not M.takes_model(fn):
            skipped[fname] = "no model argument"
            continue
        nfun += 1
        module = fn.__module__.split(".")[-1]
        if fname in M.SPECIAL_VARIANTS:
            nv = M.SPECIAL_VARIANTS[fname]
        else:
            if dummy is None:
                dummy = M.Info(M.build_base("pheno"))
            nv = len(M.arg_variants(fname, dummy, "/nonexistent"))
        for ci, key in enumerate(corpus):
            for vi in range(nv if tier == "thorough" else min(nv, 2 if ci == 0 else 1)):
                tasks.append(("sweep", key, fname, vi))
        for key in tbases:
            vs = range(nv) if tier == "thorough" else [rng.randrange(nv)]
            for vi in vs:
                tasks.append(("sweep", key, fname, vi))
        for key, modules in FOCUS.items():
            nk = nv
            if key in ALL_VARIANTS and fname not in M.SPECIAL_VARIANTS:
                if key not in kinfo:
                    kinfo[key] = M.Info(M.build_base(key))
                nk = len(M.arg_variants(fname, kinfo[key], "/nonexistent"))
            if tier == "thorough" or (module in modules and key in ALL_VARIANTS):
                for vi in range(nk):
                    tasks.append(("sweep", key, fname, vi))
            elif module in modules:
                for vi in range(min(nv, 2) if module in ("data", "parameter_variability") else 1):
                    tasks.append(("sweep", key, fname, vi))
    # plans: singles are covered by the sweep; chains and siblings (length 2), sampled by seed in quick
    two = [p for p in plans if len(p) == 2]
    rng.shuffle(two)
    nplans = {"quick": 100, "thorough": len(two)}[tier]
    allbases = corpus + transformed + list(FOCUS)
    ptasks = []
    for i, p in enumerate(two[:nplans]):
        key = corpus[i % 2] if tier == "quick" or i % 3 else allbases[i % len(allbases)]
        ptasks.append(("plan", key, p, i % 3 == 0))
    rng.shuffle(long_plans)
    for i, p in enumerate(long_plans[:3000]):
        ptasks.append(("plan", allbases[i % len(allbases)], p, i % 4 == 0))
    ztasks = [("zoo", i) for i in range(18)]
    return tasks, ptasks, ztasks, skipped, nfun


def _warm_up():
    """Import every (lazily loaded) pharmpy module the workers will need BEFORE forking, so that all workers run the
    same code even if the tree is edited while the check runs."""
    import pharmpy.modeling as pm

    for key in list(M.CORPUS)[:1] + list(M.SYNTHETIC) + ["syn_events+textcmt"]:
        try:
            m = M.build_base(key)
            pm.get_model_code(pm.add_peripheral_compartment(m))
            for fmt in ("generic", "nlmixr", "rxode"):
                pm.convert_model(m, fmt)
            pm.cleanup_model(m)
            pm.add_time_after_dose(m)
        except Exception:
            pass


def main(tier: str, seed: int) -> int:
    global _TIER
    _TIER = tier
    v = core.Verdict("C06", tier, seed)
    v.assumptions = [
        "the universal quantifier over functions is met by enumeration of pharmpy.modeling.__all__ (functions taking a model), over arguments by per-signature generators; "
        "functions that need a plotting back end are skipped and counted",
        "digest = sha256 over dataset bytes/dtypes/columns/index, datainfo, parameters, random variables, statements (graph nodes and edges in order), execution steps, "
        "dependent variables, initial individual estimates, name/description/value type, model.code and the NONMEM record objects; caches such as _hash are not part of it",
        "well-formedness is judged only for results of calls whose model arguments were themselves well formed; a call that raises is always admitted (frame still required)",
    ]
    core.use_repo()
    import pharmpy.modeling as pm  # noqa: F401  (import before forking)
    import pharmpy.model  # noqa: F401

    t0 = time.time()
    syn = M.write_synthetic(core.scratch(f"c06syn{_RUN}"))
    _warm_up()
    box: dict = {}
    th = threading.Thread(target=_explore, args=(tier, v, box))
    th.start()
    plans, long_plans, pstats = _plans(tier, seed, v)
    tasks, ptasks, ztasks, skipped, nfun = _tasks(tier, seed, plans, long_plans)
    work = tasks + ptasks + ztasks
    random.Random(seed).shuffle(work)
    results = core.pmap(_dispatch, work, procs=14, chunk=4)
    for dname in core.WORK.glob(f"c06tmp{_RUN}-*"):
        shutil.rmtree(dname, ignore_errors=True)
    shutil.rmtree(syn, ignore_errors=True)
    t_run = time.time() - t0
    fatal = [r for r in results if r.get("fatal")]
    if fatal:
        raise core.MachineryError(fatal[0]["skip"])
    accepted, rejected, events = _validate(results, v, tier)
    th.join()
    if "err" in box:
        e = box["err"]
        if isinstance(e, core.MachineryError):
            raise e
        raise core.MachineryError(f"exploration thread: {type(e).__name__}: {e}")
    ex = box["ok"]
    v.add_coverage(states=ex["states"] + pstats["states"], transitions=ex["transitions"] + pstats["transitions"])

    sessions = [r for r in results if "trace" in r]
    calls = [(s, e, i) for s in sessions for e, i in zip(s["trace"]["events"], s["info"]) if e["ev"] == "call"]
    outcome_count: dict = {}
    for s, e, i in calls:
        outcome_count[e["out"]] = outcome_count.get(e["out"], 0) + 1
    fresh_funcs = {i["function"] for s, e, i in calls if e["out"] == "returned"}
    called_funcs = {i["function"] for s, e, i in calls}
    never_returned = sorted(f for f in called_funcs if f not in fresh_funcs and not any(e["out"] == "value" and i["function"] == f for s, e, i in calls))
    skips = [r["skip"] for r in results if "skip" in r]
    timeouts = sum(r.get("timeouts", 0) for r in sessions)
    v.add_coverage(
        evaluations=len(calls),
        distinct_nontrivial=len({(s["meta"].get("base"), i["function"], json.dumps(i.get("kwargs"), sort_keys=True, default=str)) for s, e, i in calls if e["out"] == "returned"}),
        traces_validated_against_impl=accepted + rejected,
        sessions_accepted=accepted,
        sessions_with_rejected_event=rejected,
        events_validated=events,
        observations=sum(1 for s in sessions for e in s["trace"]["events"] if e["ev"] == "obs"),
        call_outcomes=outcome_count,
        functions_in_all=len(pm.__all__),
        functions_called=len(called_funcs),
        functions_returning_model=len(fresh_funcs),
        functions_always_raising=never_returned[:40],
        functions_skipped={k: skipped[k] for k in sorted(skipped)},
        tasks_skipped=len(skips),
        tasks_skipped_samples=skips[:5],
        call_timeouts=timeouts,
        sweep_sessions=len(tasks), plan_sessions=len(ptasks), zoo_sessions=len(ztasks),
        plans_emitted_by_tlc=len(plans) + len(long_plans),
        alphabet=len(ALPHABET),
        tlc_exploration=ex,
        replay_wall_s=round(t_run, 1), session_wall_sum_s=round(sum(r.get('wall', 0) for r in results), 1),
        rule="non-trivial = distinct (start model, function, arguments) whose call returned; every session (store of real objects, all operations on it) is one trace validated by TLC",
        samples=[{"meta": s["meta"], "events": [{k: e[k] for k in e if k != "post"} for e in s["trace"]["events"][:6]]} for s in sessions[:3]],
        exhaustive=False,
    )
    for dname in core.WORK.glob(f"c06tmp{_RUN}-*"):
        shutil.rmtree(dname, ignore_errors=True)
    return v.finish(min_traces={"quick": 400, "thorough": 2000}[tier])


def replay(path: str) -> int:
    """Re-run the session of a replay file and print the events TLC rejects."""
    core.use_repo()
    import pharmpy.modeling  # noqa: F401

    data = json.loads(open(path).read())
    case = data["case"]
    print(json.dumps(case, indent=1)[:1500])
    syn = M.write_synthetic(core.scratch(f"c06syn{_RUN}"))
    if case.get("session") == "sweep":
        r = sweep_task((case["base"], case["function"], case.get("variant", 0)))
    elif case.get("session") == "plan":
        r = plan_task((case["base"], [{"f": f, "arg": a} for f, a in case["plan"]], True))
    else:
        names = 18
        r = None
        for i in range(names):
            x = zoo_task(i)
            if "meta" in x and x["meta"].get("function") == case["function"]:
                r = x
        if r is None:
            return 2
    for dname in core.WORK.glob(f"c06tmp{_RUN}-*"):
        shutil.rmtree(dname, ignore_errors=True)
    shutil.rmtree(syn, ignore_errors=True)
    if "trace" not in r:
        print("session could not be rebuilt:", r)
        return 2
    v = core.Verdict("C06", "replay", 0)
    acc, rej, _ = _validate([r], v, "quick")
    for c, what, _p in v.violations:
        print("REJECTED:", what)
    for fid, (f, n) in v.known_hits.items():
        print("KNOWN:", fid, n)
    return 1 if v.violations else 0
