"""An INDEPENDENT front end for NM-TRAN control streams: own tokenizer and Fortran-precedence parser (nothing of
pharmpy's lark grammars is used).  It turns the text pharmpy generates -- $SUBROUTINES, $MODEL, $PK, $DES,
$ERROR / $PRED, $THETA / $OMEGA / $SIGMA, $INPUT / $DATA -- into the case format of spec/nmtran/NMTran.tla
(Expr.tla ASTs), so that TLC can interpret generated code.

Precedence / associativity are those of Expr.tla's PrecedenceTable:
    **  (right)  >  * /  (left)  >  unary -, + -  (left)  >  relations (non-assoc)  >  .NOT.  >  .AND.  >  .OR.
Anything outside the supported subset raises Unsupported: the caller counts the case as `skipped`.

    parse_code(text)            -> [stmt, ...]
    parse_control_stream(text)  -> dict (see docstring)
"""
from __future__ import annotations

import re
from fractions import Fraction


class Unsupported(Exception):
    """construct outside the subset NMTran.tla interprets (skipped, never judged)"""


class ParseError(Exception):
    """the text is not well formed for this front end (also skipped; reported separately)"""


# --------------------------------------------------------------------------- tokenizer

_DOT_OPS = {".EQ.": ("rel", "EQ"), ".NE.": ("rel", "NE"), ".LT.": ("rel", "LT"), ".LE.": ("rel", "LE"),
            ".GT.": ("rel", "GT"), ".GE.": ("rel", "GE"), ".AND.": ("and", None), ".OR.": ("or", None),
            ".NOT.": ("not", None), ".EQN.": ("rel", "EQ"), ".NEN.": ("rel", "NE")}
_SYM_RELS = {"==": "EQ", "/=": "NE", "<=": "LE", ">=": "GE", "<": "LT", ">": "GT"}
_NUM = re.compile(r"(\d+\.?\d*|\.\d+)([EeDd][-+]?\d+)?")
_NAME = re.compile(r"[A-Za-z_][A-Za-z0-9_]*")
_DOT = re.compile(r"\.(EQN|NEN|EQ|NE|LT|LE|GT|GE|AND|OR|NOT)\.", re.I)


def tokenize(line: str):
    """One logical line (comment already removed) -> list of (kind, value, glued) tokens;
    glued = no blank between this token and the previous one."""
    out = []
    i, n = 0, len(line)
    while i < n:
        c = line[i]
        if c in " \t\x00":
            i += 1
            continue
        glued = i > 0 and line[i - 1] not in " \t\x00"
        m = _DOT.match(line, i)
        if m:
            kind, val = _DOT_OPS["." + m.group(1).upper() + "."]
            out.append((kind, val, glued))
            i = m.end()
            continue
        if c.isdigit() or (c == "." and i + 1 < n and line[i + 1].isdigit()):
            m = _NUM.match(line, i)
            txt = m.group(0)
            # "1.EQ.2": the dot belongs to the operator, not to the number
            if m.group(2) is None and txt.endswith(".") and _DOT.match(line, m.end() - 1):
                txt = txt[:-1]
            out.append(("num", txt, glued))
            i = m.start() + len(txt)
            continue
        m = _NAME.match(line, i)
        if m:
            out.append(("name", m.group(0).upper(), glued))
            i = m.end()
            continue
        two = line[i:i + 2]
        if two == "**":
            out.append(("pow", None, glued))
            i += 2
            continue
        if two in _SYM_RELS:
            out.append(("rel", _SYM_RELS[two], glued))
            i += 2
            continue
        if c in _SYM_RELS:
            out.append(("rel", _SYM_RELS[c], glued))
            i += 1
            continue
        if c in "+-*/(),=":
            out.append((c, None, glued))
            i += 1
            continue
        if c == '"':
            raise Unsupported("verbatim code")
        raise ParseError(f"unexpected character {c!r} in {line!r}")
    return out


def number(txt: str):
    """Fortran numeric literal -> {"k":"num","n","d"} (exact)"""
    t = txt.upper().replace("D", "E")
    q = Fraction(t)
    return {"k": "num", "n": q.numerator, "d": q.denominator}


# --------------------------------------------------------------------------- expression parser (precedence climbing)

FUNCS1 = {"EXP": "EXP", "DEXP": "EXP", "LOG": "LOG", "DLOG": "LOG", "ALOG": "LOG", "SQRT": "SQRT", "DSQRT": "SQRT",
          "ABS": "ABS", "DABS": "ABS", "INT": "INT", "DINT": "INT", "PEXP": "PEXP", "PLOG": "PLOG", "PSQRT": "PSQRT"}
FUNCS2 = {"MOD": "MOD", "DMOD": "MOD"}
UNSUPPORTED_FUNCS = {"LOG10", "DLOG10", "ALOG10", "PLOG10", "SIN", "COS", "TAN", "ASIN", "ACOS", "ATAN", "GAMLN", "PHI",
                     "PDZ", "PZR", "PNP", "PHE", "PNG", "DSIN", "DCOS", "DTAN", "PTAN", "PASIN", "PACOS", "PATAN",
                     "MAX", "MIN", "MIXNUM", "MIXEST", "MIXP"}
INDEXED = {"THETA", "ETA", "EPS", "ERR", "A", "DADT", "A_0", "OMEGA", "SIGMA"}


class _P:
    def __init__(self, toks):
        self.t = toks
        self.i = 0

    def peek(self, k=0):
        return self.t[self.i + k] if self.i + k < len(self.t) else (None, None, False)

    def next(self):
        tok = self.peek()
        self.i += 1
        return tok

    def expect(self, kind):
        tok = self.next()
        if tok[0] != kind:
            raise ParseError(f"expected {kind!r}, found {tok[:2]}")
        return tok

    # ---- arithmetic:  add > mul > pow > atom,  unary minus at the additive level
    def add_expr(self):
        k = self.peek()[0]
        if k in ("-", "+"):
            self.next()
            nxt = self.peek()
            operand = self.mul_expr()
            left = {"k": "neg", "a": operand, "tight": bool(nxt[2])} if k == "-" else operand
        else:
            left = self.mul_expr()
        while self.peek()[0] in ("+", "-"):
            op = self.next()[0]
            right = self.mul_expr()
            left = {"k": "add" if op == "+" else "sub", "a": left, "b": right}
        return left

    def mul_expr(self):
        left = self.pow_expr()
        while self.peek()[0] in ("*", "/"):
            op = self.next()[0]
            if self.peek()[0] in ("-", "+"):
                # A*-B is not Fortran, but widely accepted: the sign applies to the following power expression
                sgn = self.next()[0]
                nxt = self.peek()
                right = self.pow_expr()
                if sgn == "-":
                    right = {"k": "neg", "a": right, "tight": bool(nxt[2])}
            else:
                right = self.pow_expr()
            left = {"k": "mul" if op == "*" else "div", "a": left, "b": right}
        return left

    def pow_expr(self):
        base = self.atom()
        if self.peek()[0] == "pow":
            self.next()
            if self.peek()[0] in ("-", "+"):
                sgn = self.next()[0]
                nxt = self.peek()
                e = self.pow_expr()
                if sgn == "-":
                    e = {"k": "neg", "a": e, "tight": bool(nxt[2])}
            else:
                e = self.pow_expr()  # right associative
            return {"k": "pow", "a": base, "b": e}
        return base

    def atom(self):
        kind, val, _ = self.next()
        if kind == "num":
            return number(val)
        if kind == "(":
            e = self.add_expr()
            self.expect(")")
            return e
        if kind == "name":
            if self.peek()[0] == "(":
                if val in FUNCS1:
                    self.next()
                    a = self.add_expr()
                    self.expect(")")
                    return {"k": "fn", "f": FUNCS1[val], "a": a}
                if val in FUNCS2:
                    self.next()
                    a = self.add_expr()
                    self.expect(",")
                    b = self.add_expr()
                    self.expect(")")
                    return {"k": "fn", "f": FUNCS2[val], "a": a, "b": b}
                if val in UNSUPPORTED_FUNCS:
                    raise Unsupported(f"function {val}")
                if val in INDEXED:
                    self.next()
                    idx = [self._index()]
                    while self.peek()[0] == ",":
                        self.next()
                        idx.append(self._index())
                    self.expect(")")
                    head = "EPS" if val == "ERR" else val
                    return {"k": "var", "v": f"{head}({','.join(idx)})"}
                raise Unsupported(f"subscripted name or unknown function {val}")
            return {"k": "var", "v": val}
        raise ParseError(f"unexpected token {(kind, val)}")

    def _index(self):
        kind, val, _ = self.next()
        if kind == "num" and re.fullmatch(r"\d+", val):
            return str(int(val))
        if kind == "name":
            raise Unsupported("symbolic subscript")
        raise ParseError("subscript")

    # ---- conditions:  or > and > not > rel
    def or_expr(self):
        left = self.and_expr()
        while self.peek()[0] == "or":
            self.next()
            left = {"k": "or", "a": left, "b": self.and_expr()}
        return left

    def and_expr(self):
        left = self.not_expr()
        while self.peek()[0] == "and":
            self.next()
            left = {"k": "and", "a": left, "b": self.not_expr()}
        return left

    def not_expr(self):
        if self.peek()[0] == "not":
            self.next()
            return {"k": "not", "a": self.not_expr()}
        return self.rel_expr()

    def rel_expr(self):
        # a parenthesised logical expression or a relation between arithmetic expressions
        if self.peek()[0] == "(":
            save = self.i
            try:
                self.next()
                c = self.or_expr()
                self.expect(")")
                if self.peek()[0] not in ("rel", "+", "-", "*", "/", "pow"):
                    return c
            except ParseError:
                pass
            self.i = save
        a = self.add_expr()
        tok = self.next()
        if tok[0] != "rel":
            raise ParseError("relation expected")
        b = self.add_expr()
        return {"k": "rel", "op": tok[1], "a": a, "b": b}


def parse_expr(text: str):
    p = _P(tokenize(text))
    e = p.add_expr()
    if p.peek()[0] is not None:
        raise ParseError(f"trailing tokens in expression {text!r}")
    return e


def parse_cond(text: str):
    p = _P(tokenize(text))
    c = p.or_expr()
    if p.peek()[0] is not None:
        raise ParseError(f"trailing tokens in condition {text!r}")
    return c


# --------------------------------------------------------------------------- statements


def logical_lines(text: str):
    """strip comments, join `&` continuation lines, drop blank lines"""
    out, cur = [], ""
    for raw in text.splitlines():
        line = raw.split(";", 1)[0].rstrip()
        if not line.strip() and not cur:
            continue
        if line.rstrip().endswith("&"):
            cur += line.rstrip()[:-1] + " "
            continue
        cur += line
        if cur.strip():
            out.append(cur)
        cur = ""
    if cur.strip():
        out.append(cur)
    return out


def _lhs(p: _P):
    kind, val, _ = p.next()
    if kind != "name":
        raise ParseError("assignment target expected")
    if p.peek()[0] == "(":
        p.next()
        idx = p._index()
        p.expect(")")
        if val not in ("DADT", "A_0", "A"):
            raise Unsupported(f"assignment to {val}(..)")
        return f"{val}({idx})"
    return val


def _balanced_condition(p: _P):
    """after IF: the parenthesised condition"""
    p.expect("(")
    depth, start = 1, p.i
    while depth:
        k = p.next()[0]
        if k is None:
            raise ParseError("unbalanced parentheses after IF")
        if k == "(":
            depth += 1
        elif k == ")":
            depth -= 1
    inner = _P(p.t[start:p.i - 1])
    c = inner.or_expr()
    if inner.peek()[0] is not None:
        raise ParseError("trailing tokens in IF condition")
    return c


def parse_code(text: str):
    """abbreviated code -> list of statements (NMTran.tla JSON shapes)"""
    lines = [tokenize(ln) for ln in logical_lines(text)]
    pos = 0

    def is_kw(toks, i, *words):
        return len(toks) > i + len(words) - 1 and all(toks[i + j] [:2] == ("name", w) for j, w in enumerate(words))

    def block(terminators):
        nonlocal pos
        body = []
        while pos < len(lines):
            toks = lines[pos]
            if not toks:
                pos += 1
                continue
            head = toks[0][1] if toks[0][0] == "name" else None
            if head in terminators or (head == "END" and is_kw(toks, 0, "END", "IF") and "ENDIF" in terminators) \
                    or (head == "ELSE" and "ELSE" in terminators):
                return body
            if head == "IF" and len(toks) > 1 and toks[1][0] == "(":
                p = _P(toks)
                p.next()
                c = _balanced_condition(p)
                if p.peek()[:2] == ("name", "THEN") and p.peek(1)[0] is None:
                    pos += 1
                    arms = [{"c": c, "body": block({"ELSE", "ELSEIF", "ENDIF"})}]
                    els, haselse = [], False
                    while True:
                        if pos >= len(lines):
                            raise ParseError("IF block without ENDIF")
                        t2 = lines[pos]
                        h = t2[0][1]
                        if h == "ENDIF" or is_kw(t2, 0, "END", "IF"):
                            pos += 1
                            break
                        if h == "ELSEIF" or is_kw(t2, 0, "ELSE", "IF"):
                            p2 = _P(t2)
                            p2.next()
                            if h == "ELSE":
                                p2.next()
                            c2 = _balanced_condition(p2)
                            if p2.peek()[:2] != ("name", "THEN"):
                                raise ParseError("THEN expected")
                            pos += 1
                            arms.append({"c": c2, "body": block({"ELSE", "ELSEIF", "ENDIF"})})
                        elif h == "ELSE" and len(t2) == 1:
                            pos += 1
                            haselse = True
                            els = block({"ENDIF"})
                        else:
                            raise ParseError(f"unexpected {h} in IF block")
                    body.append({"k": "blk", "arms": arms, "haselse": haselse, "els": els})
                    continue
                # logical IF
                if p.peek()[0] != "name" or p.peek()[1] in ("EXIT", "CALL", "RETURN"):
                    raise Unsupported("logical IF with a non-assignment")
                v = _lhs(p)
                p.expect("=")
                e = p.add_expr()
                if p.peek()[0] is not None:
                    raise ParseError("trailing tokens after logical IF")
                body.append({"k": "lif", "c": c, "v": v, "e": e})
                pos += 1
                continue
            if head in ("EXIT", "CALL", "RETURN", "DO", "DOWHILE", "ENDDO", "WRITE", "PRINT", "OPEN", "CLOSE", "REWIND"):
                raise Unsupported(f"statement {head}")
            p = _P(toks)
            v = _lhs(p)
            p.expect("=")
            e = p.add_expr()
            if p.peek()[0] is not None:
                raise ParseError(f"trailing tokens after assignment to {v}")
            body.append({"k": "asg", "v": v, "e": e})
            pos += 1
        return body

    out = block(set())
    if pos != len(lines):
        raise ParseError("unmatched ELSE / ENDIF")
    return out


# --------------------------------------------------------------------------- records

_REC = re.compile(r"^\s*\$([A-Za-z]+)", re.M)
CANON = {"PRO": "PROBLEM", "INP": "INPUT", "DAT": "DATA", "SUB": "SUBROUTINES", "MOD": "MODEL", "PK": "PK", "DES": "DES",
         "ERR": "ERROR", "PRE": "PRED", "THE": "THETA", "OME": "OMEGA", "SIG": "SIGMA", "EST": "ESTIMATION",
         "COV": "COVARIANCE", "TAB": "TABLE", "ABB": "ABBREVIATED", "SIZ": "SIZES", "SIM": "SIMULATION",
         "ETA": "ETAS", "MIX": "MIX", "INF": "INFN", "AES": "AES", "MSF": "MSFI", "DESIGN": "DESIGN"}


def split_records(text: str):
    """-> [(canonical name, raw content after the record name)]"""
    out = []
    marks = list(_REC.finditer(text))
    for i, m in enumerate(marks):
        end = marks[i + 1].start() if i + 1 < len(marks) else len(text)
        raw = m.group(1).upper()
        name = CANON.get(raw[:3], raw)
        if raw.startswith("PK"):
            name = "PK"
        if raw.startswith("DES") and not raw.startswith("DESI"):
            name = "DES"
        out.append((name, text[m.end():end]))
    return out


def _strip_comments(s):
    return "\n".join(ln.split(";", 1)[0] for ln in s.splitlines())


def parse_subroutines(content):
    toks = re.split(r"[\s,]+", _strip_comments(content).upper().strip())
    res = {"advan": None, "trans": None}
    for t in toks:
        t = t.split("=")[-1] if t.startswith(("ADVAN=", "TRANS=")) else t
        m = re.fullmatch(r"ADVAN(\d+)", t)
        if m:
            res["advan"] = int(m.group(1))
        m = re.fullmatch(r"TRANS(\d+)", t)
        if m:
            res["trans"] = int(m.group(1))
    return res


def parse_model(content):
    """$MODEL -> [{"name", "defdose", "defobs", "nodose"}] in declaration order"""
    comps = []
    s = _strip_comments(content)
    for m in re.finditer(r"COMP(?:ARTMENT|ARTMEN|ARTME|ARTM|ART|AR|A)?\s*=?\s*\(([^)]*)\)|COMP(?:ARTMENT)?\s*=\s*(\w+)", s, re.I):
        inner = (m.group(1) or m.group(2)).upper().replace(",", " ").split()
        if not inner:
            raise ParseError("empty COMPARTMENT")
        opts = set(inner[1:])
        comps.append({"name": inner[0], "defdose": any(o.startswith("DEFD") for o in opts),
                      "defobs": any(o.startswith("DEFO") for o in opts), "nodose": "NODOSE" in opts})
    return comps


def parse_input(content):
    """$INPUT -> [{"name": name used in code, "drop": bool}]"""
    cols = []
    for item in _strip_comments(content).replace(",", " ").split():
        item = item.upper()
        if "=" in item:
            a, b = item.split("=", 1)
            if a in ("DROP", "SKIP"):
                cols.append({"name": b, "drop": True})
            elif b in ("DROP", "SKIP"):
                cols.append({"name": a, "drop": True})
            else:
                cols.append({"name": a, "drop": False, "synonym": b})
        elif item in ("DROP", "SKIP"):
            cols.append({"name": None, "drop": True})
        else:
            cols.append({"name": item, "drop": False})
    return cols


_VAL = r"[-+]?(?:\d+\.?\d*|\.\d+)(?:[EeDd][-+]?\d+)?"


def _q(txt):
    t = txt.upper()
    if t in ("INF", "+INF"):
        return "inf"
    if t == "-INF":
        return "ninf"
    return Fraction(t.replace("D", "E"))


def parse_theta(content):
    """$THETA record -> [{"init": Fraction, "lo": Fraction|None, "up": Fraction|None, "fix": bool, "name": str|None}]
    (the forms pharmpy writes and the common hand-written ones)"""
    out = []
    for raw in content.splitlines():
        if ";" in raw:
            body, comment = raw.split(";", 1)
        else:
            body, comment = raw, None
        name = None
        if comment is not None:
            m = re.match(r"\s*([A-Za-z_]\w*)", comment)
            name = m.group(1) if m else None
        body = body.strip()
        items = []
        pos = 0
        while pos < len(body):
            c = body[pos]
            if c.isspace() or c == ",":
                pos += 1
                continue
            if c == "(":
                end = body.index(")", pos)
                inner = body[pos + 1:end]
                fix = bool(re.search(r"\bFIX(ED|E)?\b", inner, re.I))
                inner = re.sub(r"\bFIX(ED|E)?\b", " ", inner, flags=re.I)
                parts = [x.strip() for x in inner.split(",")] if "," in inner else inner.split()
                parts = [x for x in parts]
                vals = [(_q(x) if x else None) for x in parts]
                rest = body[end + 1:]
                m = re.match(r"\s*(FIX(?:ED|E)?)\b", rest, re.I)
                if m:
                    fix = True
                    end += m.end()
                    rest = body[end + 1:]
                m = re.match(r"\s*[xX](\d+)", rest)
                rep = 1
                if m:
                    rep = int(m.group(1))
                    end += m.end()
                if len(vals) == 1:
                    lo, init, up = None, vals[0], None
                elif len(vals) == 2:
                    lo, init, up = vals[0], vals[1], None
                elif len(vals) == 3:
                    lo, init, up = vals
                else:
                    raise ParseError(f"$THETA item {body[pos:end + 1]!r}")
                if init is None:
                    raise Unsupported("$THETA without initial estimate")
                for _ in range(rep):
                    items.append({"init": init, "lo": lo, "up": up, "fix": fix})
                pos = end + 1
                continue
            m = re.match(_VAL + r"|[-+]?INF", body[pos:], re.I)
            if m:
                item = {"init": _q(m.group(0)), "lo": None, "up": None, "fix": False}
                pos += m.end()
                m2 = re.match(r"\s*(FIX(?:ED|E)?)\b", body[pos:], re.I)
                if m2:
                    item["fix"] = True
                    pos += m2.end()
                items.append(item)
                continue
            m = re.match(r"[A-Za-z]+(=\S+)?", body[pos:])
            if m:  # record option (NUMBERPOINTS=..., ABORT ...)
                pos += m.end()
                continue
            raise ParseError(f"$THETA text {body[pos:]!r}")
        for k, it in enumerate(items):
            it["name"] = name if k == len(items) - 1 else None
            for fld in ("lo", "up"):
                v = it[fld]
                if v in ("inf", "ninf") or (isinstance(v, Fraction) and abs(v) >= 1000000):
                    it[fld] = None
        out.extend(items)
    return out


def parse_omega(content):
    """one $OMEGA / $SIGMA record -> {"type": "diag"|"block"|"same", "size", "values": [Fraction..] (as written, lower
    triangle), "fix": bool, "sd","corr","chol": bool, "names": [str|None..] per value}"""
    lines = content.splitlines()
    values, names = [], []
    head = _strip_comments(content).upper()
    m = re.search(r"\bBLOCK\s*(?:\(\s*(\d+)\s*\))?", head)
    same = re.search(r"\bSAME\b(?:\s*\(\s*(\d+)\s*\))?", head)
    rec = {"type": "diag", "size": None, "fix": False, "sd": False, "corr": False, "chol": False, "times": 1}
    if m:
        rec["type"] = "block"
        rec["size"] = int(m.group(1)) if m.group(1) else None
    if same:
        rec["type"] = "same"
        rec["times"] = int(same.group(1)) if same.group(1) else 1
        return rec
    if re.search(r"\bVALUES\b", head):
        raise Unsupported("$OMEGA VALUES")
    perval_fix = []
    for raw in lines:
        if ";" in raw:
            body, comment = raw.split(";", 1)
        else:
            body, comment = raw, None
        b = body.upper()
        b = re.sub(r"\bBLOCK\s*(\(\s*\d+\s*\))?", " ", b)
        b = re.sub(r"\bDIAG(ONAL)?\s*\(\s*\d+\s*\)", " ", b)
        if re.search(r"\b(STANDARD|SD)\b", b):
            rec["sd"] = True
        if re.search(r"\bCORR(ELATION)?\b", b):
            rec["corr"] = True
        if re.search(r"\bCHOL(ESKY)?\b", b):
            rec["chol"] = True
        found = []
        for mm in re.finditer(r"\(\s*(" + _VAL + r")\s*((?:FIX(?:ED)?|SD|STANDARD|\s)*)\)\s*(?:[xX](\d+))?|(" + _VAL + r")(\s+FIX(?:ED)?\b)?", b):
            if mm.group(1) is not None:
                rep = int(mm.group(3)) if mm.group(3) else 1
                fx = "FIX" in (mm.group(2) or "")
                if re.search(r"SD|STANDARD", mm.group(2) or ""):
                    rec["sd_items"] = True
                for _ in range(rep):
                    found.append((Fraction(mm.group(1).replace("D", "E")), fx))
            else:
                found.append((Fraction(mm.group(4).replace("D", "E")), bool(mm.group(5))))
        if rec["type"] == "block" and re.search(r"\bFIX(ED)?\b", b):
            rec["fix"] = True
        nm = None
        if comment is not None:
            m2 = re.match(r"\s*([A-Za-z_]\w*)", comment)
            nm = m2.group(1) if m2 else None
        for k, (val, fx) in enumerate(found):
            values.append(val)
            perval_fix.append(fx)
            names.append(nm if k == len(found) - 1 else None)
    if rec.get("sd_items") or (rec["type"] == "diag" and rec["sd"]):
        raise Unsupported("diagonal $OMEGA on the SD scale")
    rec["values"], rec["names"], rec["fixes"] = values, names, perval_fix
    if rec["type"] == "block":
        n = rec["size"] or 0
        if n * (n + 1) // 2 != len(values):
            raise ParseError(f"BLOCK({n}) with {len(values)} values")
    return rec


def parse_control_stream(text: str):
    """-> {"advan","trans","model":[comp..],"input":[col..],"data": str|None,
           "pred"|"pk","des","error": [stmt..] | None, "thetas":[..], "omegas":[rec..], "sigmas":[rec..], "records":[names]}"""
    recs = split_records(text)
    out = {"advan": None, "trans": None, "model": [], "input": [], "data": None, "pk": None, "pred": None, "des": None,
           "error": None, "thetas": [], "omegas": [], "sigmas": [], "records": [r[0] for r in recs]}
    if out["records"].count("PROBLEM") > 1:
        raise Unsupported("several $PROBLEMs")
    code = {"PK": "", "PRED": "", "DES": "", "ERROR": ""}
    seen = set()
    abbr = {}
    for name, content in recs:
        if name == "ABBREVIATED":
            for m in re.finditer(r"REPLACE\s+([A-Za-z_]\w*)\s*=\s*([A-Za-z_]\w*\s*\(\s*\d+\s*\))", _strip_comments(content), re.I):
                abbr[m.group(1).upper()] = m.group(2).upper().replace(" ", "")
            if re.search(r"\b(DERIV2|COMRES|PROTECT|FUNCTION|VECTOR|DECLARE)\b", content, re.I):
                raise Unsupported("$ABBREVIATED option")
    out["abbr"] = abbr
    for name, content in recs:
        if name == "SUBROUTINES":
            out.update({k: v for k, v in parse_subroutines(content).items() if v is not None})
        elif name == "MODEL":
            out["model"].extend(parse_model(content))
        elif name == "INPUT":
            out["input"].extend(parse_input(content))
        elif name == "DATA":
            toks = _strip_comments(content).split()
            out["data"] = toks[0].strip("'\"") if toks else None
        elif name in code:
            for a, b in abbr.items():
                content = re.sub(r"(?i)(?<![A-Za-z0-9_])" + re.escape(a) + r"(?![A-Za-z0-9_])", b, content)
            code[name] += content + "\n"
            seen.add(name)
        elif name == "THETA":
            out["thetas"].extend(parse_theta(content))
        elif name == "OMEGA":
            out["omegas"].append(parse_omega(content))
        elif name == "SIGMA":
            out["sigmas"].append(parse_omega(content))
        elif name in ("MIX", "AES", "INFN"):
            raise Unsupported(f"${name}")
    for name, key in (("PK", "pk"), ("PRED", "pred"), ("DES", "des"), ("ERROR", "error")):
        if name in seen:
            out[key] = parse_code(code[name])
    if out["advan"] is not None and out["trans"] is None:
        out["trans"] = 1
    return out
