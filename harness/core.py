"""Shared machinery: TLC runner, evidence writer, known-findings matcher, verdict reporting.

Conventions (DESIGN.md sections 2.3-2.5):
  exit 0  property held on everything explored (KNOWN-FINDING lines allowed)
  exit 1  + line "VIOLATION property=<id> replay=<path>" for every unlisted violation
  exit 2  machinery failure (TLC crash, vacuity, too little coverage) - never a violation
"""
from __future__ import annotations

import hashlib
import json
import os
import re
import shutil
import subprocess
import sys
import time
from dataclasses import dataclass, field
from pathlib import Path

VERIF = Path(__file__).resolve().parent.parent
REPO = Path(os.environ.get("VERIF_REPO", "/repo"))
WORK = VERIF / ".work"
SPEC = VERIF / "spec"
# evidence is only ever written for /repo itself; runs against a scratch worktree (tools/mutant_test.sh, VERIF_REPO set)
# write theirs under .work so that a mutant run can never replace a committed evidence file
EVIDENCE = VERIF / "evidence" if str(REPO) == "/repo" else WORK / "evidence-scratch"
REPLAYS = VERIF / "replays"
KNOWN = VERIF / "known_findings.json"
TLA_JAR = "/opt/veriftools/tla/tla2tools.jar:/opt/veriftools/tla/CommunityModules-deps.jar"


class MachineryError(Exception):
    """Something in the checking machinery (not in pharmpy) failed: exit 2."""


def use_repo():
    """Make `import pharmpy` resolve to $VERIF_REPO/src (default /repo/src)."""
    src = str(REPO / "src")
    if src not in sys.path:
        sys.path.insert(0, src)
    os.environ.setdefault("PHARMPY_VERIF", "1")
    import warnings

    warnings.filterwarnings("ignore")


def seed_from_env(default=0) -> int:
    try:
        return int(os.environ.get("VERIF_SEED", default))
    except ValueError:
        return default


def scratch(tag: str) -> Path:
    import uuid

    d = WORK / f"{tag}-{os.getpid()}-{uuid.uuid4().hex[:10]}"
    d.mkdir(parents=True, exist_ok=False)
    return d


# --------------------------------------------------------------------------- TLC


@dataclass
class TLCResult:
    rc: int
    out: str
    generated: int = 0
    distinct: int = 0
    depth: int = 0
    wall: float = 0.0
    violated: str | None = None  # invariant / property name, "deadlock", "assumption"
    error: str | None = None  # machinery level error text
    coverage: dict = field(default_factory=dict)  # action name -> (taken, distinct)
    prints: list = field(default_factory=list)  # (tag, json value) from Emit
    trace: list = field(default_factory=list)  # counterexample states as text blocks
    cmd: str = ""

    @property
    def ok(self):
        return self.rc == 0 and self.violated is None and self.error is None


_PRINT_RE = re.compile(r'^<<"([A-Za-z0-9_]+)", (".*")>>\s*$')
_PRINT_ANY = re.compile(r'<<"([A-Za-z0-9_]+)", "((?:[^"\\]|\\.)*)">>')
_COV_RE = re.compile(r"^<(\w+) line \d+, col \d+ to line \d+, col \d+ of module (\w+)(?: \([\d ]+\))?>: (\d+):(\d+)")


def parse_tlc_output(out: str, res: TLCResult):
    for m in _PRINT_ANY.finditer(out):
        try:
            res.prints.append((m.group(1), json.loads(json.loads('"' + m.group(2) + '"'))))
        except Exception:
            pass
    for line in out.splitlines():
        if line.startswith('<<"'):
            continue
        m = _COV_RE.match(line)
        if m:
            name = m.group(1)
            prev = res.coverage.get(name, (0, 0))
            res.coverage[name] = (prev[0] + int(m.group(3)), prev[1] + int(m.group(4)))
            continue
        m = re.match(r"^(\d+) states generated, (\d+) distinct states found", line)
        if m:
            res.generated, res.distinct = int(m.group(1)), int(m.group(2))
            continue
        m = re.match(r"^The depth of the complete state graph search is (\d+)", line)
        if m:
            res.depth = int(m.group(1))
            continue
        m = re.match(r"^Error: Invariant (\S+) is violated", line)
        if m:
            res.violated = m.group(1)
            continue
        m = re.match(r"^Error: Action property (\S+) is violated", line)
        if m:
            res.violated = m.group(1)
            continue
        if line.startswith("Error: Temporal properties were violated"):
            res.violated = "temporal"
        elif line.startswith("Error: Deadlock reached"):
            res.violated = "deadlock"
        elif line.startswith("Error: Assumption"):
            res.violated = "assumption"
        elif "The postcondition" in line and "violated" in line or line.startswith("Error: Evaluating postcondition"):
            res.violated = "postcondition"
    # simulation mode prints a different summary
    m = re.search(r"The number of states generated: (\d+)", out)
    if m and not res.generated:
        res.generated = int(m.group(1))
        res.distinct = res.distinct or res.generated
    if res.violated:
        blocks = re.split(r"^State \d+: ", out, flags=re.M)[1:]
        res.trace = [b.strip() for b in blocks]
    if res.violated is None and res.rc != 0:
        tail = "\n".join(out.splitlines()[-25:])
        res.error = f"TLC exit {res.rc}\n{tail}"


def run_tlc(
    module: Path,
    cfg: Path | None = None,
    *,
    workers: int | str = 16,
    timeout: int = 900,
    env: dict | None = None,
    simulate: str | None = None,
    depth: int | None = None,
    seed: int | None = None,
    coverage: bool = True,
    deadlock: bool | None = None,
    extra: list | None = None,
    dfs_queue: bool = False,
    heap: str = "8g",
) -> TLCResult:
    """Run TLC on `module` (path to .tla) with config `cfg`; all scratch files go to .work and are removed."""
    module = Path(module)
    cfg = Path(cfg) if cfg else module.with_suffix(".cfg")
    meta = scratch("tlc-" + module.stem)
    cmd = [
        "java",
        "-XX:+UseParallelGC",
        f"-Xmx{heap}",
    ]
    if dfs_queue:
        cmd.append("-Dtlc2.tool.queue.IStateQueue=StateDeque")
    cmd += ["-cp", TLA_JAR, "tlc2.TLC", "-workers", str(workers), "-metadir", str(meta), "-noGenerateSpecTE"]
    if coverage and not simulate:
        cmd += ["-coverage", "1"]
    if simulate:
        cmd += ["-simulate", simulate]
    if depth is not None:
        cmd += ["-depth", str(depth)]
    if seed is not None:
        cmd += ["-seed", str(seed)]
    if deadlock is False:
        cmd += ["-deadlock"]
    cmd += list(extra or [])
    cmd += ["-config", str(cfg), str(module)]
    e = dict(os.environ)
    e.pop("JAVA_TOOL_OPTIONS", None)
    if env:
        e.update({k: str(v) for k, v in env.items()})
    t0 = time.time()
    try:
        p = subprocess.run(cmd, cwd=str(module.parent), env=e, capture_output=True, text=True, timeout=timeout)
        out, rc = p.stdout + p.stderr, p.returncode
    except subprocess.TimeoutExpired as ex:
        out = (ex.stdout or b"").decode("utf8", "replace") if isinstance(ex.stdout, bytes) else (ex.stdout or "")
        rc = -9
    finally:
        shutil.rmtree(meta, ignore_errors=True)
        for junk in module.parent.glob("*_TTrace_*"):
            junk.unlink(missing_ok=True)
    res = TLCResult(rc=rc, out=out, wall=time.time() - t0, cmd=" ".join(cmd[cmd.index("tlc2.TLC"):]))
    if rc == -9:
        res.error = f"TLC timed out after {timeout}s"
        parse_tlc_output(out, res)
        res.error = f"TLC timed out after {timeout}s"
        return res
    parse_tlc_output(out, res)
    return res


def require_ok(res: TLCResult, what: str):
    if res.error:
        raise MachineryError(f"{what}: {res.error}")
    return res


def require_actions(res: TLCResult, actions: list[str], what: str):
    """Vacuity guard: every named action must have been taken at least once."""
    def taken(a):
        alts = a if isinstance(a, (tuple, list)) else (a,)
        return any(res.coverage.get(x, (0, 0))[0] > 0 for x in alts)

    missing = [a for a in actions if not taken(a)]
    if missing:
        raise MachineryError(f"{what}: actions never taken (vacuous model): {missing}")


# --------------------------------------------------------------------------- known findings


def load_known():
    """known_findings.json (the committed list) plus per-property fragments known_findings.d/*.json
    (same format; merged into known_findings.json by tools/build_manifest.py)."""
    out, seen = [], set()
    # fragments first: a fragment is the source of truth for its entries, the merged file may be stale
    files = sorted((VERIF / "known_findings.d").glob("*.json")) + ([KNOWN] if KNOWN.exists() else [])
    for f in files:
        data = json.loads(f.read_text())
        for x in data.get("findings", []):
            if x.get("id") not in seen:
                seen.add(x.get("id"))
                out.append(x)
    return out


def _get(case: dict, dotted: str):
    cur = case
    for part in dotted.split("."):
        if isinstance(cur, dict) and part in cur:
            cur = cur[part]
        else:
            return _MISSING
    return cur


_MISSING = object()


def match_known(prop: str, case: dict, known=None):
    """A violation is suppressed only if every field of an *open* finding's key equals the case's field."""
    for f in known if known is not None else load_known():
        if f.get("property") != prop or f.get("status") != "open":
            continue
        key = f.get("key", {})
        if key and all(_get(case, k) == v for k, v in key.items()):
            return f
    return None


# --------------------------------------------------------------------------- verdict + evidence


class Verdict:
    """Collects violations / known findings for one property run and writes evidence."""

    def __init__(self, prop: str, tier: str, seed: int, level: str = "model_checking"):
        self.prop, self.tier, self.seed, self.level = prop, tier, seed, level
        self.t0 = time.time()
        self.violations: list[tuple[dict, str, str]] = []
        self.known_hits: dict[str, list] = {}
        self.known = load_known()
        self.coverage: dict = {}
        self.assumptions: list[str] = []
        self.notes: list[str] = []
        self._seen = set()

    def violation(self, case: dict, what: str):
        """Report that the real code contradicts the property layer on `case` (a JSON-able record)."""
        f = match_known(self.prop, case, self.known)
        if f is not None:
            self.known_hits.setdefault(f["id"], [f, 0])[1] += 1
            return "known"
        blob = json.dumps(case, sort_keys=True, default=str)
        h = hashlib.sha256(blob.encode()).hexdigest()[:12]
        if h in self._seen:
            return "dup"
        self._seen.add(h)
        d = REPLAYS / self.prop
        d.mkdir(parents=True, exist_ok=True)
        path = d / f"{h}.json"
        path.write_text(json.dumps({"property": self.prop, "what": what, "case": case}, indent=1, default=str))
        self.violations.append((case, what, str(path)))
        return "new"

    def add_coverage(self, **kw):
        for k, v in kw.items():
            if isinstance(v, int) and not isinstance(v, bool) and isinstance(self.coverage.get(k), int):
                self.coverage[k] += v
            elif isinstance(v, list) and isinstance(self.coverage.get(k), list):
                self.coverage[k].extend(v)
            else:
                self.coverage[k] = v

    def finish(self, min_traces: int = 1) -> int:
        cov = dict(self.coverage)
        cov.setdefault("states", 0)
        cov.setdefault("transitions", 0)
        cov.setdefault("traces_validated_against_impl", 0)
        cov.setdefault("samples", [])
        cov["samples"] = cov["samples"][:8]
        cov["known_findings_hit"] = {k: v[1] for k, v in self.known_hits.items()}
        if self.notes:
            cov["notes"] = self.notes[:50]
        ev = {
            "property_id": self.prop,
            "tier": self.tier,
            "seed": self.seed,
            "level": self.level,
            "coverage": cov,
            "assumptions": self.assumptions,
            "wall_s": round(time.time() - self.t0, 2),
            "violations": len(self.violations),
        }
        EVIDENCE.mkdir(parents=True, exist_ok=True)
        (EVIDENCE / f"{self.prop}.json").write_text(json.dumps(ev, indent=1, default=str) + "\n")
        for fid, (f, n) in sorted(self.known_hits.items()):
            print(f"KNOWN-FINDING: property={self.prop} {fid}: {f['what']} [{n} case(s)]")
        for case, what, path in self.violations[:25]:
            print(f"VIOLATION property={self.prop} replay={path}")
            print(f"  what: {what}")
        if len(self.violations) > 25:
            print(f"  ... {len(self.violations) - 25} more violations (see {REPLAYS / self.prop})")
        if self.violations:
            return 1
        if self.level == "model_checking" and (cov["states"] < 1 or cov["transitions"] < 1):
            print(f"MACHINERY: {self.prop}: no states explored", file=sys.stderr)
            return 2
        if cov["traces_validated_against_impl"] < min_traces:
            print(f"MACHINERY: {self.prop}: only {cov['traces_validated_against_impl']} traces reached the implementation (< {min_traces})", file=sys.stderr)
            return 2
        print(
            f"OK property={self.prop} tier={self.tier} states={cov['states']} transitions={cov['transitions']} "
            f"impl_traces={cov['traces_validated_against_impl']} wall={ev['wall_s']}s"
        )
        return 0


def tlc_stats_into(v: Verdict, res: TLCResult):
    v.add_coverage(states=res.distinct, transitions=res.generated)


# --------------------------------------------------------------------------- parallel map with fork


def pmap(fn, items, procs: int = 16, chunk: int = 1, init=None):
    """Fork-based parallel map (pharmpy is imported in the parent first, children inherit it)."""
    import multiprocessing as mp

    items = list(items)
    if not items:
        return []
    if procs <= 1 or len(items) == 1:
        if init:
            init()
        return [fn(x) for x in items]
    ctx = mp.get_context("fork")
    with ctx.Pool(min(procs, len(items)), initializer=init) as pool:
        return pool.map(fn, items, chunksize=chunk)
